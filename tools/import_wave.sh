#!/bin/bash
# tools/import_wave.sh <wave> <tag> : import (tools/try_seed.py) every property of the wave whose seeding agent has finished
# (meta1..3.json present in /tmp/<wave>-cNN-out) and that is not imported yet; one line per change on stdout.
wave=$1; tag=$2
cd /verif
for id in $(cat checks/READY); do
  l=$(echo $id | tr A-Z a-z)
  out=/tmp/$wave-$l-out
  [ -f $out/meta1.json ] && [ -f $out/meta2.json ] && [ -f $out/meta3.json ] && [ -f $out/demo3.py ] || continue
  [ -f seeded/$id-${tag}3/meta.json ] && continue
  tools/try_seed.py $id $out $tag quick 2>&1 | grep -E "^C[0-9]+-${tag}[0-9] valid" | cut -c1-200
done

#!/bin/bash
# tools/import_wave.sh <wave> <tag> [parallel] : import (tools/try_seed.py) every property of the wave whose seeding agent has
# finished (meta1..3.json and demo3.py present in /tmp/<wave>-cNN-out) and that is not imported yet; one line per change.
wave=$1; tag=$2; par=${3:-4}
cd /verif
todo=()
for id in $(cat checks/READY); do
  l=$(echo $id | tr A-Z a-z)
  out=/tmp/$wave-$l-out
  [ -f $out/meta1.json ] && [ -f $out/meta2.json ] && [ -f $out/meta3.json ] && [ -f $out/demo3.py ] || continue
  [ -f seeded/$id-${tag}3/meta.json ] && continue
  todo+=($id)
done
[ ${#todo[@]} -eq 0 ] && exit 0
export wave tag
printf '%s\n' "${todo[@]}" | xargs -r -P $par -I{} bash -c 'id={}; l=$(echo $id | tr A-Z a-z); tools/try_seed.py $id /tmp/$wave-$l-out $tag quick 2>&1 | grep -E "^C[0-9]+-$tag[0-9] valid" | cut -c1-200'

#!/venv/bin/python
"""tools/rerun_seeded.py [ID ...] : re-run the current quick checks against every kept seeded change and record the
result in its meta.json (key 'current_check').  Prints one line per change; exit 1 if any valid change is missed."""
import glob, json, os, shutil, subprocess, sys, time
HERE = os.path.dirname(os.path.dirname(os.path.abspath(__file__)))


def main():
    only = {a.upper() for a in sys.argv[1:]}
    missed = 0
    for d in sorted(glob.glob(os.path.join(HERE, 'seeded', '*'))):
        name = os.path.basename(d)
        mp = os.path.join(d, 'meta.json')
        if not os.path.exists(mp):
            continue
        if only and name.split('-')[0] not in only and name.upper() not in only:
            try:                                    # another lane may be rewriting this file right now
                meta = json.load(open(mp))
            except ValueError:
                continue
        else:
            meta = json.load(open(mp))
        pid = meta.get('checked_by') or meta['property']
        if only and meta['property'] not in only and name.upper() not in only:      # ids (C10) or change names (C10-x1)
            continue
        if meta.get('obsolete'):
            print('%s OBSOLETE (%s)' % (name, (meta.get('disposition') or '')[:100]))
            continue
        sc = '/dev/shm/reseed-%s-%d' % (name, os.getpid())
        shutil.rmtree(sc, ignore_errors=True)
        os.makedirs(sc)
        shutil.copytree('/repo/boltons', os.path.join(sc, 'boltons'))
        ap = subprocess.run(['patch', '-p1', '-s', '-i', os.path.join(d, 'patch.diff')], cwd=sc, capture_output=True, text=True)
        if ap.returncode != 0:
            print('%s PATCH NO LONGER APPLIES' % name)
            shutil.rmtree(sc, ignore_errors=True)
            continue
        out = sc + '-out'
        t0 = time.time()
        cp = subprocess.run([os.path.join(HERE, 'check'), pid, '--tier', 'quick'], cwd=HERE, capture_output=True, text=True,
                            env=dict(os.environ, VERIF_REPO=sc, VERIF_OUT=out))
        sigs = [l.strip()[len('signature: '):] for l in cp.stdout.splitlines() if l.strip().startswith('signature:')]
        caught = ('VIOLATION property=%s' % pid) in cp.stdout and cp.returncode == 1
        meta['current_check'] = {'check': pid, 'caught': caught, 'exit': cp.returncode, 'signatures': sorted(set(sigs))[:8],
                                 'wall_s': round(time.time() - t0, 1)}
        json.dump(meta, open(mp + '.tmp', 'w'), indent=1)
        os.replace(mp + '.tmp', mp)
        print('%s %s by %s  %s' % (name, 'CAUGHT' if caught else 'MISSED', pid, '; '.join(sorted(set(sigs))[:2])[:160]))
        if not caught and meta.get('confirmed_valid'):
            missed += 1
        shutil.rmtree(sc, ignore_errors=True)
        shutil.rmtree(out, ignore_errors=True)
    return 1 if missed else 0


if __name__ == '__main__':
    sys.exit(main())

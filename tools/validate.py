"""python3-vt tools/validate.py : validate MANIFEST.json and every evidence file against the official schemas."""
import glob, json, sys, os
import jsonschema
HERE = os.path.dirname(os.path.dirname(os.path.abspath(__file__)))
bad = 0
ms = json.load(open('/root/.vp/MANIFEST.schema.json'))
es = json.load(open('/root/.vp/EVIDENCE.schema.json'))
try:
    jsonschema.validate(json.load(open(os.path.join(HERE, 'MANIFEST.json'))), ms); print('MANIFEST ok')
except Exception as e:
    bad += 1; print('MANIFEST INVALID', e)
for f in sorted(glob.glob(os.path.join(HERE, 'evidence', '*.json'))):
    try:
        jsonschema.validate(json.load(open(f)), es); print(os.path.basename(f), 'ok')
    except Exception as e:
        bad += 1; print(f, 'INVALID', str(e)[:300])
sys.exit(1 if bad else 0)

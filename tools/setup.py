#!/venv/bin/python
"""MANIFEST.setup_cmd: offline sanity check of the toolchain + byte-compilation of the framework."""
import compileall
import os
import shutil
import sys

HERE = os.path.dirname(os.path.dirname(os.path.abspath(__file__)))
ok = True
for tool in ('dash', 'bash', 'strace'):
    if not shutil.which(tool):
        print('warning: %s not found (checks that use it will say so)' % tool)
for d in ('mc', 'checks', 'tools'):
    ok &= bool(compileall.compile_dir(os.path.join(HERE, d), quiet=1))
for d in ('evidence', 'replays'):
    os.makedirs(os.path.join(HERE, d), exist_ok=True)
sys.path.insert(0, os.environ.get('VERIF_REPO', '/repo'))
import boltons  # noqa
print('setup ok' if ok else 'setup FAILED', 'python', sys.version.split()[0], 'boltons from', boltons.__file__)
sys.exit(0 if ok else 1)

#!/bin/bash
# tools/apply_fix.sh fixes/<name>   (without extension) : apply patch to /repo, run the suite, commit with the .msg
set -e
f="$1"
git -C /repo apply --check "/verif/$f.patch" || { echo "PATCH DOES NOT APPLY: $f"; exit 1; }
git -C /repo apply "/verif/$f.patch"
cd /repo
out=$(/venv/bin/python -m pytest -q -p no:cacheprovider tests 2>&1 | tail -1)
echo "$f: $out"
case "$out" in
  *"423 passed"*) git commit -qa -F "/verif/$f.msg"; git log --oneline | head -1;;
  *) echo "TESTS NOT GREEN - reverting"; git checkout -- .; exit 1;;
esac

#!/venv/bin/python
"""tools/make_seed_wave.py <wave-name> [IDs...] : prepare a wave of seeded-change sub-agents.

For every property id it creates a scratch git worktree of /repo at HEAD under /tmp/<wave>-<id> and an output directory
/tmp/<wave>-<id>-out holding PROPERTY.txt (the statement only) and BRIEF.md (the task + the list of changes already tried,
taken from seeded/*/meta.json "breaks" — that is information about *changes*, nothing about how /verif checks them).
It prints the prompt to hand to each sub-agent.  Sub-agents never see /verif.  Import results with tools/try_seed.py,
remove the worktrees with `git -C /repo worktree remove --force /tmp/<wave>-<id>`."""
import glob, json, os, subprocess, sys

ROOT = os.path.dirname(os.path.dirname(os.path.abspath(__file__)))

TASK = '''# Task: seed realistic property-breaking changes into a Python library

You work ONLY inside your own scratch git worktree of the library `mahmoud/boltons` (given below) and its output directory.
Do NOT read or touch anything under /verif or /repo.  Python: /venv/bin/python (3.12).  Run the library's tests with
`cd <worktree> && /venv/bin/python -m pytest -q -p no:cacheprovider tests` (imports resolve to the worktree).

You are given the text of ONE behavioural property of the library (PROPERTY.txt in your output directory).  Produce
**three different** changes to the library source (under `boltons/` only — not tests), each of which
* breaks the property (some input / history / schedule / fault sequence now violates the statement),
* still imports/compiles, and the *entire* existing test suite (all of `tests/`) still passes — run it to be sure,
* is realistic: the kind of slip or "optimisation" a developer could plausibly commit (cursor/offset logic, a forgotten
  update of one of two structures that must change together, a boundary condition, a wrong branch for a rare argument shape,
  a moved or narrowed lock, a reordered sequence of steps, a skipped cleanup on one path, two sites that each look fine alone…),
* needs something *specific* to manifest — a particular interleaving, a crash or fault at a particular point, a multi-step
  sequence of operations, an unusual input, a particular configuration — NOT something ordinary use would expose at once,
* the three changes should be different in kind and touch different mechanisms.

For each change k = 1, 2, 3 write into your output directory:
* `change<k>.diff` — `git diff` of the worktree against HEAD for that change alone (apply each change to a clean tree:
  `git checkout -- .` between changes),
* `demo<k>.py` — a small self-contained program (run as `cd <worktree> && /venv/bin/python <out>/demo<k>.py`) that exits 0 and
  prints "property holds" on the unchanged tree, and exits 1 printing what went wrong with the change applied.  It must start
  with `import sys, os; sys.path.insert(0, os.getcwd())` and demonstrate the violation in terms of the property statement
  (observable behaviour), deterministically,
* `meta<k>.json` — {"property": "<id>", "summary": "...", "needs": "what specific input/sequence/schedule/fault is needed",
  "files": [...], "tests_pass": true, "demo_fails_with_change": true, "demo_passes_without": true}.
Verify all three facts yourself for every change.  Leave the worktree clean (`git checkout -- .`) at the end.
Final message: a short table of the three changes (what, where, what it needs to manifest).
'''

AIM = '''
## What to aim for this time
Imagine the property is guarded by an exhaustive *small-scope* checker: it tries every operation sequence / input over tiny
alphabets (3-5 keys, short strings, a handful of values incl. None/0/'') up to a small depth, plus a few directed large
cases.  Seed changes such a checker is likely to MISS although they clearly violate the property statement as written.
Think about which *dimension* of the statement's quantifier ("for every sequence / input / schedule / fault …") a small
alphabet would leave out, and about code paths the statement covers that are reached only through less common entry points
(alternative constructors, operators, keyword forms, inherited methods, helper functions that share the mechanism).
Directions that earlier rounds used little: an *interaction* of two features that are each fine alone; state left behind by
an operation that raised (then the next, ordinary operation misbehaves); an operation applied to the *result* of another
operation (a copy, a view, a slice, the inverse side, a second iterator); the same call made through an alias or through
the other of two sibling classes/functions the property names; the order of side effects inside one call; behaviour at a
second or later *phase* of an object's life (after it was emptied, rolled over, compacted, closed and reopened, resized).
The change must violate the property *as stated* (not some stricter reading), keep all tests green, and be realistic.
'''


def main():
    wave = sys.argv[1]
    ids = sys.argv[2:]
    props = {}
    for line in open(os.path.join(ROOT, 'properties.jsonl')):
        d = json.loads(line)
        props[d['id']] = d
    if not ids:
        ids = sorted(props)
    for pid in ids:
        wt = '/tmp/%s-%s' % (wave, pid.lower())
        out = wt + '-out'
        if not os.path.isdir(wt):
            subprocess.check_call(['git', '-C', '/repo', 'worktree', 'add', '--detach', '-q', wt, 'HEAD'])
        os.makedirs(out, exist_ok=True)
        p = props[pid]
        with open(os.path.join(out, 'PROPERTY.txt'), 'w') as f:
            f.write('%s: %s\n\n%s\n\nQuantifier: %s\n\nCode: %s\n'
                    % (pid, p['title'], p['statement'], p['quantifier']['text'], ', '.join(p['anchors'].get('files', []))))
        tried = []
        for m in sorted(glob.glob(os.path.join(ROOT, 'seeded', pid + '-*', 'meta.json'))):
            tried.append('* ' + json.load(open(m))['breaks'][:260].replace('\n', ' '))
        with open(os.path.join(out, 'BRIEF.md'), 'w') as f:
            f.write(TASK)
            f.write('\nYour worktree: %s   Your output directory: %s\n' % (wt, out))
            f.write('\n## Already tried (do NOT repeat these or close variants; find different mechanisms)\n')
            f.write('\n'.join(tried) + '\n')
            f.write(AIM)
        print('%s: Read %s/BRIEF.md and follow it exactly. Your scratch git worktree is %s and your output directory is '
              '%s (PROPERTY.txt there holds the property to break). Do not read or touch /verif or /repo.' % (pid, out, wt, out))


if __name__ == '__main__':
    main()

#!/bin/bash
# tools/run_all.sh [tier] : run every READY check, print status and wall time
tier=${1:-quick}
cd /verif
for id in $(cat checks/READY); do
  s=$(date +%s.%N)
  out=$(./check $id --tier $tier 2>&1 | tail -1)
  e=$(date +%s.%N)
  printf "%s  %6.1fs  %s\n" "$id" "$(echo "$e - $s" | bc)" "$out"
done

#!/bin/bash
# tools/rerun_all_seeded.sh [lanes] : tools/rerun_seeded.py for every property, in parallel lanes; one log per lane under
# /dev/shm/reseed-lane-*.log, summary on stdout (MISSED / no-longer-applies lines and the totals).
lanes=${1:-4}
cd /verif
ids=($(cat checks/READY))
for l in $(seq 0 $((lanes-1))); do
  ( for i in $(seq $l $lanes $((${#ids[@]}-1))); do tools/rerun_seeded.py ${ids[$i]}; done > /dev/shm/reseed-lane-$l.log 2>&1 ) &
done
wait
cat /dev/shm/reseed-lane-*.log | grep -v conda | grep -v " CAUGHT " 
echo "caught: $(cat /dev/shm/reseed-lane-*.log | grep -c ' CAUGHT ')  missed: $(cat /dev/shm/reseed-lane-*.log | grep -c ' MISSED ')"

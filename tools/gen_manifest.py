#!/venv/bin/python
"""Regenerates /verif/MANIFEST.json from the table below (claimed checks = those with a module in checks/).
Run:  tools/gen_manifest.py   (validate with: python3-vt tools/validate.py)"""
import json
import os
import subprocess

HERE = os.path.dirname(os.path.dirname(os.path.abspath(__file__)))

# id -> (category, engine, technique, text, note, design_ref)
TABLE = {
 'C01': ('model_checking', 'histories', 'explicit-state BFS to fixpoint over operation histories of the real OrderedMultiDict vs list-of-pairs model',
         'Every history of the OMD op menu over 3 keys x 2 values with at most L live pairs is executed on the real class; after every transition the result, the three internal structures and a battery of ~40 readers are compared with a plain list-of-pairs model.',
         'Small scope: 3 keys, 2 values, pair cap L; keys with ordinary __eq__/__hash__. popitem may remove either the last pair or all pairs of a present key.', '3/C01'),
 'C02': ('model_checking', 'histories', 'explicit-state BFS to fixpoint over dict-API histories of the real LRI/LRU vs reference recency list',
         'All dict-API histories (30+ operations incl. update shapes, |=, copy) for max_size 1-3 (4 in thorough), on_miss on/off, both classes, explored to a fixpoint of the real object state; every transition compares result, contents, ring, black-box eviction order, counter deltas and on_miss calls with a reference cache.',
         'Small scope: keys = max_size+1 strings, values {0,1}; popitem victim follows the implementation; counters compared as deltas.', '3/C02'),
 'C03': ('model_checking', 'schedules', 'stateless exploration of every opcode-level thread interleaving up to a pre-emption bound on the real cacheutils code under a controlled scheduler',
         'For every 2x1, 2x2 and 3x1 thread program over a colliding op alphabet, every interleaving of bytecode instructions inside cacheutils.py with at most k pre-emptions is executed on real threads under a baton scheduler; outcome must be among the outcomes of the serial orders, ring intact, cache usable.',
         'CPython 3.12 GIL semantics: C-level dict/list operations atomic; scheduling points = bytecode boundaries in cacheutils.py; bounded programs and pre-emption bound.', '3/C03'),
 'C04': ('fault_enumeration', 'envfaults', 'exhaustive crash-point enumeration (process death and power loss with all lost-write subsets) of real atomic_save runs over a traced os/io seam',
         'Every crash point (before/after every file-system call and raw write/close of the part file) of every configuration x body is examined: process-death snapshot and every power-loss durable state must show dest in {old, new}; fork-kill and strace conformance bind the seam to reality.',
         'Power-loss model: ordered metadata, unordered unsynced data. Seam = fileutils.os proxy + traced raw FileIO.', '3/C04'),
 'C05': ('fault_enumeration', 'envfaults', 'deviation-bounded exhaustive injection of OS errors (1 and 2 faults) into real atomic_save runs',
         'Every single injected OS error (and every pair, thorough) at every file-system / raw file call of a save, for every configuration, is executed on the real code in a scratch directory; destination bytes+mode, exception, part-file cleanup and retry are checked.',
         'Faults at the steps the statement lists; errno menu per call; real tmpfs directory.', '3/C05'),
 'C06': ('exploration', 'inputs', 'bounded exhaustive enumeration of component strings, grammar products and token strings',
         'Character x component x quoting matrix, all strings up to length 2-3 over a 24-symbol alphabet per component, RFC 3986 grammar product and token-sequence totality runs, all evaluated against identity / fixed-point / exception-type oracles.',
         'Unicode represented by 14 code points; hosts DNS-valid names or IP literals.', '3/C06'),
 'C07': ('exploration', 'inputs', 'bounded exhaustive enumeration of (base, reference) pairs against an independent RFC 3986 5.2 implementation',
         'All references of up to 3-5 segments over {., .., empty, g, h} x query x fragment against 40 base shapes, compared with a literal transcription of RFC 3986 section 5.2.',
         'Small scope of segment alphabet and bases; equivalence modulo empty path == / and default port elision.', '3/C07'),
 'C08': ('exploration', 'inputs', 'bounded exhaustive enumeration of nested terms with aliasing/cycles x visit decision tables against a recursive rebuild',
         'All container terms up to N nodes including every aliasing pattern and cycles, times all visit decision tables, compared by graph isomorphism with a memoised recursive rebuild.',
         'N <= 4-6 nodes; three leaf values; set children compared unordered.', '3/C08'),
 'C09': ('exploration', 'inputs', 'bounded exhaustive enumeration of sequences x parameters against str.split/slices/arithmetic oracles',
         'All sequences of length <= 7 over 3 symbols in every container form x all small parameters for chunked/windowed/pairwise/split/strip/unique/redundant/bucketize/partition/chunk_ranges.',
         'Small scope: 3 symbols, length <= 7, parameters <= 9.', '3/C09'),
 'C10': ('model_checking', 'histories', 'explicit-state product BFS (heap queue x sorted queue x model) over add/remove/pop/peek histories with scaled-down sub-list threshold',
         'Both queue classes are driven in lock step with a sorted-list model over every history up to the depth bound, with BarrelList size factor scaled so sub-list splits happen inside the bound; backend invariants checked on every state.',
         'Depth-bounded (tombstones make the space infinite); 4 tasks, 5 priorities; native scale only by directed histories.', '3/C10'),
 'C11': ('model_checking', 'histories', 'explicit-state BFS over list/set operation histories of the real IndexedSet vs list+set model with scaled compaction factor',
         'Every history of list-style and set-style operations over 5 items up to the depth bound, for compaction factors 8/2/1 and pre-loaded starts; all valid indexes and all slices read after every transition.',
         'Depth-bounded; 5 items; operand types set/frozenset/list/tuple/IndexedSet.', '3/C11'),
 'C12': ('fault_enumeration', 'envfaults', 'exhaustive enumeration of stream chunkings x timeout placements x call programs over a scripted socket',
         'All byte streams up to length 4-6 over 3 symbols, all compositions into recv chunks, all timeout placements and all call programs of length <= 2 run on the real BufferedSocket against a whole-stream reference and a conservation invariant.',
         'Scripted socket object + virtual clock; streams <= 6 bytes.', '3/C12'),
 'C13': ('exploration', 'inputs', 'bounded exhaustive enumeration of function signatures x call shapes',
         'All 1680 signatures x all call shapes; wrapper signature, metadata and call acceptance compared with the wrapped function and inspect.signature references.',
         '<= 3 positional, <= 2 kw-only parameters.', '3/C13'),
 'C14': ('exploration', 'inputs', 'bounded exhaustive enumeration of argument strings / int sets / byte strings against real shells and reference parsers',
         'All argument strings up to length 2-3 over 28 significant characters executed by dash (and bash), shlex and a MS CRT reference; all subsets of 0..9; all byte strings <= 5 over 3 bytes x 9 levels.',
         'dash/bash as installed are the POSIX shell oracle.', '3/C14'),
 'C15': ('exploration', 'inputs', 'exhaustive enumeration of a float parameter lattice (incl. +-1 ulp neighbours) x counts x jitter x scripted random draws',
         'Every lattice point is evaluated against the recurrence computed with the same IEEE operations; all 3^5 draw sequences for jittered configurations.',
         'Exhaustive over the lattice only, not over the reals.', '3/C15'),
 'C16': ('exploration', 'inputs', 'grammar-product enumeration of traceback texts and generated call-chain programs',
         'Full product of frame/exception menus round-tripped through ParsedException; generated call-chain modules compared with the traceback module.',
         'Chained exceptions, notes, SyntaxError excluded by the statement.', '3/C16'),
 'C17': ('model_checking', 'histories', 'explicit-state BFS to fixpoint over histories on both sides of OneToOne / ManyToMany vs dict-pair / pair-set models',
         'All histories over a 3x3 domain applied to the forward and the inverse object; mirror invariant and model agreement after every transition; FrozenDict mutator/hash/copy matrix enumerated exhaustively.',
         '3 keys x 3 values.', '3/C17'),
 'C18': ('model_checking', 'histories', 'explicit-state product BFS over file-operation histories: spooled variants (4 max_size values) vs io.BytesIO/StringIO',
         'All histories up to the depth bound of write/read/readline/seek/tell/len/iteration on SpooledBytesIO/SpooledStringIO for max_size 1,3,8,1e6 in lock step with the io reference; MultiFileReader over all partitions x read programs.',
         'Depth-bounded; 4 write payloads.', '3/C18'),
 'C19': ('exploration', 'inputs', 'bounded exhaustive enumeration of texts / file contents x every block size x file mode',
         'All texts <= 4-5 over 12 symbols vs str.splitlines; all contents <= 6 x every blocksize x 4 file kinds for reverse_iter_lines; JSONL line menus.',
         'Small alphabets.', '3/C19'),
 'C20': ('model_checking', 'histories', 'explicit-state BFS over symmetry-reduced key streams driving the real ThresholdCounter, plus abstract-state BFS for the size bound',
         'All key streams (keys symmetric) up to depth 6w for w in 2..5 with state deduplication; counting inequalities and derived views checked after every addition.',
         'Keys interchangeable (class only hashes them).', '3/C20'),
}


def main():
    have = sorted(f[:3].upper() for f in os.listdir(os.path.join(HERE, 'checks'))
                  if f[:1] == 'c' and f[1:3].isdigit() and f.endswith('.py'))
    ready = set(open(os.path.join(HERE, 'checks', 'READY')).read().split())
    have = [h for h in have if h in ready]
    checks = []
    for pid in sorted(TABLE):
        if pid not in have:
            continue
        cat, eng, tech, text, note, ref = TABLE[pid]
        checks.append({
            'property_id': pid,
            'quick_cmd': './check %s --tier quick' % pid,
            'thorough_cmd': './check %s --tier thorough' % pid,
            'evidence_file': '/verif/evidence/%s.json' % pid,
            'replay_cmd_template': './check %s --replay {path}' % pid,
            'engine': eng,
            'level_claimed': {'category': cat, 'text': text, 'design_ref': 'DESIGN.md section ' + ref},
            'level_note': note,
            'technique': tech,
        })
    na = [{'property_id': pid, 'reason': 'check not built yet (planned: %s); not claimed until it exists and is silent on the unchanged tree' % TABLE[pid][2]}
          for pid in sorted(TABLE) if pid not in have]
    try:
        fixes = subprocess.check_output(['git', '-C', '/repo', 'log', '--format=%h %s', 'eb72521..HEAD'], text=True).split('\n')
    except Exception:
        fixes = []
    hooks = [l.split()[0] for l in fixes if l and not l.split(' ', 1)[1].startswith('fix:')]
    man = {
        'version': 1,
        'setup_cmd': '/venv/bin/python tools/setup.py',
        'hooks': {
            'guard': 'BOLTONS_VERIF',
            'enable': 'none needed: every seam (fileutils.os, socketutils.time, iterutils.random, threading.RLock, scale constants) is a module global rebound by the harness at run time; no instrumentation commits exist',
            'baseline_off_cmd': 'cd /repo && /venv/bin/python -m pytest -ra -q -p no:cacheprovider --timeout=900 --continue-on-collection-errors',
            'source_commits': hooks,
            'add_only': True,
        },
        'engines': [
            {'name': 'histories', 'path': 'mc/histories.py', 'serves_properties': ['C01', 'C02', 'C10', 'C11', 'C17', 'C18', 'C20'],
             'kind_free_text': 'explicit-state BFS over reachable states of the real object, level-synchronous parallel, reference model per step'},
            {'name': 'inputs', 'path': 'mc/inputs.py', 'serves_properties': ['C06', 'C07', 'C08', 'C09', 'C13', 'C14', 'C15', 'C16', 'C19'],
             'kind_free_text': 'bounded exhaustive enumeration of inputs/programs, sharded'},
            {'name': 'schedules', 'path': 'mc/schedules.py', 'serves_properties': ['C03'],
             'kind_free_text': 'stateless pre-emption-bounded exploration of real thread interleavings at opcode granularity'},
            {'name': 'envfaults', 'path': 'mc/envfaults.py', 'serves_properties': ['C04', 'C05', 'C12'],
             'kind_free_text': 'deviation-bounded enumeration of environment answers: crash points, OS errors, recv chunkings, timeouts'},
        ],
        'checks': checks,
        'not_applicable': na,
        'notes': 'All checks run /venv/bin/python on the working tree of /repo (VERIF_REPO overrides). See DESIGN.md.',
    }
    man['engines'] = [e for e in man['engines'] if os.path.exists(os.path.join(HERE, e['path']))]
    with open(os.path.join(HERE, 'MANIFEST.json'), 'w') as f:
        json.dump(man, f, indent=1)
    print('claimed:', [c['property_id'] for c in checks])
    print('not_applicable:', [n['property_id'] for n in na])


if __name__ == '__main__':
    main()

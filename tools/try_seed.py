#!/venv/bin/python
"""tools/try_seed.py <ID> <agent-outdir> : import the seeded changes change<k>.diff/demo<k>.py/meta<k>.json of a seeding
sub-agent into /verif/seeded/<ID>-<tag><k>/, confirm on scratch copies that (a) the suite still passes with the change,
(b) the demo fails with it and passes without it, then run the quick check for <ID> against the changed copy."""
import glob, json, os, shutil, subprocess, sys, time
HERE = os.path.dirname(os.path.dirname(os.path.abspath(__file__)))


def scratch(tag):
    d = '/dev/shm/seed-%s-%d' % (tag, os.getpid())
    shutil.rmtree(d, ignore_errors=True)
    os.makedirs(d)
    for f in ('boltons', 'tests', 'pyproject.toml', 'setup.cfg', 'tox.ini'):
        src = os.path.join('/repo', f)
        if os.path.isdir(src):
            shutil.copytree(src, os.path.join(d, f))
        elif os.path.exists(src):
            shutil.copy(src, d)
    return d


def main():
    pid, out = sys.argv[1].upper(), sys.argv[2]
    tag = sys.argv[3] if len(sys.argv) > 3 else 's'
    tier = sys.argv[4] if len(sys.argv) > 4 else 'quick'
    for diff in sorted(glob.glob(os.path.join(out, 'change*.diff'))):
        k = os.path.basename(diff)[len('change'):-len('.diff')]
        dest = os.path.join(HERE, 'seeded', '%s-%s%s' % (pid, tag, k))
        os.makedirs(dest, exist_ok=True)
        shutil.copy(diff, os.path.join(dest, 'patch.diff'))
        demo = os.path.join(out, 'demo%s.py' % k)
        shutil.copy(demo, os.path.join(dest, 'demo.py'))
        meta = json.load(open(os.path.join(out, 'meta%s.json' % k)))
        ran = {}
        clean = scratch(pid + 'clean')
        r0 = subprocess.run(['/venv/bin/python', os.path.join(dest, 'demo.py')], cwd=clean, capture_output=True, text=True, timeout=600)
        ran['demo_on_unchanged_tree_exit'] = r0.returncode
        d = scratch(pid + 'chg')
        ap = subprocess.run(['patch', '-p1', '-s', '-i', os.path.join(dest, 'patch.diff')], cwd=d, capture_output=True, text=True)
        ran['patch_applies'] = ap.returncode == 0
        tp = subprocess.run(['/venv/bin/python', '-m', 'pytest', '-q', '-p', 'no:cacheprovider', 'tests'], cwd=d, capture_output=True, text=True)
        ran['suite_with_change'] = tp.stdout.strip().splitlines()[-1] if tp.stdout.strip() else 'no output'
        r1 = subprocess.run(['/venv/bin/python', os.path.join(dest, 'demo.py')], cwd=d, capture_output=True, text=True, timeout=600)
        ran['demo_with_change_exit'] = r1.returncode
        ran['demo_with_change_output'] = (r1.stdout + r1.stderr)[-400:]
        outdir = d + '-out'
        t0 = time.time()
        cp = subprocess.run([os.path.join(HERE, 'check'), pid, '--tier', tier], cwd=HERE, capture_output=True, text=True,
                            env=dict(os.environ, VERIF_REPO=d, VERIF_OUT=outdir))
        sigs = [l.strip()[len('signature: '):] for l in cp.stdout.splitlines() if l.strip().startswith('signature:')]
        caught = ('VIOLATION property=%s' % pid) in cp.stdout and cp.returncode == 1
        ran['check_cmd'] = 'VERIF_REPO=<scratch copy with patch> ./check %s --tier %s' % (pid, tier)
        ran['check_exit'] = cp.returncode
        ran['check_caught'] = caught
        ran['check_signatures'] = sigs[:6]
        ran['check_wall_s'] = round(time.time() - t0, 1)
        valid = ran['patch_applies'] and '423 passed' in ran['suite_with_change'] and r0.returncode == 0 and r1.returncode != 0
        meta_out = {'property': pid, 'breaks': meta.get('summary'), 'needs': meta.get('needs'), 'files': meta.get('files'),
                    'confirmed_valid': valid, 'ran': ran}
        json.dump(meta_out, open(os.path.join(dest, 'meta.json'), 'w'), indent=1)
        print('%s-%s%s valid=%s caught=%s suite=[%s] demo clean/changed exit=%s/%s sigs=%s'
              % (pid, tag, k, valid, caught, ran['suite_with_change'], r0.returncode, r1.returncode, sigs[:3] or cp.stdout[-200:]))
        for x in (clean, d, outdir):
            shutil.rmtree(x, ignore_errors=True)


if __name__ == '__main__':
    main()

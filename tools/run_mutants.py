#!/venv/bin/python
"""tools/run_mutants.py <ID> [patch ...] [--tier quick] [--no-tests]
Applies each /verif/mutants/<id>/*.patch (or /verif/seeded/<id>*/patch.diff) to a scratch copy of /repo, runs the
repository test-suite on it (must stay green) and the check for <ID> (must print VIOLATION).  Evidence and replays of
these runs go to a scratch VERIF_OUT, never to /verif/evidence."""
import glob, os, shutil, subprocess, sys, json, time

HERE = os.path.dirname(os.path.dirname(os.path.abspath(__file__)))


def main():
    args = [a for a in sys.argv[1:] if not a.startswith('--')]
    tier = 'quick'
    if '--tier' in sys.argv:
        tier = sys.argv[sys.argv.index('--tier') + 1]
        args.remove(tier)
    pid = args[0].upper()
    patches = args[1:] or sorted(glob.glob(os.path.join(HERE, 'mutants', pid.lower(), '*.patch')))
    rows = []
    for pt in patches:
        name = os.path.basename(os.path.dirname(pt)) if os.path.basename(pt) == 'patch.diff' else os.path.basename(pt)
        d = '/dev/shm/mut-%s-%d' % (pid, os.getpid())
        shutil.rmtree(d, ignore_errors=True)
        os.makedirs(d)
        for f in ('boltons', 'tests', 'pyproject.toml', 'setup.cfg', 'tox.ini'):
            src = os.path.join('/repo', f)
            if os.path.isdir(src):
                shutil.copytree(src, os.path.join(d, f))
            elif os.path.exists(src):
                shutil.copy(src, d)
        ap = subprocess.run(['patch', '-p1', '-s', '-i', os.path.abspath(pt)], cwd=d, capture_output=True, text=True)
        if ap.returncode != 0:
            rows.append((name, 'PATCH FAILED', '', ap.stdout[-200:]))
            shutil.rmtree(d, ignore_errors=True)
            continue
        tests = 'skipped'
        if '--no-tests' not in sys.argv:
            tp = subprocess.run(['/venv/bin/python', '-m', 'pytest', '-q', '-x', '-p', 'no:cacheprovider', 'tests'],
                                cwd=d, capture_output=True, text=True)
            tests = tp.stdout.strip().splitlines()[-1] if tp.stdout.strip() else 'no output'
        out = d + '-out'
        t0 = time.time()
        cp = subprocess.run([os.path.join(HERE, 'check'), pid, '--tier', tier], cwd=HERE, capture_output=True, text=True,
                            env=dict(os.environ, VERIF_REPO=d, VERIF_OUT=out))
        sigs = [l.strip()[len('signature: '):] for l in cp.stdout.splitlines() if l.strip().startswith('signature:')]
        caught = 'VIOLATION property=%s' % pid in cp.stdout
        status = 'CAUGHT' if caught and cp.returncode == 1 else ('HARNESS-ERROR' if cp.returncode == 2 else 'MISSED')
        rows.append((name, tests, '%s (%.0fs)' % (status, time.time() - t0), '; '.join(sigs[:3]) or cp.stdout[-300:]))
        shutil.rmtree(d, ignore_errors=True)
        shutil.rmtree(out, ignore_errors=True)
    for r in rows:
        print(' | '.join(r))
    return 0 if all('CAUGHT' in r[2] for r in rows) else 1


if __name__ == '__main__':
    sys.exit(main())

"""Helper: build a unified diff (a/ b/ prefixes, relative to the repo root) from (file, old, new) replacements.
   from tools.mkpatch import mk;  mk('c04', 'name', [('boltons/fileutils.py', OLD, NEW), ...])"""
import difflib, os
HERE = os.path.dirname(os.path.dirname(os.path.abspath(__file__)))


def mk(pid, name, edits, repo='/repo', outdir=None):
    out = []
    byfile = {}
    for f, old, new in edits:
        src = byfile.get(f)
        if src is None:
            src = open(os.path.join(repo, f), encoding='utf-8').read()
        assert src.count(old) == 1, '%s: pattern occurs %d times in %s' % (name, src.count(old), f)
        byfile[f] = src.replace(old, new)
    for f, new in byfile.items():
        old = open(os.path.join(repo, f), encoding='utf-8').read()
        out += list(difflib.unified_diff(old.splitlines(True), new.splitlines(True), 'a/' + f, 'b/' + f))
    d = outdir or os.path.join(HERE, 'mutants', pid)
    os.makedirs(d, exist_ok=True)
    p = os.path.join(d, name + '.patch')
    open(p, 'w', encoding='utf-8').write(''.join(out))
    return p

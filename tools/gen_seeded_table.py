#!/venv/bin/python
"""Writes /verif/SEEDED.md: one row per kept seeded change (seeded/<id>/meta.json) - what it breaks, what it needs to
manifest, whether the check caught it when first tried and whether the current check catches it."""
import glob, json, os
HERE = os.path.dirname(os.path.dirname(os.path.abspath(__file__)))
rows = []
for d in sorted(glob.glob(os.path.join(HERE, 'seeded', '*'))):
    mp = os.path.join(d, 'meta.json')
    if not os.path.exists(mp):
        continue
    m = json.load(open(mp))
    first = m.get('ran', {}).get('check_caught')
    cur = m.get('current_check', {})
    sigs = cur.get('signatures') or m.get('ran', {}).get('check_signatures') or []
    rows.append((os.path.basename(d), m['property'], (m.get('breaks') or '').replace('|', '/').replace('\n', ' ')[:230],
                 (m.get('needs') or '').replace('|', '/').replace('\n', ' ')[:200],
                 'yes' if first else 'NO', 'obsolete' if m.get('obsolete') else ('yes (%s)' % cur.get('check')) if cur.get('caught') else ('-' if not cur else ('no: ' + m['disposition'][:60] if m.get('disposition') else 'NO')),
                 '; '.join(s.split('  (x')[0].replace('|', '/') for s in sigs[:2])[:160]))
with open(os.path.join(HERE, 'SEEDED.md'), 'w') as f:
    f.write('# Seeded property-breaking changes (written by sub-agents that saw only the property text)\n\n')
    f.write('Each change keeps the 423 tests green and comes with a demonstration (seeded/<id>/demo.py) that fails with the '
            'change and passes without it; all of that was re-confirmed on scratch copies by tools/try_seed.py.  '
            '"first" = caught by the quick check as it was when the change arrived; "now" = caught by the current quick check '
            '(tools/rerun_seeded.py).\n\n')
    f.write('| id | property | what it breaks | needs | first | now | signatures |\n|---|---|---|---|---|---|---|\n')
    for r in rows:
        f.write('| ' + ' | '.join(r) + ' |\n')
    n = len(rows)
    f.write('\n%d changes; caught when first tried: %d; caught now: %d.\n'
            % (n, sum(1 for r in rows if r[4] == 'yes'), sum(1 for r in rows if r[5].startswith('yes'))))
print('wrote SEEDED.md with %d rows' % len(rows))

"""E4 - deviation-bounded exhaustive exploration of environment answers.

The code under test runs sequentially against an environment the harness owns.  Every environment call is a *point*;
the default answer (choice 0) is "succeed completely"; alternatives (choices 1..n) are the deviations the check's menu
offers for that call (injected OSError, short write, crash, "another process acts first", timeout ...).  `explore`
enumerates every execution with at most `bound` deviations (same choice-sequence DFS as the schedule explorer).

File-system seam for boltons.fileutils: `OSProxy` stands in for the module global `os`; `fdopen` builds the same io
stack as os.fdopen with a `TracedFileIO` raw layer so raw write/close are visible and can be made to fail.
"""
import errno as _errno
import io
import os as _os


class Crash(BaseException):
    """Raised at a crash point in in-process mode (the harness stops the execution there)."""


class Env:
    def __init__(self, script=(), menu=None, expect=None):
        self.script = list(script)
        self.menu = menu or (lambda ev: [])
        self.points = []       # (event name, number of alternatives, event summary)
        self.choices = []
        self.log = []          # events in order: dict(name=..., args=..., result=...)
        self.fired = []        # (point index, action) for deviations that actually fired
        self.expect = expect
        self.hooks = []        # callables(env, phase, event) - observers (snapshots, checkpoints)
        self.closed = False    # set when the run is over: late events (GC of old file objects) are ignored
        self.child_exit_at = None   # fork-kill conformance: os._exit when this point index is reached

    def decide(self, ev):
        """Called before the real operation.  Returns None (proceed) or an action tuple."""
        if self.closed:
            return None
        alts = self.menu(ev)
        i = len(self.choices)
        summary = (ev['name'],) + tuple(ev.get('key', ()))
        if self.expect is not None and i < len(self.expect) and self.expect[i][0] != ev['name']:
            raise RuntimeError('replay diverged at point %d: expected %r got %r' % (i, self.expect[i], summary))
        c = self.script[i] if i < len(self.script) else 0
        if c > len(alts):
            raise RuntimeError('choice %d out of range at point %d (%r has %d alternatives)' % (c, i, summary, len(alts)))
        self.choices.append(c)
        self.points.append((ev['name'], len(alts), summary))
        if self.child_exit_at is not None and i == self.child_exit_at:
            _os._exit(77)
        if c == 0:
            return None
        act = alts[c - 1]
        self.fired.append((i, act))
        return act

    def record(self, ev):
        if not self.closed:
            self.log.append(ev)

    def notify(self, phase, ev):
        if self.closed:
            return
        for h in self.hooks:
            h(self, phase, ev)


def explore(run, menu, bound, on_execution, max_executions=None):
    """run(env) executes the scenario once and returns an observation.  Every execution with at most `bound` deviations
    is run; on_execution(env, observation) is called for each.  Returns statistics."""
    stats = {'executions': 0, 'points': 0, 'capped': False, 'by_deviations': {}, 'fired': 0}
    stack = [([], None)]
    while stack:
        prefix, expect = stack.pop()
        if max_executions is not None and stats['executions'] >= max_executions:
            stats['capped'] = True
            break
        env = Env(prefix, menu, expect)
        obs = run(env)
        env.closed = True
        stats['executions'] += 1
        stats['points'] += len(env.points)
        ndev = sum(1 for c in env.choices if c)
        stats['by_deviations'][ndev] = stats['by_deviations'].get(ndev, 0) + 1
        if env.fired:
            stats['fired'] += 1
        on_execution(env, obs)
        if ndev >= bound:
            continue
        for i in range(len(prefix), len(env.points)):
            for alt in range(1, env.points[i][1] + 1):
                stack.append((env.choices[:i] + [alt], list(env.points[:i + 1])))
    return stats


# ----------------------------------------------------------------------------------------------------
# file-system seam

class TracedFileIO(io.FileIO):
    """Raw file whose write()/close() are environment events."""

    def __init__(self, env, fd, mode, path=None):
        super().__init__(fd, mode, closefd=True)
        self._env = env
        self._path = path

    def write(self, b):
        env = self._env
        if env is None or env.closed:
            return super().write(b)
        data = bytes(b)
        fd = self.fileno()
        off = _os.lseek(fd, 0, _os.SEEK_CUR)
        ev = {'name': 'raw_write', 'fd': fd, 'path': self._path, 'offset': off, 'len': len(data), 'data': data,
              'key': ()}
        env.notify('before', ev)
        act = env.decide(ev)
        if act is not None:
            if act[0] == 'raise':
                ev['result'] = 'errno %s' % _errno.errorcode.get(act[1], act[1])
                env.record(ev)
                raise OSError(act[1], _os.strerror(act[1]))
            if act[0] == 'short':
                n = max(1, min(act[1], len(data) - 1)) if len(data) > 1 else len(data)
                data = data[:n]
                ev['len'], ev['data'] = n, data
        n = super().write(data)
        ev['result'] = n
        env.record(ev)
        env.notify('after', ev)
        return n

    def close(self):
        env = self._env
        if self.closed or env is None or env.closed:
            return super().close()
        ev = {'name': 'raw_close', 'fd': self.fileno(), 'path': self._path, 'key': ()}
        env.notify('before', ev)
        act = env.decide(ev)
        if act is not None and act[0] == 'raise':
            # like a failing close(2): the descriptor is released, the error is reported
            try:
                super().close()
            finally:
                ev['result'] = 'errno %s' % _errno.errorcode.get(act[1], act[1])
                env.record(ev)
            raise OSError(act[1], _os.strerror(act[1]))
        super().close()
        ev['result'] = None
        env.record(ev)
        env.notify('after', ev)


class PathProxy:
    def __init__(self, proxy):
        self._p = proxy

    def __getattr__(self, name):
        return getattr(_os.path, name)

    def lexists(self, path):
        return self._p._call('lexists', _os.path.lexists, (path,), {})

    def exists(self, path):
        return self._p._call('exists', _os.path.exists, (path,), {})


class OSProxy:
    """Stands in for the `os` module inside boltons.fileutils."""
    TRACED = ('open', 'chmod', 'stat', 'lstat', 'fsync', 'fdatasync', 'rename', 'replace', 'link', 'unlink', 'remove',
              'close', 'symlink', 'truncate', 'ftruncate', 'write', 'mkdir', 'rmdir', 'fchmod', 'utime', 'chown',
              'sendfile', 'copy_file_range')

    def __init__(self, env):
        self._env = env
        self.path = PathProxy(self)
        self._fdpaths = {}

    def __getattr__(self, name):
        real = getattr(_os, name)
        if name in self.TRACED and callable(real):
            def wrapper(*a, **kw):
                return self._call(name, real, a, kw)
            wrapper.__name__ = name
            return wrapper
        return real

    def _call(self, name, real, a, kw):
        env = self._env
        if env.closed:
            return real(*a, **kw)
        args = tuple(x if isinstance(x, (str, int, bytes)) else repr(x) for x in a)
        ev = {'name': name, 'args': args, 'key': ()}
        if name in ('fsync', 'fdatasync', 'close', 'fchmod', 'ftruncate') and a and isinstance(a[0], int):
            ev['path'] = self._fdpaths.get(a[0])
        env.notify('before', ev)
        act = env.decide(ev)
        if act is not None and act[0] == 'raise':
            ev['result'] = 'errno %s' % _errno.errorcode.get(act[1], act[1])
            env.record(ev)
            raise OSError(act[1], _os.strerror(act[1]), a[0] if a and isinstance(a[0], str) else None)
        if act is not None and act[0] == 'pre':
            act[1]()            # environment action that happens just before the call (e.g. another process acts)
            ev['pre'] = act[2] if len(act) > 2 else 'env action'
        try:
            res = real(*a, **kw)
        except OSError as e:
            ev['result'] = 'errno %s' % _errno.errorcode.get(e.errno, e.errno)
            env.record(ev)
            env.notify('after', ev)
            raise
        if name == 'open':
            self._fdpaths[res] = a[0]
        ev['result'] = res if isinstance(res, (int, bool, type(None))) else repr(res)[:80]
        env.record(ev)
        env.notify('after', ev)
        return res

    def fdopen(self, fd, mode='r', buffering=-1, encoding=None, *args, **kwargs):
        """Same stack as os.fdopen/io.open(fd, ...), with a traced raw layer."""
        env = self._env
        if env.closed:
            return _os.fdopen(fd, mode, buffering, encoding, *args, **kwargs)
        ev = {'name': 'fdopen', 'args': (fd, mode, buffering), 'key': ()}
        env.notify('before', ev)
        binary = 'b' in mode
        rawmode = mode.replace('b', '').replace('t', '')
        raw = TracedFileIO(env, fd, rawmode, self._fdpaths.get(fd))
        raw.name = fd
        if buffering == 0:
            if not binary:
                raise ValueError("can't have unbuffered text I/O")
            out = raw
        else:
            line_buffering = buffering == 1 and not binary
            size = getattr(raw, '_blksize', io.DEFAULT_BUFFER_SIZE) if buffering < 0 or line_buffering else buffering
            if '+' in rawmode:
                buf = io.BufferedRandom(raw, size)
            elif 'w' in rawmode or 'a' in rawmode or 'x' in rawmode:
                buf = io.BufferedWriter(raw, size)
            else:
                buf = io.BufferedReader(raw, size)
            if binary:
                out = buf
            else:
                out = io.TextIOWrapper(buf, encoding, None, None, line_buffering)
                out.mode = mode
        ev['result'] = 'file'
        env.record(ev)
        env.notify('after', ev)
        return out


def snapshot(dirpath):
    """{name: (mode, bytes)} of a flat scratch directory."""
    out = {}
    for name in sorted(_os.listdir(dirpath)):
        p = _os.path.join(dirpath, name)
        st = _os.lstat(p)
        try:
            with open(p, 'rb') as f:
                data = f.read()
        except OSError:
            data = None
        out[name] = (st.st_mode & 0o7777, data, st.st_ino)
    return out

"""E3 - stateless exploration of thread interleavings of real code under a controlled scheduler.

Real `threading.Thread`s run the program; exactly one holds the baton at any time.  A `sys.settrace` tracer
with `f_trace_opcodes` makes every bytecode instruction executed in a frame of the traced source file a
scheduling point.  Locks of the code under test are replaced by `CoopRLock`, which blocks *in the scheduler*.
Exploration is iterative pre-emption bounding over choice sequences (replay prefix, then default choice 0).
"""
import dis
import sys
import threading

# instructions that only touch the executing frame (its fast locals / evaluation stack / constants): they commute
# with every instruction of every other thread, so a pre-emption right before one of them is equivalent to a
# pre-emption before the thread's next non-local instruction.
LOCAL_OPS = frozenset(dis.opmap[n] for n in (
    'LOAD_FAST', 'STORE_FAST', 'LOAD_CONST', 'POP_TOP', 'COPY', 'SWAP', 'NOP', 'RESUME', 'PUSH_NULL',
    'JUMP_FORWARD', 'JUMP_BACKWARD', 'JUMP_BACKWARD_NO_INTERRUPT', 'RETURN_VALUE', 'RETURN_CONST',
    'BUILD_TUPLE', 'BUILD_LIST', 'LOAD_FAST_CHECK', 'LOAD_FAST_AND_CLEAR', 'DELETE_FAST', 'CACHE',
    'PUSH_EXC_INFO', 'POP_EXCEPT', 'RERAISE', 'KW_NAMES', 'MAKE_CELL', 'COPY_FREE_VARS', 'EXTENDED_ARG',
    'LOAD_CLOSURE', 'UNARY_NOT', 'IS_OP', 'POP_JUMP_IF_TRUE', 'POP_JUMP_IF_FALSE', 'POP_JUMP_IF_NONE',
    'POP_JUMP_IF_NOT_NONE', 'CHECK_EXC_MATCH',
) if n in dis.opmap)
# NB: conditional jumps on a value already on the stack, `is` tests and `not` on a bool read nothing shared either:
# the value they consume was loaded by an earlier (non-local, scheduled) instruction.  UNARY_NOT could call
# __bool__/__len__ of a shared object; it is therefore *removed* below unless explicitly allowed.
LOCAL_OPS = LOCAL_OPS - {dis.opmap['UNARY_NOT']}


class Abort(BaseException):
    pass


class Divergence(Exception):
    pass


_CURRENT = None          # the Scheduler of the execution in progress (one per process at a time)
_TLS = threading.local()


def current():
    return _CURRENT


class CoopRLock:
    """Re-entrant lock that blocks in the scheduler.  Outside a scheduled execution (set-up, sequential oracle,
    post-mortem probes) it behaves as an uncontended re-entrant lock."""

    def __init__(self):
        self.owner = None
        self.count = 0
        self.stale = None

    def acquire(self, blocking=True, timeout=-1):
        s = _CURRENT
        me = getattr(_TLS, 'tid', None)
        if s is None or me is None:
            me = 'main'
            if self.owner not in (None, me):
                # a thread died holding the lock; harnesses detect this through `stale` / `owner` before probing
                raise RuntimeError('lock left held by thread %r after the execution' % (self.owner,))
        else:
            if s.reduce == 'locks' and self.owner != me and getattr(_TLS, 'active', False):
                s.point(me, (me, 'acquire'))       # lock-granularity exploration: a scheduling point before each acquire
            while self.owner is not None and self.owner != me:
                if not blocking:
                    return False
                s.block(me, self)
        self.owner = me
        self.count += 1
        return True

    def release(self):
        me = getattr(_TLS, 'tid', None) if _CURRENT is not None else 'main'
        if me is None:
            me = 'main'
        if self.owner != me:
            raise RuntimeError('cannot release un-acquired lock')
        self.count -= 1
        if self.count == 0:
            self.owner = None
            s = _CURRENT
            if s is not None:
                s.unblock(self)
                if s.reduce == 'locks' and getattr(_TLS, 'active', False):
                    s.point(me, (me, 'release'))   # ... and after each final release

    def __enter__(self):
        return self.acquire()

    def __exit__(self, *a):
        self.release()

    def _is_owned(self):
        return self.owner is not None


class CoopLock(CoopRLock):
    """Non re-entrant variant: a second acquire by the owner blocks forever (deadlock is reported)."""

    def acquire(self, blocking=True, timeout=-1):
        s = _CURRENT
        me = getattr(_TLS, 'tid', None)
        if s is None or me is None:
            if self.owner is not None:
                raise RuntimeError('self-deadlock on a non re-entrant lock')
            self.owner = 'main'
            self.count = 1
            return True
        while self.owner is not None:
            if not blocking:
                return False
            s.block(me, self)
        self.owner = me
        self.count = 1
        return True


class Scheduler:
    def __init__(self, bodies, prefix, filename, reduce=True, max_points=5000, expect=None):
        self.n = len(bodies)
        self.bodies = bodies
        self.prefix = list(prefix)
        self.filename = filename
        self.reduce = reduce
        self.max_points = max_points
        self.max_steps = 10 * max_points
        self.expect = expect            # idents of the parent run's points (prefix conformance)
        self.sems = [threading.Semaphore(0) for _ in range(self.n)]
        self.main_sem = threading.Semaphore(0)
        self.state = ['ready'] * self.n
        self.blocked_on = [None] * self.n
        self.choices = []
        self.points = []                # (enabled tuple, running_still_enabled, ident)
        self.aborted = None
        self.steps = 0
        self.errors = [None] * self.n   # harness-level exceptions inside thread bootstrap
        self.switches = 0
        self._codes = {}
        self.monitor = None             # optional callable evaluated in every explored state (each scheduling point)

    # -- choice -----------------------------------------------------------------------------------
    def _enabled(self, running):
        en = [t for t in range(self.n) if self.state[t] == 'ready']
        if running is not None and running in en:
            en.remove(running)
            en.insert(0, running)
        return en

    def _choose(self, running, ident):
        en = self._enabled(running)
        if not en:
            return None
        if len(en) == 1:
            return en[0]
        i = len(self.choices)
        if i >= self.max_points:
            self._abort('step budget exceeded (%d scheduling points)' % self.max_points)
        c = self.prefix[i] if i < len(self.prefix) else 0
        pt = (tuple(en), running is not None and running in en, ident)
        if self.expect is not None and i < len(self.expect) and self.expect[i] != pt:
            self._abort('divergence: replay diverged at point %d: expected %r got %r' % (i, self.expect[i], pt))
        if c >= len(en):
            self._abort('divergence: choice %d out of range at point %d (%r)' % (c, i, en))
        self.choices.append(c)
        self.points.append(pt)
        return en[c]

    def _abort(self, why):
        self.aborted = why
        for t in range(self.n):
            self.sems[t].release()
        self.main_sem.release()
        raise Abort()

    def _switch(self, me, to):
        if to == me:
            return
        self.switches += 1
        self.sems[to].release()
        self.sems[me].acquire()
        if self.aborted:
            raise Abort()

    # -- called from the tracer / locks / thread bootstrap ---------------------------------------------
    def point(self, me, ident):
        self.steps += 1
        if self.monitor is not None:
            self.monitor()
        if self.steps > self.max_steps:
            # a thread that loops while it is the only enabled one never reaches a recorded choice point
            self._abort('step budget exceeded (%d instructions in one execution)' % self.max_steps)
        to = self._choose(me, ident)
        self._switch(me, to)

    def block(self, me, lock):
        self.state[me] = 'blocked'
        self.blocked_on[me] = lock
        to = self._choose(None, ('block', me))
        if to is None:
            self._abort('deadlock: every unfinished thread is blocked on a lock')
        self._switch(me, to)

    def unblock(self, lock):
        for t in range(self.n):
            if self.state[t] == 'blocked' and self.blocked_on[t] is lock:
                self.state[t] = 'ready'
                self.blocked_on[t] = None

    def _finish(self, me):
        self.state[me] = 'done'
        if self.aborted:
            return
        try:
            to = self._choose(None, ('end', me))
        except Abort:
            return
        if to is None:
            if any(s == 'blocked' for s in self.state):
                self.aborted = 'deadlock: remaining threads are blocked on a lock nobody will release'
                for t in range(self.n):
                    self.sems[t].release()
            self.main_sem.release()
        else:
            self.sems[to].release()

    # -- instrumentation ------------------------------------------------------------------------------
    def _on_instruction(self, code, offset):
        me = getattr(_TLS, 'tid', None)
        if me is None or _CURRENT is not self or not getattr(_TLS, 'active', False):
            return
        cc = self._codes.get(code)
        if cc is None:
            cc = self._codes[code] = code.co_code
        if self.reduce == 'locks':
            return          # lock-granularity mode: scheduling points only at lock operations (see CoopRLock)
        if self.reduce and cc[offset] in LOCAL_OPS:
            return
        self.point(me, (me, code.co_name, offset))

    def _boot(self, tid):
        _TLS.tid = tid
        _TLS.active = False
        self.sems[tid].acquire()
        if self.aborted:
            return
        _TLS.active = True
        try:
            self.bodies[tid]()
        except Abort:
            pass
        except BaseException as e:   # noqa - bodies catch everything the code under test raises themselves
            self.errors[tid] = e
        finally:
            _TLS.active = False
            self._finish(tid)

    def run(self):
        global _CURRENT
        _CURRENT = self
        instrument(self.filename)
        _DISPATCH[0] = self._on_instruction
        threads = [threading.Thread(target=self._boot, args=(t,), daemon=True) for t in range(self.n)]
        for t in threads:
            t.start()
        try:
            try:
                first = self._choose(None, ('start',))
            except Abort:
                first = None
            if first is not None:
                self.sems[first].release()
                self.main_sem.acquire()
        finally:
            if self.aborted:
                for t in range(self.n):
                    self.sems[t].release()
            for t in threads:
                t.join(10)
            _CURRENT = None
        if any(t.is_alive() for t in threads):
            raise RuntimeError('scheduled thread did not terminate')
        if self.aborted and self.aborted.startswith('divergence'):
            raise Divergence(self.aborted)
        for e in self.errors:
            if e is not None:
                raise RuntimeError('thread body leaked %r' % (e,))
        return self


_TOOL = 4
_DISPATCH = [None]
_INSTRUMENTED = set()


def _callback(code, offset):
    fn = _DISPATCH[0]
    if fn is not None:
        return fn(code, offset)


def _code_objects(mod_file):
    """Every code object compiled from mod_file that is reachable from loaded modules' functions/classes."""
    import types
    out, seen = [], set()

    def walk(code):
        if id(code) in seen:
            return
        seen.add(id(code))
        out.append(code)
        for k in code.co_consts:
            if isinstance(k, types.CodeType):
                walk(k)

    def visit(obj, depth=0):
        if isinstance(obj, types.FunctionType):
            if obj.__code__.co_filename == mod_file:
                walk(obj.__code__)
        elif isinstance(obj, (staticmethod, classmethod)):
            visit(obj.__func__, depth)
        elif isinstance(obj, property):
            for f in (obj.fget, obj.fset, obj.fdel):
                if f is not None:
                    visit(f, depth)
        elif isinstance(obj, type) and depth < 3:
            for v in list(vars(obj).values()):
                visit(v, depth + 1)
    for mod in list(sys.modules.values()):
        if getattr(mod, '__file__', None) == mod_file:
            for v in list(vars(mod).values()):
                visit(v)
    return out


def instrument(mod_file):
    """Make every bytecode instruction of the module's functions call the scheduler (sys.monitoring INSTRUCTION
    events, set up-front on all code objects so that no execution runs partially instrumented)."""
    if mod_file in _INSTRUMENTED:
        return
    mon = sys.monitoring
    if mon.get_tool(_TOOL) is None:
        mon.use_tool_id(_TOOL, 'verif-schedules')
        mon.register_callback(_TOOL, mon.events.INSTRUCTION, _callback)
    codes = _code_objects(mod_file)
    if not codes:
        raise RuntimeError('no code objects found for %s' % mod_file)
    for code in codes:
        mon.set_local_events(_TOOL, code, mon.events.INSTRUCTION)
    _INSTRUMENTED.add(mod_file)


def preemption_costs(points, choices):
    """cost[i] = number of pre-emptions among choices[0..i-1] (switching away from a still-enabled thread)."""
    costs, c = [], 0
    for (en, running_enabled, _), ch in zip(points, choices):
        costs.append(c)
        if running_enabled and ch != 0:
            c += 1
    return costs


def explore(make_bodies, filename, bound, on_execution, reduce=True, max_executions=None, verify_replay=0):
    """make_bodies() -> (bodies, harvest): fresh shared state and one callable per thread; harvest(sched) builds the
    observation of the finished execution.  on_execution(choices, observation, sched) is called once per explored
    schedule.  Returns statistics.  All schedules with at most `bound` pre-emptions are executed."""
    stats = {'executions': 0, 'points': 0, 'steps': 0, 'max_points': 0, 'capped': False, 'replayed': 0,
             'by_preemptions': {}}
    stack = [([], None)]
    while stack:
        prefix, expect = stack.pop()
        if max_executions is not None and stats['executions'] >= max_executions:
            stats['capped'] = True
            break
        bodies, harvest = make_bodies()
        s = Scheduler(bodies, prefix, filename, reduce=reduce, expect=expect)
        s.monitor = getattr(harvest, 'monitor', None)      # a state invariant supplied by the harness
        s.run()
        obs = harvest(s)
        stats['executions'] += 1
        stats['points'] += len(s.points)
        stats['steps'] += s.steps
        stats['max_points'] = max(stats['max_points'], len(s.points))
        costs = preemption_costs(s.points, s.choices)
        total_pre = (costs[-1] + (1 if s.points and s.points[-1][1] and s.choices[-1] != 0 else 0)) if costs else 0
        stats['by_preemptions'][total_pre] = stats['by_preemptions'].get(total_pre, 0) + 1
        if verify_replay and stats['executions'] <= verify_replay:
            b2, h2 = make_bodies()
            s2 = Scheduler(b2, s.choices, filename, reduce=reduce, expect=s.points)
            s2.monitor = getattr(h2, 'monitor', None)
            s2.run()
            obs2 = h2(s2)
            if obs2 != obs or s2.choices != s.choices:
                raise Divergence('same schedule, different observation: %r vs %r' % (obs, obs2))
            stats['replayed'] += 1
        on_execution(list(s.choices), obs, s)
        if s.aborted:
            continue
        for i in range(len(prefix), len(s.points)):
            en, running_enabled, _ = s.points[i]
            cost = costs[i] + (1 if running_enabled else 0)
            if cost > bound:
                continue
            for alt in range(1, len(en)):
                stack.append((s.choices[:i] + [alt], s.points[:i + 1]))
    return stats


def run_schedule(make_bodies, filename, choices, reduce=True):
    bodies, harvest = make_bodies()
    s = Scheduler(bodies, choices, filename, reduce=reduce)
    s.monitor = getattr(harvest, 'monitor', None)
    s.run()
    return harvest(s), s

"""E2 - bounded exhaustive enumeration of inputs / programs, sharded over the process pool.

Usage in a check:

    def shard(arg):                     # runs in a worker
        t = inputs.Tally()
        for case in enumerate_cases(arg):
            t.count(nontrivial=<bool>, sample=case)
            if impl(case) != oracle(case):
                t.bad('C09|fn:split|result', case, expected, observed)
        return t

    total = inputs.run_shards(ctx, shard, shard_args, part='split')

Every case of the stated space is evaluated (no sampling); VERIF_SEED only permutes shard order and
chooses which cases are kept as samples.
"""
import itertools

from . import core


class Tally:
    def __init__(self):
        self.evaluations = 0
        self.nontrivial = 0
        self.viols = {}       # sig -> [case, expected, observed, detail, tags, occurrences]
        self.samples = []
        self.extra = {}

    def count(self, nontrivial=True, sample=None, n=1):
        self.evaluations += n
        if nontrivial:
            self.nontrivial += n
        if sample is not None and len(self.samples) < 3:
            self.samples.append(sample)

    def add(self, key, n=1):
        self.extra[key] = self.extra.get(key, 0) + n

    def bad(self, sig, case, expected=None, observed=None, detail=None, tags=()):
        key = core.vkey(sig, tags)
        r = self.viols.get(key)
        if r is None:
            self.viols[key] = [case, expected, observed, detail, set(tags), 1, sig]
        else:
            r[5] += 1

    def merge(self, other):
        self.evaluations += other.evaluations
        self.nontrivial += other.nontrivial
        for sig, r in other.viols.items():
            mine = self.viols.get(sig)
            if mine is None:
                self.viols[sig] = list(r)
            else:
                mine[5] += r[5]
        for k, v in other.extra.items():
            self.extra[k] = self.extra.get(k, 0) + v
        for s in other.samples:
            if len(self.samples) < 6:
                self.samples.append(s)
        return self


def run_shards(ctx, fn, shard_args, part, procs=None, rule=None):
    """Run fn over the shard arguments in parallel, merge the tallies in shard order (deterministic),
    feed violations and coverage into ctx.  Returns the merged Tally."""
    shard_args = list(shard_args)
    results = core.pmap(fn, shard_args, procs=procs)
    total = Tally()
    for t in results:
        total.merge(t)
    for key in sorted(total.viols):
        case, exp, obs, detail, tags, occ, sig = total.viols[key]
        ctx.violation(sig, case, exp, obs, detail, tags)
        ctx.add_occurrences(sig, occ - 1, tags)
    cov = ctx.coverage
    cov['evaluations'] = cov.get('evaluations', 0) + total.evaluations
    cov['distinct_nontrivial'] = cov.get('distinct_nontrivial', 0) + total.nontrivial
    parts = cov.setdefault('parts', {})
    parts[part] = {'evaluations': total.evaluations, 'distinct_nontrivial': total.nontrivial,
                   'shards': len(shard_args)}
    if rule:
        parts[part]['rule'] = rule
    if total.extra:
        parts[part].update(total.extra)
    samples = cov.setdefault('samples', [])
    picks = list(total.samples)
    ctx.rng.shuffle(picks)
    for s in picks[:2]:
        samples.append({'part': part, 'case': core.jsonable(s)})
    ctx.note('%s: evaluations=%d nontrivial=%d violations(sigs)=%d'
             % (part, total.evaluations, total.nontrivial, len(total.viols)))
    return total


# --------------------------------------------------------------------------------------------------
# generators

def strings(alphabet, maxlen, minlen=0):
    """All sequences (as tuples) over alphabet with minlen <= length <= maxlen, shortest first."""
    for n in range(minlen, maxlen + 1):
        yield from itertools.product(alphabet, repeat=n)


def texts(alphabet, maxlen, minlen=0):
    for t in strings(alphabet, maxlen, minlen):
        yield ''.join(t)


def compositions(n):
    """All ways to cut a length-n sequence into consecutive non-empty chunks (as lists of sizes)."""
    if n == 0:
        yield []
        return
    for bits in itertools.product((0, 1), repeat=n - 1):
        sizes, cur = [], 1
        for b in bits:
            if b:
                sizes.append(cur)
                cur = 1
            else:
                cur += 1
        sizes.append(cur)
        yield sizes


def restricted_growth(length, maxsyms):
    """All restricted-growth strings (canonical key streams up to renaming of keys)."""
    def rec(prefix, mx):
        if len(prefix) == length:
            yield tuple(prefix)
            return
        for s in range(min(mx + 1, maxsyms - 1) + 1):
            prefix.append(s)
            yield from rec(prefix, max(mx, s))
            prefix.pop()
    yield from rec([], -1)


def shard_prefixes(alphabet, depth):
    """Prefixes used to split a string enumeration into independent shards."""
    return list(itertools.product(alphabet, repeat=depth))


# --------------------------------------------------------------------------------------------------
# "second call" wrapper: results of a pure function must not depend on earlier calls

_SCRAMBLE = '<changed by the caller>'


def second_call(fn, copy_args=False):
    """Wrap a function under test so that every evaluation is the *second* call with equal arguments: the first
    result is consumed (iterators) and mutated in place (lists, dicts, sets, bytearrays) before the function is called
    again, and the second result is what the oracle sees.  Memoised one-shot iterators, cached mutable results and
    other state kept between calls then show up as ordinary oracle failures.  Arguments that are one-shot iterators
    are passed through unchanged and only used once (no second call)."""
    import copy
    import types

    def wrapper(*args, **kwargs):
        one_shot = any(isinstance(a, (types.GeneratorType, map, filter, zip)) or
                       (hasattr(a, '__next__') and not hasattr(a, '__len__'))
                       for a in list(args) + list(kwargs.values()))
        if one_shot:
            return fn(*args, **kwargs)
        args2, kwargs2 = args, kwargs
        if copy_args:
            try:
                args2, kwargs2 = copy.deepcopy((args, kwargs))
            except Exception:
                return fn(*args, **kwargs)
        try:
            first = fn(*args, **kwargs)
        except Exception:
            return fn(*args2, **kwargs2)
        try:
            if hasattr(first, '__next__'):
                for _ in first:
                    pass
            elif isinstance(first, list):
                first.append(_SCRAMBLE)
                first.reverse()
            elif isinstance(first, dict):
                first[_SCRAMBLE] = _SCRAMBLE
            elif isinstance(first, (set, bytearray)):
                first.clear()
        except Exception:
            pass
        return fn(*args2, **kwargs2)
    wrapper.__name__ = getattr(fn, '__name__', 'fn')
    wrapper.__wrapped_by_second_call__ = fn
    return wrapper


class SecondCallModule:
    """Proxy of a module whose public functions are wrapped by second_call (classes and constants pass through)."""

    def __init__(self, mod, names=None):
        import types
        self._mod = mod
        self._cache = {}
        self._names = names
        self._ft = types.FunctionType

    def __getattr__(self, name):
        v = getattr(self._mod, name)
        # any callable that is not a class: plain functions, but also lru_cache wrappers, partials, builtins
        if callable(v) and not isinstance(v, type) and not name.startswith('__') \
                and (self._names is None or name in self._names):
            w = self._cache.get(name)
            if w is None or w.__wrapped_by_second_call__ is not v:
                w = self._cache[name] = second_call(v)
            return w
        return v

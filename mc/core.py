"""Common runner machinery: source-root selection, process pool, violation reporting,
known findings, replays and evidence files.

Every check module in /verif/checks exposes

    PROPERTY = "C02"
    LEVEL    = "model_checking" | "fault_enumeration" | "exploration"
    def run(ctx): ...            # ctx is a core.Context; report through ctx.violation(...)
    def replay(ctx, data): ...   # re-execute one recorded case without the explorer; return list of messages

and is driven by /verif/check.
"""
import hashlib
import json
import multiprocessing
import os
import random
import re
import sys
import time
import traceback

VERIF = os.path.dirname(os.path.dirname(os.path.abspath(__file__)))
NPROC = int(os.environ.get('VERIF_PROCS', '0')) or min(16, os.cpu_count() or 1)


def repo_root():
    return os.path.abspath(os.environ.get('VERIF_REPO', '/repo'))


def bind_repo():
    """Make `import boltons` resolve to the tree under check (working tree of /repo, or VERIF_REPO)."""
    root = repo_root()
    if not os.path.isdir(os.path.join(root, 'boltons')):
        raise SystemExit('no boltons package under %s' % root)
    sys.path.insert(0, root)
    import boltons
    got = os.path.dirname(os.path.dirname(os.path.abspath(boltons.__file__)))
    if os.path.realpath(got) != os.path.realpath(root):
        raise SystemExit('boltons imported from %s, expected %s' % (got, root))
    return root


def scratch_dir(tag):
    base = '/dev/shm' if os.path.isdir('/dev/shm') and os.access('/dev/shm', os.W_OK) else '/var/tmp'
    d = os.path.join(base, 'verif-%s-%d' % (tag, os.getpid()))
    os.makedirs(d, exist_ok=True)
    return d


# ------------------------------------------------------------------------------------------------
# process pool

_TASK = None


def _call(arg):
    try:
        return ('ok', _TASK(arg))
    except BaseException as e:   # noqa - a worker must never die silently
        return ('err', '%s\n%s' % (repr(e), traceback.format_exc()))


def pmap(fn, items, procs=None, chunksize=1, ordered=True):
    """Map fn over items in forked worker processes (fn may be a closure: it is inherited by fork).
    A harness exception in a worker is re-raised in the parent (a broken harness must not look like a pass)."""
    global _TASK
    items = list(items)
    procs = procs or NPROC
    if procs <= 1 or len(items) <= 1:
        return [fn(x) for x in items]
    _TASK = fn
    ctx = multiprocessing.get_context('fork')
    with ctx.Pool(min(procs, len(items))) as pool:
        it = pool.imap(_call, items, chunksize) if ordered else pool.imap_unordered(_call, items, chunksize)
        out = []
        for tag, val in it:
            if tag == 'err':
                pool.terminate()
                raise RuntimeError('harness error in worker: ' + val)
            out.append(val)
    _TASK = None
    return out


def shards(items, n):
    items = list(items)
    n = max(1, min(n, len(items)))
    return [items[i::n] for i in range(n)]


# ------------------------------------------------------------------------------------------------
# JSON helpers

def jsonable(x, depth=0):
    if depth > 12:
        return repr(x)
    if x is None or isinstance(x, (bool, int, str)):
        return x
    if isinstance(x, float):
        return x if x == x and abs(x) != float('inf') else repr(x)
    if isinstance(x, bytes):
        return {'bytes': x.decode('latin-1')}
    if isinstance(x, (list, tuple)):
        return [jsonable(i, depth + 1) for i in x]
    if isinstance(x, (set, frozenset)):
        return {'set': sorted((jsonable(i, depth + 1) for i in x), key=repr)}
    if isinstance(x, dict):
        return {(k if isinstance(k, str) else repr(k)): jsonable(v, depth + 1) for k, v in x.items()}
    return repr(x)


# ------------------------------------------------------------------------------------------------
# known findings

_FINDING_RE = re.compile(r'^finding:\s+property=(\S+)\s+sig=("[^"]+"|\S+)\s*(?:where=(\S+)\s*)?(.*)$')


def load_known(path=None):
    path = path or os.path.join(VERIF, 'KNOWN_FINDINGS.txt')
    out = []
    if not os.path.exists(path):
        return out
    for line in open(path, encoding='utf-8'):
        line = line.strip()
        m = _FINDING_RE.match(line)
        if m:
            out.append({'property': m.group(1), 'sig': m.group(2).strip('"'), 'where': m.group(3),
                        'text': m.group(4)})
    return out


def vkey(sig, tags=()):
    """Violations are grouped by signature *and* tag set, so that a `where=<tag>` clause of a known finding narrows it
    to the tagged input class: occurrences of the same signature outside that class form another group."""
    tags = sorted(set(tags))
    return sig if not tags else sig + ' #' + ','.join(tags)


# ------------------------------------------------------------------------------------------------
# context

class Context:
    def __init__(self, prop, level, tier, seed):
        self.prop = prop
        self.level = level
        self.tier = tier
        self.seed = seed
        self.rng = random.Random(seed)
        self.t0 = time.time()
        self.viol = {}          # sig -> record
        self.coverage = {}
        self.assumptions = []
        self.known = [k for k in load_known() if k['property'] == prop]
        self.notes = []
        self.deadline = None

    # -- reporting -------------------------------------------------------------------------------
    def violation(self, sig, case, expected=None, observed=None, detail=None, tags=()):
        """Record one violating case.  Violations are grouped by signature; the first (shortest, as the
        explorers go simplest-first) case of each signature is kept as the replay artefact."""
        key = vkey(sig, tags)
        rec = self.viol.get(key)
        if rec is None:
            self.viol[key] = {'sig': sig, 'case': case, 'expected': expected, 'observed': observed,
                              'detail': detail, 'tags': sorted(tags), 'occurrences': 1}
        else:
            rec['occurrences'] += 1

    def add_occurrences(self, sig, n, tags=()):
        self.viol[vkey(sig, tags)]['occurrences'] += n

    def known_match(self, sig, tags=()):
        return self._known_match({'sig': sig, 'tags': sorted(tags)})

    def merge_violations(self, recs):
        """recs: iterable of (sig, case, expected, observed, detail[, tags]) tuples from workers."""
        for r in recs:
            self.violation(*r)

    def note(self, msg):
        self.notes.append(msg)
        print('  ' + msg, flush=True)

    def quick(self):
        return self.tier == 'quick'

    def elapsed(self):
        return time.time() - self.t0

    # -- finish ----------------------------------------------------------------------------------
    def _known_match(self, rec):
        for k in self.known:
            if k['sig'] != rec['sig']:
                continue
            if k['where'] and k['where'] not in rec['tags']:
                continue
            return k
        return None

    def finish(self):
        wall = time.time() - self.t0
        VERIF = os.environ.get('VERIF_OUT') or globals()['VERIF']   # mutant / experiment runs write elsewhere
        os.makedirs(os.path.join(VERIF, 'evidence'), exist_ok=True)
        os.makedirs(os.path.join(VERIF, 'replays'), exist_ok=True)
        n_new = 0
        lines = []
        known_hit = []
        known_occ = {}
        for key in sorted(self.viol):
            rec = self.viol[key]
            sig = rec['sig']
            k = self._known_match(rec)
            if k is not None:
                if sig not in known_hit:
                    known_hit.append(sig)
                known_occ[id(k)] = (k, known_occ.get(id(k), (k, 0))[1] + rec['occurrences'])
                continue
            n_new += 1
            h = hashlib.sha1(key.encode()).hexdigest()[:10]
            path = os.path.join(VERIF, 'replays', '%s-%s.json' % (self.prop, h))
            doc = {'property': self.prop, 'signature': sig, 'tier': self.tier, 'seed': self.seed,
                   'case': jsonable(rec['case']), 'expected': jsonable(rec['expected']),
                   'observed': jsonable(rec['observed']), 'detail': jsonable(rec['detail']),
                   'tags': rec['tags'], 'occurrences': rec['occurrences']}
            with open(path, 'w', encoding='utf-8') as f:
                json.dump(doc, f, indent=1, ensure_ascii=True)
            lines.append('VIOLATION property=%s replay=%s' % (self.prop, path))
            lines.append('  signature: %s  (x%d)' % (sig, rec['occurrences']))
            lines.append('  case: %s' % json.dumps(jsonable(rec['case']), ensure_ascii=True)[:600])
            lines.append('  expected: %s' % json.dumps(jsonable(rec['expected']), ensure_ascii=True)[:400])
            lines.append('  observed: %s' % json.dumps(jsonable(rec['observed']), ensure_ascii=True)[:400])
        for k, occ in known_occ.values():
            lines.insert(0, 'KNOWN-FINDING: property=%s sig=%s %s(occurrences in this run: %d)'
                         % (self.prop, k['sig'], ('where=%s ' % k['where']) if k['where'] else '', occ)
                         + ' ' + k['text'])
        cov = dict(self.coverage)
        cov.setdefault('exhaustive', False)
        ev = {'property_id': self.prop, 'tier': self.tier, 'seed': self.seed, 'level': self.level,
              'coverage': jsonable(cov), 'assumptions': list(self.assumptions), 'wall_s': round(wall, 2),
              'violations': n_new, 'known_findings_reproduced': known_hit, 'notes': self.notes,
              'repo_root': repo_root()}
        problems = validate_evidence(ev)
        with open(os.path.join(VERIF, 'evidence', '%s.json' % self.prop), 'w', encoding='utf-8') as f:
            json.dump(ev, f, indent=1, ensure_ascii=True, sort_keys=True)
        for l in lines:
            print(l)
        if problems:
            print('HARNESS-ERROR: evidence does not satisfy the schema: %s' % problems)
            return 2
        print('%s %s tier=%s seed=%d wall=%.1fs violations=%d known=%d'
              % (self.prop, 'FAIL' if n_new else 'ok', self.tier, self.seed, wall, n_new, len(known_hit)))
        return 1 if n_new else 0


def validate_evidence(ev):
    """Built-in re-statement of EVIDENCE.schema.json's requirements (jsonschema lives in another venv;
    `selftest` validates with the real schema)."""
    probs = []
    for k in ('property_id', 'tier', 'seed', 'level', 'coverage', 'wall_s'):
        if k not in ev:
            probs.append('missing ' + k)
    cov = ev.get('coverage', {})
    lvl = ev.get('level')

    def generic(minimal=False):
        if not (isinstance(cov.get('evaluations'), int) and cov['evaluations'] >= 1):
            probs.append('evaluations')
        if not (isinstance(cov.get('distinct_nontrivial'), int) and cov['distinct_nontrivial'] >= 2):
            probs.append('distinct_nontrivial')
        if not minimal and not isinstance(cov.get('rule'), str):
            probs.append('rule')
        if not (isinstance(cov.get('samples'), list) and cov['samples']):
            probs.append('samples')
    if lvl in ('exploration', 'fault_enumeration'):
        generic()
    elif lvl == 'model_checking':
        if all(k in cov for k in ('states', 'transitions', 'traces_validated_against_impl', 'samples')):
            if not (cov['states'] >= 1 and cov['transitions'] >= 1 and cov['samples']):
                probs.append('model_checking counts')
        else:
            generic(True)
    return probs

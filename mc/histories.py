"""E1 - explicit-state breadth-first search over the reachable states of a *real* object.

A state is represented by a history (tuple of operations) which, replayed on a freshly built
implementation object (and on the reference model), reaches it.  Each BFS level is expanded in parallel;
the parent merges canonical keys at the level barrier, so the result is independent of worker count and seed.

A spec object provides
    spec.config               JSON-able description (class, scale constants, domain ...)
    spec.initial()            -> list of initial histories (usually [()])
    spec.expand(hist)         -> list of (op, key, label, violations)
          key         canonical (hashable) form of the successor's *implementation* state, or None when the
                      state oracle failed (successor not expanded: after a divergence everything is noise)
          label       (opname, result-class) for the coverage table
          violations  list of (sig, case, expected, observed, detail, tags)
    spec.root_key(hist)       -> canonical key of an initial history's state
"""
import collections
import time

from . import core


class Result:
    def __init__(self):
        self.states = 0
        self.transitions = 0
        self.depth = 0
        self.fixpoint = False
        self.capped = None
        self.labels = collections.Counter()
        self.levels = []
        self.samples = []
        self.viol_occ = 0


def _expand_chunk(args):
    spec, hists = args
    out = []
    for h in hists:
        succ = spec.expand(h)
        out.append((h, succ))
    return out


def explore(spec, ctx, max_depth=None, max_states=None, time_budget=None, procs=None, chunk=8):
    res = Result()
    seen = set()
    frontier = []
    for h in spec.initial():
        h = tuple(h)
        k = spec.root_key(h)
        if k not in seen:
            seen.add(k)
            frontier.append(h)
    depth = 0
    t0 = time.time()
    deepest = list(frontier)
    while frontier:
        if max_depth is not None and depth >= max_depth:
            res.capped = 'depth %d' % max_depth
            break
        if time_budget is not None and time.time() - t0 > time_budget:
            res.capped = 'time budget %ds at depth %d' % (time_budget, depth)
            break
        ctx.rng.shuffle(frontier)
        chunks = [frontier[i:i + chunk] for i in range(0, len(frontier), chunk)]
        fn = lambda hs, _s=spec: _expand_chunk((_s, hs))   # noqa: E731
        results = core.pmap(fn, chunks, procs=procs)
        nxt = {}
        for part in results:
            for h, succ in part:
                for op, key, label, viols in succ:
                    res.transitions += 1
                    res.labels[label] += 1
                    for v in viols:
                        ctx.violation(*v)
                        res.viol_occ += 1
                    if key is None or key in seen:
                        continue
                    h2 = h + (op,)
                    # deterministic representative: smallest history (by repr) among those reaching the key
                    old = nxt.get(key)
                    if old is None or repr(h2) < repr(old):
                        nxt[key] = h2
        for k in nxt:
            seen.add(k)
        frontier = sorted(nxt.values(), key=repr)
        depth += 1
        res.levels.append(len(frontier))
        if frontier:
            deepest = frontier
        if max_states is not None and len(seen) > max_states:
            res.capped = 'state cap %d at depth %d' % (max_states, depth)
            break
    else:
        res.fixpoint = True
    res.states = len(seen)
    res.depth = depth
    res.samples = [list(h) for h in deepest[:3]]
    return res


def merge_coverage(ctx, parts, rule=None):
    """parts: list of (config, Result).  Fills ctx.coverage for a model_checking level claim."""
    states = sum(r.states for _, r in parts)
    trans = sum(r.transitions for _, r in parts)
    labels = collections.Counter()
    for _, r in parts:
        labels.update(r.labels)
    cov = ctx.coverage
    cov['states'] = cov.get('states', 0) + states
    cov['transitions'] = cov.get('transitions', 0) + trans
    cov['traces_validated_against_impl'] = cov.get('traces_validated_against_impl', 0) + trans
    cov.setdefault('samples', [])
    cov.setdefault('searches', [])
    for cfg, r in parts:
        cov['searches'].append({'config': cfg, 'states': r.states, 'transitions': r.transitions,
                                'depth': r.depth, 'fixpoint': r.fixpoint, 'capped': r.capped,
                                'frontier_sizes': r.levels})
        if r.samples and len(cov['samples']) < 12:
            cov['samples'].append({'config': cfg, 'history': r.samples[0]})
    tab = cov.setdefault('op_result_table', {})
    for (op, rc), n in sorted(labels.items()):
        tab['%s -> %s' % (op, rc)] = tab.get('%s -> %s' % (op, rc), 0) + n
    cov['distinct_op_result_pairs'] = len(tab)
    if rule:
        cov['rule'] = rule
    return cov

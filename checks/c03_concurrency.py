"""C03 - concurrent LRI/LRU operations are atomic and never corrupt the cache.

Engine E3 (mc.schedules): every interleaving, at bytecode granularity inside boltons/cacheutils.py, with at most k
pre-emptions, of small thread programs on one shared pre-filled cache, executed on real threads under a baton
scheduler.  Oracle: the observed outcome must be one of the outcomes of the serial orders (computed by running the same
operations sequentially on the real class), the ring must be intact, the lock free and the cache usable.
"""
import itertools
import threading

from mc import core, schedules

PROPERTY = 'C03'
LEVEL = 'model_checking'

RING_LIMIT = 64


def cachemod():
    """cacheutils with its lock class replaced by the cooperative equivalent *of the kind the module chose*: a
    re-entrant lock for threading.RLock, a plain one for threading.Lock (so that a lost re-entrancy shows as the
    self-deadlock it is)."""
    import _thread
    from boltons import cacheutils
    cur = cacheutils.RLock
    if cur not in (schedules.CoopRLock, schedules.CoopLock):
        plain = cur in (threading.Lock, _thread.allocate_lock, getattr(_thread, 'LockType', None))
        cacheutils.RLock = schedules.CoopLock if plain else schedules.CoopRLock
    return cacheutils


def on_miss_fn(k):
    return ('m', k)


class LoaderFailed(Exception):
    pass


def on_miss_raises(k):
    raise LoaderFailed(k)


def make_cache(cfg):
    cu = cachemod()
    cls = getattr(cu, cfg['class'])
    om = cfg['on_miss']
    c = cls(max_size=cfg['max_size'], on_miss=on_miss_raises if om == 'raise' else on_miss_fn if om else None)
    for k, v in cfg['prefill']:
        c[k] = v
    return c


class CopyResult:
    def __init__(self, obj):
        self.obj = obj


def aux_for(c, op):
    """Operand built before the threads start (its construction is not part of the operation under test): the
    thread-private source cache of a cache-to-cache bulk update."""
    if op[0] in ('update_cache', 'ior_cache'):
        return type(c)(max_size=len(op[1]) + 2, values=[tuple(p) for p in op[1]])
    return None


def apply(c, op, aux=None):
    name = op[0]
    try:
        if name == 'set':
            c[op[1]] = op[2]; return ('ok', None)
        if name == 'getitem':
            return ('ok', c[op[1]])
        if name == 'bigupdate':
            return ('ok', c.update({('k', i): i for i in range(op[1])}))
        if name == 'bigupdate_pairs':
            return ('ok', c.update([(('k', i), i) for i in range(op[1])]))
        if name == 'getu':
            return ('ok', c[[0]])           # an unhashable key: TypeError, raised while the lock is held
        if name == 'get':
            return ('ok', c.get(op[1], 'D'))
        if name == 'setdefault':
            return ('ok', c.setdefault(op[1], op[2]))
        if name == 'del':
            del c[op[1]]; return ('ok', None)
        if name == 'pop':
            return ('ok', c.pop(op[1], 'D'))
        if name == 'popitem':
            return ('ok', c.popitem())
        if name == 'update':
            return ('ok', c.update(dict(op[1])))
        if name == 'updatekw':
            return ('ok', c.update(dict(op[1]), **dict(op[2])))
        if name == 'clear':
            return ('ok', c.clear())
        if name in ('update_cache', 'ior_cache', 'ior', 'update_self'):
            # argument shapes of a bulk update: another (thread-private) LRI/LRU holding several keys, `|=`, the cache itself
            if name == 'update_self':
                return ('ok', c.update(c))
            src = dict(op[1]) if name == 'ior' else aux if aux is not None else aux_for(c, op)
            if name == 'update_cache':
                return ('ok', c.update(src))
            c |= src
            return ('ok', None)
        if name == 'eq':
            return ('ok', c == dict(op[1]))
        if name == 'ne':
            return ('ok', c != dict(op[1]))
        if name == 'repr':
            import re
            return ('ok', re.sub(r' at 0x[0-9a-f]+', '', repr(c)))
        if name == 'update_bad':        # a bulk update whose argument turns out malformed after some items were stored
            return ('ok', c.update([tuple(p) for p in op[1]] + ['x']))
        if name == 'update_genraises':  # ... or whose source raises part-way
            def gen():
                for p in op[1]:
                    yield tuple(p)
                raise LoaderFailed('source of the update')
            return ('ok', c.update(gen()))
        if name == 'len':
            return ('ok', len(c))
        if name == 'in':
            return ('ok', op[1] in c)
        if name == 'copy':
            return ('ok', CopyResult(c.copy()))
    except Exception as e:
        return ('exc', type(e).__name__)
    raise AssertionError(op)


def probe(c, max_size):
    try:
        old = list(dict.keys(c))
        gone, left = [], list(old)
        for i in range(max_size + 1):
            c[('probe', i)] = i
            if len(c) > max_size:
                return ('over capacity', len(c))
            still = []
            for k in left:
                if dict.__contains__(c, k):
                    still.append(k)
                else:
                    gone.append(k)
            left = still
            if not left:
                break
        return tuple(gone)
    except Exception as e:
        return ('unusable', type(e).__name__)


def ring_status(c):
    """None if ring / lookup / dict agree, else a short description."""
    a = getattr(c, '_anchor', None)
    ll = getattr(c, '_link_lookup', None)
    if a is None or ll is None:
        return None
    RING_LIMIT = max(64, getattr(c, 'max_size', 0) + 8)
    fwd, link, n = [], a[1], 0
    while link is not a and n < RING_LIMIT:
        fwd.append((link[2], link[3])); link = link[1]; n += 1
    if n >= RING_LIMIT:
        return 'forward ring does not close'
    bwd, link, n = [], a[0], 0
    while link is not a and n < RING_LIMIT:
        bwd.append((link[2], link[3])); link = link[0]; n += 1
    if n >= RING_LIMIT:
        return 'backward ring does not close'
    if fwd != bwd[::-1]:
        return 'forward %r / backward %r walks disagree' % (fwd, bwd[::-1])
    d = dict(dict.items(c))
    if dict(fwd) != d or len(fwd) != len(d):
        return 'ring %r != dict %r' % (fwd, d)
    if sorted(ll, key=repr) != sorted(d, key=repr):
        return 'lookup keys %r != dict keys %r' % (sorted(ll, key=repr), sorted(d, key=repr))
    for k, link in ll.items():
        if link[2] != k:
            return 'lookup entry %r points at link of %r' % (k, link[2])
    return None


def finalize(cfg, c, results):
    """Observation of a finished execution (also used for the serial oracle)."""
    res = []
    for thread_res in results:
        tr = []
        for r in thread_res:
            if r[0] == 'ok' and isinstance(r[1], CopyResult):
                cp = r[1].obj
                r = ('ok', ('copy', type(cp).__name__, tuple(sorted(dict.items(cp), key=repr)), ring_status(cp),
                            probe(cp, cfg['max_size'])))
            tr.append(r)
        res.append(tuple(tr))
    lock = getattr(c, '_lock', None)
    lock_free = getattr(lock, 'owner', None) is None
    if not lock_free:
        lock_free = 'held by thread %r' % (lock.owner,)
        lock.owner, lock.count = None, 0        # so that the post-mortem probes below can run
    status = ring_status(c)
    final = tuple(sorted(dict.items(c), key=repr))
    n = len(c)
    order = probe(c, cfg['max_size'])
    return {'results': tuple(res), 'final': final, 'len': n, 'eviction_order': order,
            'ring': status, 'lock_free': lock_free}


def outcome_key(o):
    return (o['results'], o['final'], o['len'], o['eviction_order'])


def serial_outcomes(cfg, program):
    """Outcomes of every serial order of the operations that respects each thread's program order."""
    outs = {}
    slots = [t for t, ops in enumerate(program) for _ in ops]
    for order in sorted(set(itertools.permutations(slots))):
        c = make_cache(cfg)
        results = [[] for _ in program]
        idx = [0] * len(program)
        for t in order:
            op = program[t][idx[t]]
            results[t].append(apply(c, op, aux_for(c, op)))
            idx[t] += 1
        o = finalize(cfg, c, results)
        outs.setdefault(outcome_key(o), order)
    return outs


def make_bodies_factory(cfg, program):
    def make_bodies():
        c = make_cache(cfg)
        results = [[] for _ in program]
        aux = [[aux_for(c, op) for op in ops] for ops in program]

        def body(t):
            def run():
                for i, op in enumerate(program[t]):
                    results[t].append(apply(c, op, aux[t][i]))
            return run

        peak = [0]

        def monitor():
            # state invariant, evaluated at every scheduling point: the cache never *holds* more than max_size items
            # (the raw dict size: what any reader that does not take the lock - keys(), items(), iteration - sees)
            n = dict.__len__(c)
            if n > peak[0]:
                peak[0] = n

        def harvest(s):
            o = finalize(cfg, c, results)
            o['aborted'] = s.aborted
            o['peak_len'] = peak[0]
            return o
        harvest.monitor = monitor
        return [body(t) for t in range(len(program))], harvest
    return make_bodies


def prog_name(program):
    return ' & '.join(sorted('; '.join(op[0] for op in ops) for ops in program))


def classify(cfg, program, obs, serial):
    """Returns list of (kind, expected, observed)."""
    out = []
    if obs.get('aborted'):
        out.append(('aborted:' + obs['aborted'].split(':')[0].split(' (')[0], 'all threads run to completion',
                    obs['aborted']))
        return out
    if obs['ring'] is not None:
        out.append(('corrupt ring', 'ring, lookup table and dict agree', obs['ring']))
    if obs['lock_free'] is not True:
        out.append(('lock left held', 'lock free after all threads finished', obs['lock_free']))
    if obs['len'] > cfg['max_size']:
        out.append(('over capacity', cfg['max_size'], obs['len']))
    elif obs.get('peak_len', 0) > cfg['max_size']:
        out.append(('over capacity at some instant during the execution', cfg['max_size'], obs['peak_len']))
    if isinstance(obs['eviction_order'], tuple) and obs['eviction_order'][:1] in (('unusable',), ('over capacity',)):
        out.append(('cache unusable afterwards', 'further inserts work', obs['eviction_order']))
    if outcome_key(obs) not in serial:
        # name the first observable that no serial order shares
        kinds = []
        if obs['results'] not in {k[0] for k in serial}:
            serial_excs = {r[1] for k in serial for tr in k[0] for r in tr if r[0] == 'exc'}
            excs = sorted({r[1] for tr in obs['results'] for r in tr if r[0] == 'exc'} - serial_excs)
            kinds.append('exception %s no serial run raises' % '/'.join(excs) if excs else 'return values')
        elif (obs['results'], obs['final']) not in {(k[0], k[1]) for k in serial}:
            kinds.append('final contents')
        else:
            kinds.append('final eviction order')
        out.append(('not serialisable: ' + kinds[0], sorted(map(repr, serial))[:6], repr(outcome_key(obs))))
    return out


# ----------------------------------------------------------------------------------------------------
# program families

def alphabet(cfg, reduced=False, quick=False):
    ms = cfg['max_size']
    full = dict(cfg['prefill'])
    if reduced:
        return [('set', 'c', 2), ('getitem', 'a'), ('del', 'a'), ('setdefault', 'c', 7), ('set', 'a', 5),
                ('pop', 'a'), ('len',)]
    ops = [('set', 'c', 2), ('set', 'a', 5), ('getitem', 'a'), ('getitem', 'c'), ('get', 'a'), ('get', 'c'),
           ('setdefault', 'c', 7), ('setdefault', 'a', 7), ('del', 'a'), ('pop', 'a'), ('popitem',),
           ('update', (('c', 3),)), ('update', (('a', 8), ('c', 4))), ('updatekw', (('c', 9),), (('a', 7),)), ('clear',), ('eq', tuple(sorted(full.items(), key=repr))), ('len',), ('in', 'a'),
           ('in', 'c'), ('copy',), ('getu',)]
    # observers of the *inside* of a multi-item update: an operand equal to the contents between its two stores
    mid = dict(full); mid['a'] = 8
    ops += [('repr',), ('eq', tuple(sorted(mid.items(), key=repr))), ('ne', tuple(sorted(mid.items(), key=repr))),
            ('update_bad', (('c', 3), ('d', 4))), ('update_genraises', (('c', 3), ('a', 6)))]
    ops += [('ior_cache', (('a', 8), ('c', 4))), ('update_cache', (('a', 8), ('c', 4))), ('ior', (('a', 8), ('c', 4))),
            ('update_self',)]
    if ms >= 2:
        ops += [('getitem', 'b'), ('set', 'b', 6), ('pop', 'b')]
    if quick:
        # `|=` with a cache operand runs update(other_cache): it stands for the three bulk shapes left to the thorough tier
        ops = [o for o in ops if o[0] not in ('update_cache', 'ior', 'update_self')]   # near-duplicates of other entries (same code path on another key) are left to the thorough tier
        ops = [o for o in ops if o not in (('get', 'a'), ('set', 'b', 6), ('pop', 'b'), ('in', 'c'))
               and o[0] not in ('ne', 'update_genraises')]
    return ops


def configs(tier):
    out = []
    for cls in ('LRI', 'LRU'):
        starts = [(2, (('a', 0), ('b', 1))), (1, (('a', 0),))]
        if tier != 'quick':
            starts += [(2, (('a', 0),)), (3, (('a', 0), ('b', 1)))]      # caches that are not full when the threads start
        for ms, pre in starts:
            for om in (False, True):
                out.append({'class': cls, 'max_size': ms, 'on_miss': om, 'prefill': pre})
        out.append({'class': cls, 'max_size': 2, 'on_miss': 'raise', 'prefill': starts[0][1]})    # a loader that raises
        # a cache nothing has touched yet: the threads' operations are its very first ones (lazily created state)
        out.append({'class': cls, 'max_size': 2, 'on_miss': False, 'prefill': ()})
    return out


BIG_N = 600


def big_programs(tier):
    """Bulk operations far beyond the small alphabets (600 items), explored at *lock granularity* (scheduling points
    only before an acquire and after a release): whatever a bulk update does between its lock operations, other
    threads must see it as one step."""
    out = []
    for cls in ('LRI', 'LRU'):
        cfg = {'class': cls, 'max_size': 1000, 'on_miss': False, 'prefill': (('a', 0), ('b', 1))}
        for big in (('bigupdate', BIG_N), ('bigupdate_pairs', BIG_N)):
            for other in (('len',), ('in', ('k', BIG_N - 1)), ('getitem', 'a'), ('set', 'c', 2), ('pop', ('k', 0)),
                          ('eq', (('a', 0), ('b', 1)))):
                out.append((cfg, ((big,), (other,)), 2))
    return out


# Operations whose pairs get the deepest (bound 3) exploration in the thorough tier: every code path that mutates the
# ring or the lookup, plus the readers that have been seen to observe intermediate states.
CORE3 = (('set', 'c', 2), ('set', 'a', 5), ('getitem', 'a'), ('getitem', 'c'), ('setdefault', 'c', 7), ('del', 'a'),
         ('pop', 'a'), ('popitem',), ('update', (('a', 8), ('c', 4))), ('clear',), ('len',), ('in', 'a'))


# (between its two stores the merged-into cache differs from both serial states only as a whole: single-key readers and
# len() of a full cache cannot tell, so the readers chosen are the whole-contents ones)
IOR_PARTNERS_QUICK = (('copy',), ('repr',), ('eq', (('a', 8), ('b', 1))), ('getitem', 'c'), ('set', 'c', 2), ('del', 'a'),
                      ('popitem',))


def programs(tier):
    """List of (cfg, program, bound).

    Measured cost per program on one core (max_size=2, full): 2x1 bound 2 ~1 s, 2x1 bound 3 4k-12k executions 13-36 s,
    2x2 bound 2 ~2-3k executions ~5 s, 3x1 bound 1 ~1k executions ~3 s, 3x1 bound 2 40k-60k executions 140-190 s.  The
    thorough tier spends its budget accordingly: bound 3 on the CORE3 pairs of the full max_size=2 caches, bound 2 on
    every other pair and on all 2x2 programs, bound 2 on the three-thread programs over the three shortest mutators and
    bound 1 on all other three-thread programs."""
    out = []
    quick = tier == 'quick'
    for cfg in configs(tier):
        A = alphabet(cfg, quick=quick)
        if not cfg['prefill']:
            A = alphabet(cfg, reduced=True) + [('update', (('a', 8), ('c', 4))), ('in', 'a'), ('repr',)]
        core_cfg = cfg['max_size'] == 2 and len(cfg['prefill']) == 2
        for i, x in enumerate(A):
            for y in A[i:]:
                names = {x[0], y[0]}
                if cfg['on_miss'] and not any(o[0] in ('getitem', 'get', 'setdefault') and o[1] == 'c' for o in (x, y)):
                    continue      # on_miss only changes executions that look up an absent key
                narrow = ('ior_cache',) if quick else ('ior', 'update_self')   # (thorough: update_cache/ior_cache get every partner)
                if names & set(narrow) and not all(o[0] in narrow or o in IOR_PARTNERS_QUICK for o in (x, y)):
                    continue      # the cache-to-cache update is the longest operation: the quick tier pairs it with one
                    #               operation of each kind (readers of the whole contents, a reader of one key, writers)
                b = 2
                if quick and cfg['max_size'] == 1:
                    b = 1        # the max_size=2 configurations carry the bound-2 exploration in the quick tier
                if not quick and core_cfg and x in CORE3 and y in CORE3:
                    b = 3
                if 'copy' in names:
                    b = max(1, b - 1)  # copy() re-inserts every item: ~4x the scheduling points of any other operation
                out.append((cfg, ((x,), (y,)), b))
        R = alphabet(cfg, reduced=True)
        if core_cfg:
            seqs = [(x, y) for x in R[:4] for y in R[:4] if x != y] if not quick else \
                   [(R[0], R[1]), (R[1], R[0]), (R[2], R[0]), (R[3], R[1]), (R[4], R[2])]
            # a thread whose bulk update failed part-way goes on using the cache (state left behind by the exception)
            UB = ('update_bad', (('c', 3), ('d', 4)))
            seqs = seqs + [(UB, R[0]), (UB, R[4])] + ([] if quick else [(UB, R[1]), (('update_genraises', (('c', 3), ('a', 6))), R[0])])
            b22 = 1 if quick else 2
            for i, p in enumerate(seqs):
                for q in seqs[i:]:
                    out.append((cfg, (p, q), b22))
            trio = R if not quick else R[:3]
            for x, y, z in itertools.combinations_with_replacement(trio, 3):
                deep = not quick and cfg['on_miss'] is False and {x, y, z} <= set(R[:3])
                out.append((cfg, ((x,), (y,), (z,)), 2 if deep else 1))
    return out


# ----------------------------------------------------------------------------------------------------
# how an application loads the module: the harness imports `threading` long before boltons.cacheutils, an application
# need not.  Every order of {import threading (T), import boltons.cacheutils (M), construct the cache (C)} is played in
# a fresh interpreter; afterwards threads exist (started through _thread), so the lock the cache ended up with must
# exclude other threads and be re-entrant - whatever the interpreter state was when it was resolved.

LOAD_SCENARIOS = {
    'TMC': 'threading_imported_before_cacheutils',
    'MTC': 'threading_imported_between_cacheutils_and_the_cache',
    'MCT': 'threading_imported_after_the_cache_was_built',
    'MC': 'threading_never_imported_threads_started_through__thread',
}

LOAD_PROBE = r"""
import sys, json, _thread
repo, steps = sys.argv[1], sys.argv[2]
sys.path.insert(0, repo)
out = {'precondition': 'threading' not in sys.modules, 'kinds': {}}

def lock_kind(lock):
    has_acquire = hasattr(lock, 'acquire') and hasattr(lock, 'release')
    res = {}
    done = _thread.allocate_lock(); done.acquire()
    def other():
        try:
            if has_acquire:
                got = bool(lock.acquire(False))
                res['other'] = got
                if got:
                    lock.release()
            else:
                lock.__enter__(); res['other'] = True; lock.__exit__(None, None, None)
        except BaseException as e:
            res['other'] = 'raises ' + type(e).__name__
        finally:
            done.release()
    lock.__enter__()
    try:
        _thread.start_new_thread(other, ())
        done.acquire(True, 60 if has_acquire else 1)
        got_in = res.get('other', False)
    finally:
        lock.__exit__(None, None, None)
    if got_in is not False:
        return 'none' if got_in is True else got_in
    if has_acquire:
        a = lock.acquire(False); b = a and lock.acquire(False)
        if b: lock.release()
        if a: lock.release()
        return 'rlock' if a and b else 'plain'
    done2 = _thread.allocate_lock(); done2.acquire()
    def nested():
        with lock:
            with lock:
                pass
        done2.release()
    _thread.start_new_thread(nested, ())
    return 'rlock' if done2.acquire(True, 1) else 'plain'

caches = {}
step = None
try:
    if out['precondition']:
        for step in steps:
            if step == 'T':
                import threading
            elif step == 'M':
                from boltons import cacheutils
            elif step == 'C':
                for cls in ('LRI', 'LRU'):
                    caches[cls] = getattr(cacheutils, cls)(max_size=2)
        step = 'probe'
        for cls, c in caches.items():
            lock = getattr(c, '_lock', None)
            out['kinds'][cls] = 'unknown' if lock is None else lock_kind(lock)
            c['a'] = 1; c.setdefault('b', 2); c['c'] = 3
            out['kinds'][cls + ':usable'] = len(c) == 2
except BaseException as e:
    out['error'] = '%s raises %s' % ({'T': 'import threading', 'M': 'import boltons.cacheutils', 'C': 'constructing the cache',
                                    'probe': 'using the cache'}.get(step, step), type(e).__name__)
print(json.dumps(out))
"""


def load_probe(steps):
    import json, subprocess, sys
    try:
        cp = subprocess.run([sys.executable, '-I', '-c', LOAD_PROBE, core.repo_root(), steps], capture_output=True, text=True, timeout=120)
    except subprocess.TimeoutExpired:
        return {'precondition': True, 'kinds': {}, 'error': 'hangs'}
    try:
        return json.loads(cp.stdout.strip().splitlines()[-1])
    except Exception:
        return {'precondition': True, 'kinds': {}, 'error': 'interpreter exits with %r %s' % (cp.returncode, cp.stderr[-300:])}


def load_messages(steps, out):
    """[(kind, expected, observed)] for one load scenario."""
    msgs = []
    if not out.get('precondition'):
        return msgs
    if out.get('error'):
        e = out['error']
        msgs.append(('hangs' if e == 'hangs' else e if ' raises ' in e else 'interpreter dies',
                     'the cache can be built and used', e))
    for cls in ('LRI', 'LRU'):
        k = out['kinds'].get(cls)
        if k == 'none':
            msgs.append(('cache lock does not exclude other threads', 'a real re-entrant lock', cls + ': no-op lock'))
        elif k == 'plain':
            msgs.append(('cache lock is not re-entrant', 'a real re-entrant lock', cls + ': plain lock'))
        elif isinstance(k, str) and k.startswith('raises'):
            msgs.append(('cache lock ' + k, 'a real re-entrant lock', cls + ': ' + k))
        if out['kinds'].get(cls + ':usable') is False:
            msgs.append(('cache unusable', 'set/setdefault work and respect max_size', cls))
    return msgs


def run_load_scenarios(ctx):
    cov = {}
    for steps in sorted(LOAD_SCENARIOS):
        out = load_probe(steps)
        name = LOAD_SCENARIOS[steps]
        cov[name] = out.get('kinds') if out.get('precondition') else 'not explorable: threading is loaded at interpreter start'
        for kind, exp, got in load_messages(steps, out):
            ctx.violation('C03|load:%s|%s' % (name, kind.replace(' ', '_')), {'load_scenario': steps}, exp, got)
    return cov


# ----------------------------------------------------------------------------------------------------

def explore_program(task):
    cfg, program, bound, reduce = task
    threading.stack_size(16 * 1024 * 1024)
    cu = cachemod()
    filename = cu.__file__
    try:
        serial = serial_outcomes(cfg, program)
    except Exception as e:
        # not even the sequential runs work (e.g. a lock that is no longer re-entrant): that is the violation
        sig = 'C03|prog:%s|sequential execution raises %s' % (prog_name(program), type(e).__name__)
        case = {'config': cfg, 'program': [[list(o) for o in ops] for ops in program], 'schedule': [], 'reduce': reduce}
        return {'program': prog_name(program), 'stats': {'executions': 0, 'points': 0, 'steps': 0, 'max_points': 0,
                                                         'capped': False, 'replayed': 0, 'by_preemptions': {}},
                'outcomes': 0, 'serial': 0, 'viols': {sig: [case, 'the operations run sequentially', repr(e), 1]},
                'nontrivial': 0}
    viols = {}
    seen_outcomes = set()
    nontrivial = [0]

    def on_exec(choices, obs, s):
        seen_outcomes.add(outcome_key(obs))
        if s.switches > len(program) - 1:
            nontrivial[0] += 1
        for kind, exp, got in classify(cfg, program, obs, serial):
            sig = 'C03|prog:%s|%s' % (prog_name(program), kind)
            if sig not in viols:
                viols[sig] = [{'config': cfg, 'program': [[list(o) for o in ops] for ops in program],
                               'schedule': list(choices), 'reduce': reduce}, exp, got, 1]
            else:
                viols[sig][3] += 1

    st = schedules.explore(schedules_factory(cfg, program), filename, bound, on_exec, reduce=reduce,
                           verify_replay=2)
    # a failing schedule must fail identically when replayed
    for sig, v in viols.items():
        obs2, _ = schedules.run_schedule(schedules_factory(cfg, program), filename, v[0]['schedule'], reduce=reduce)
        kinds = [k for k, _, _ in classify(cfg, program, obs2, serial)]
        if sig.split('|', 2)[2] not in kinds:
            raise RuntimeError('violation %s did not reproduce on replay of schedule %r' % (sig, v[0]['schedule']))
    return {'program': prog_name(program), 'stats': st, 'outcomes': len(seen_outcomes), 'serial': len(serial),
            'viols': viols, 'nontrivial': nontrivial[0]}


def schedules_factory(cfg, program):
    return make_bodies_factory(cfg, program)


def run(ctx):
    cachemod()
    load_cov = run_load_scenarios(ctx)
    tasks = [(cfg, prog, bound, True) for cfg, prog, bound in programs(ctx.tier)]
    tasks += [(cfg, prog, bound, 'locks') for cfg, prog, bound in big_programs(ctx.tier)]
    ctx.rng.shuffle(tasks)
    # longest first (three threads, then the higher bounds), so that the pool does not end on a 3-minute straggler
    tasks.sort(key=lambda t: (-(len(t[1]) >= 3) * t[2], -t[2]))
    results = core.pmap(explore_program, tasks, chunksize=1 if not ctx.quick() else 4)
    cov = ctx.coverage
    ex = sum(r['stats']['executions'] for r in results)
    cov['programs'] = len(results)
    cov['states'] = sum(r['stats']['points'] for r in results)
    cov['transitions'] = sum(r['stats']['steps'] for r in results)
    cov['traces_validated_against_impl'] = ex
    cov['evaluations'] = ex
    cov['distinct_nontrivial'] = sum(r['nontrivial'] for r in results)
    cov['rule'] = ('one evaluation = one complete schedule (choice sequence) of one thread program executed on the real '
                   'cache; non-trivial = the schedule contains at least one context switch beyond running the threads '
                   'one after another; states = scheduling decisions visited, transitions = traced thread steps')
    byp = {}
    for r in results:
        for k, v in r['stats']['by_preemptions'].items():
            byp[str(k)] = byp.get(str(k), 0) + v
    cov['schedules_by_preemptions'] = byp
    cov['replayed_for_determinism'] = sum(r['stats']['replayed'] for r in results)
    colliding = [r for r in results if r['outcomes'] > 1]
    cov['programs_with_more_than_one_outcome'] = len(colliding)
    cov['programs_single_outcome'] = len(results) - len(colliding)
    cov['max_scheduling_points_per_execution'] = max(r['stats']['max_points'] for r in results)
    nb = {}
    for cfg, prog, bound, red in tasks:
        shape = 'bulk(lock granularity)' if red == 'locks' else '%dx%d' % (len(prog), max(len(t) for t in prog))
        nb['%s bound %d' % (shape, bound)] = nb.get('%s bound %d' % (shape, bound), 0) + 1
    cov['bounds'] = {'programs_by_shape_and_preemption_bound': nb, 'configs': configs(ctx.tier)}
    cov['load_scenarios'] = load_cov
    cov['exhaustive'] = not any(r['stats']['capped'] for r in results)
    cov['samples'] = [{'program': r['program'], 'executions': r['stats']['executions'],
                       'distinct_outcomes': r['outcomes'], 'serial_outcomes': r['serial']}
                      for r in sorted(results, key=lambda r: -r['outcomes'])[:5]]
    for r in results:
        for sig, (case, exp, got, n) in sorted(r['viols'].items()):
            ctx.violation(sig, case, exp, got)
            ctx.add_occurrences(sig, n - 1)
    ctx.note('programs=%d executions=%d points=%d steps=%d multi-outcome programs=%d'
             % (len(results), ex, cov['states'], cov['transitions'], len(colliding)))
    ctx.assumptions += ['CPython 3.12 with the GIL: C-level dict/list operations are atomic; scheduling points are the '
                        'bytecode boundaries inside boltons/cacheutils.py',
                        'frame-local instructions are not scheduling points (they commute with all other threads)',
                        'counters (hit/miss) are not part of an outcome']


def replay(ctx, data):
    cachemod()
    case = data['case']
    if 'load_scenario' in case:
        return ['%s: expected %r observed %r' % m for m in load_messages(case['load_scenario'],
                                                                          load_probe(case['load_scenario']))]
    cfg = case['config']
    cfg['prefill'] = tuple(tuple(p) for p in cfg['prefill'])
    program = tuple(tuple(tuple(tuple(tuple(z) if isinstance(z, list) else z for z in y) if isinstance(y, list) else y
                                for y in op) for op in ops) for ops in case['program'])
    threading.stack_size(16 * 1024 * 1024)
    from boltons import cacheutils
    try:
        serial = serial_outcomes(cfg, program)
    except Exception as e:
        return ['sequential execution raises %s: %r' % (type(e).__name__, e)]
    obs, s = schedules.run_schedule(make_bodies_factory(cfg, program), cacheutils.__file__, case['schedule'],
                                    reduce=case.get('reduce', True))
    obs['aborted'] = s.aborted
    return ['%s: expected %r observed %r' % (k, e, g) for k, e, g in classify(cfg, program, obs, serial)]

"""C15 - backoff / backoff_iter: geometric growth capped at stop, right length, bounded jitter, validation.

Engine E2 (mc.inputs) + enumerated scripted random draws through the module-global seam
`boltons.iterutils.random`.

Every point of a finite float lattice (starts x factors x stops placed exactly on, one ulp below and one ulp
above the values of the reference recurrence x counts x jitter values x scripted draw sequences) is executed
on the real code and judged clause by clause against the statement.  The reference sequence is the
recurrence of the statement evaluated with the same IEEE-754 double operations
(v[0] = start, v[i+1] = min(v[i]*factor, stop), 0 -> min(1, stop)); it is not derived from the code's
default-count formula.  Reals between lattice points are not examined.

Long sequences (part "long sequences"): slow factors (1.01, 1.001, 1.0001 ...) with stops placed on the values of
the recurrence so that the reference has 2**k - 1, 2**k, 2**k + 1 values (k = 7..14 and 2**16 in the quick tier),
1000 / 10000 (+-1) values, and n - 1, n, n + 1 values for every integer constant n found in the namespace of the
module under test - with the default count, an explicit count just beyond the length, and 'repeat' observed beyond
the length.  All listed lengths are executed; the lengths in between are not (that part is directed, not
exhaustive over lengths).

How the values are taken out of the iterator is part of the space: the object returned by one backoff_iter() call
is consumed by next(), a for loop that is left early, an itertools.islice() chunk and a second for loop in turn
(each of them calls iter() on it again), and after it ended it is asked again (it must stay ended: exactly count
values).  Once per lattice point a twin iterator made with equal arguments (all given by keyword, defaults left
out) while the first one is still unconsumed must give the same first values afterwards, an unrelated iterator
pulled in between must not be disturbed nor disturb, and backoff() is called a third time with every argument
positional.

Counts too large to be consumed (part "huge counts": 2**31, 2**32, 2**53, 2**63, 2**64 each with its neighbours,
sys.maxsize + 8, 10**20, 10**100, 10**400) are valid integers >= 0: the first values are examined like those of
'repeat' (the iteration must not end or raise within the observed head, which reaches past the arrival at stop);
backoff() is not called for them (the list could not be built).

Top of the double range (part "top of the double range"): starts at 1e308, max/4, max/2 and the largest double with
stops up to the largest double, without jitter and with jitter of either sign - there start*factor and b*(1-j)
overflow; a value of inf is inside an interval whose far end b*(1-j) is inf, a nan is inside no interval.

Argument types (part "integer arguments"): the same numbers passed as Python ints (exact start*factor**k, +-1, up to
2**128, far beyond the 2**53 where ints stop being doubles), as ints with a float stop, and as fractions.Fraction;
the reference is the recurrence on their float() values (the sequence is one of floats).

Factors at the edges (part "factors barely above 1 and huge factors"): 1 + 2**-k for every k up to 52 (the smallest
double above 1), 1 + 10**-k while that is a double above 1, their one-ulp neighbours around the usual tolerance
constants, and huge factors (2**10 ... 2**1000, 1e10 ... the largest double, where start*factor overflows) - with
stops a few steps of the recurrence away, so the default count is short.  The statement demands a schedule ending at
stop for every factor > 1; only where a step of the double recurrence makes no progress at all
(start*factor == start) nothing is demanded.
"""
import itertools
from fractions import Fraction
import math
import signal
import sys

from mc import inputs

PROPERTY = 'C15'
LEVEL = 'exploration'

INF = math.inf
ONE_M = 1.0 - 2.0 ** -53            # largest double below 1 (largest value random() can return)
ONE_P = 1.0 + 2.0 ** -52            # smallest double above 1
DRAWS = (0.0, 0.5, ONE_M)           # extremes and midpoint of a draw from [0, 1)
SCRIPT_POSITIONS = 5
REPEAT_ITEMS = 60
HANG_S = 10.0                       # budget for one call of the code under test (only ever reached by a hang)
MAX_HANGS = 2                       # per worker process: after that many hangs the remaining points are skipped
_hangs = 0
STEP_CAP = 200000                   # reference: give up looking for stop after this many growth steps
LONG_CONST_RANGE = (16, 50000)      # integer constants of boltons.iterutils in this range become sequence lengths
HEAD_ONLY_ABOVE = 10 ** 6            # integer counts above this are observed like 'repeat' (first values only)
BIG_HEAD = 12                       # values observed per point in the part "huge counts" (its stops are reached
                                    # after at most 7 values)
BIG_KS = (0, 1, 2, 3, 5)
OTHER_ARGS = (3, 1000, 'repeat', 3, False)      # the unrelated iterator pulled in between
OTHER_VALUES = [3.0, 9.0, 27.0]
END = object()
JITTER_MAX_LEN = 64                # jitter part: default-count points with a longer reference are left to the
                                    # no-jitter part (the draws of a script only differ in the first 5 positions)


def big_counts():
    """Integers >= 0 nobody can consume: around the usual machine thresholds (C int, unsigned, float mantissa,
    ssize_t / sys.maxsize, 64 bit), sys.maxsize plus a few growth steps, and beyond the double range."""
    out = []
    for n in (2 ** 31, 2 ** 32, 2 ** 53, sys.maxsize + 1, 2 ** 63, 2 ** 64):
        for c in (n - 1, n, n + 1):
            if c not in out:
                out.append(c)
    for c in (sys.maxsize + 8, 10 ** 20, 10 ** 100, 10 ** 400):
        if c not in out:
            out.append(c)
    return tuple(out)


TOP = sys.float_info.max


def typed(p):
    """The parameters as they are passed to the code under test: case['as'] == 'Fraction' turns start / stop /
    factor (kept as ints in the case so that it stays JSON-able) and a numeric jitter into fractions.Fraction
    (exact)."""
    if p.get('as') != 'Fraction':
        return p
    q = dict(p)
    for k in ('start', 'stop', 'factor'):
        q[k] = Fraction(p[k])
    if p['jitter'] is not False and p['jitter'] is not True:
        q['jitter'] = Fraction(p['jitter'])
    return q


def same(a, b):
    """Equal sequences of values, a nan being equal to a nan at the same place (the nan itself is reported by the
    value clauses; it must not look like a difference between two calls)."""
    if not isinstance(a, list) or not isinstance(b, list):
        return a == b
    return len(a) == len(b) and all(x == y or (x != x and y != y) for x, y in zip(a, b))


def top_stops(start):
    """Finite stops from start up to the largest double (start*2 and start*4 overflow for the larger starts)."""
    out = []
    for x in (start, up(start), start * 1.5, start * 2.0, start * 4.0, down(TOP), TOP):
        if x == x and x != INF and x not in out:
            out.append(x)
    return out


def head_only(count):
    """Counts whose values cannot all be taken: 'repeat' and integers above HEAD_ONLY_ABOVE."""
    return count == 'repeat' or (count is not None and count > HEAD_ONLY_ABOVE)


def up(x):
    return math.nextafter(x, INF)


def down(x):
    return math.nextafter(x, -INF)


# ----------------------------------------------------------------------------------------------------
# lattice

def tier_bounds(tier):
    if tier == 'quick':
        return {
            'starts': (1.0, 0.0, 0.5, 0.25, 1.5, 3.0, 10.0, 1e6, 1e-9, 5e-324, 1e300),
            'factors_default_count': (2.0, 10.0, 3.0, 1.5, 1.1, math.e),
            'factors_explicit_count_only': (1.0, ONE_P),
            'k_max': 40,
            'counts': (None, 0, 1, 2, 5, 50, 'repeat'),
            'jitter_starts': (1.0, 0.0, 0.25, 3.0, 5e-324),
            'jitter_factors_default_count': (2.0, 10.0, 1.5),
            'jitter_factors_explicit_count_only': (1.0, ONE_P),
            'jitter_k': (0, 1, 2, 3, 5),
            'jitter_counts': (None, 0, 1, 3, 6, 'repeat'),
            'jitter_repeat_items': 8,
            'jitters': (True, 1.0, -1.0, 0.5, -0.5, 0.3, -0.3),
            'long_starts': (1.0, 0.0, 0.001),
            'long_factors': (1.01, 1.001, 1.0001),
            'long_lengths': tuple(2 ** k for k in range(7, 15)) + (1000, 10000),
            'long_big': ((1.0, 1.0001, 2 ** 16),),
            'big_starts': (1.0, 0.0, 0.25, 3.0, 5e-324, 1e300),
            'big_factors': (2.0, 10.0, 1.5, 1.0, ONE_P),
            'top_starts': (1e308, TOP / 4, TOP / 2, TOP),
            'top_factors_default_count': (2.0, 1.5, 10.0),
            'top_factors_explicit_count_only': (1.0,),
            'top_counts': (None, 3, 'repeat'),
            'top_repeat_items': 4,
            'top_jitters': (False, -1.0, -0.5, -0.3, 1.0, 0.5),
            'int_starts': (1, 0, 2, 3, 2 ** 53 + 1),
            'int_factors': (10, 2, 3, 5, 7),
            'int_limit': 2 ** 128,
            'edge_starts': (1.0, 0.0, 250.0, 0.25, 3.0, 1e-9, 5e-324, 1e300),
            'edge_k': (0, 1, 2, 3, 5),
            'edge_counts': (None, 9),
        }
    return {
        'starts': (1.0, 0.0, 0.5, 0.25, 1.5, 3.0, 10.0, 1e6, 1e-9, 5e-324, 2.0, 7.0, 0.1, 1e3, 1e-300,
                   1e-320, 1e300, 1e307),
        'factors_default_count': (2.0, 10.0, 3.0, 1.5, 1.1, math.e, 1.25, 4.0, 7.0, math.pi),
        'factors_explicit_count_only': (1.0, ONE_P),
        'k_max': 80,
        'counts': (None, 0, 1, 2, 3, 5, 10, 41, 50, 'repeat'),
        'jitter_starts': (1.0, 0.0, 0.5, 0.25, 1.5, 3.0, 10.0, 1e6, 1e-9, 5e-324),
        'jitter_factors_default_count': (2.0, 10.0, 3.0, 1.5, 1.1, math.e),
        'jitter_factors_explicit_count_only': (1.0, ONE_P),
        'jitter_k': (0, 1, 2, 3, 4, 5, 6, 9, 12),
        'jitter_counts': (None, 0, 1, 2, 5, 7, 'repeat'),
        'jitter_repeat_items': 8,
        'jitters': (True, 1.0, -1.0, 0.5, -0.5, 0.3, -0.3, 0.0),
        'long_starts': (1.0, 0.0, 0.001, 3.0, 1e-9, 1e6),
        'long_factors': (1.01, 1.001, 1.0001, 1.005, 1.0 + 2.0 ** -10, 1.05, 1.1),
        'long_lengths': tuple(2 ** k for k in range(5, 15)) + (100, 1000, 3000, 10000, 20000),
        'long_big': tuple((s, f, n) for f in (1.01, 1.001, 1.0001, 1.005) for s in (1.0, 0.0, 0.001)
                          for n in (2 ** 15, 2 ** 16, 100000, 2 ** 17)),
        'big_starts': (1.0, 0.0, 0.5, 0.25, 1.5, 3.0, 10.0, 1e6, 1e-9, 5e-324),
        'big_factors': (2.0, 10.0, 3.0, 1.5, 1.1, math.e, 1.0, ONE_P),
        'top_starts': (1e308, 1e307, 6e307, TOP / 8, TOP / 4, TOP / 3, TOP / 2, down(TOP), TOP),
        'top_factors_default_count': (2.0, 1.5, 10.0, 1.1, 3.0),
        'top_factors_explicit_count_only': (1.0, ONE_P),
        'top_counts': (None, 1, 3, 5, 'repeat'),
        'top_repeat_items': 5,
        'top_jitters': (False, True, -1.0, -0.5, -0.3, -2.0 ** -52, 1.0, 0.5, 0.3),
        'int_starts': (1, 0, 2, 3, 7, 10, 1000, 2 ** 53 + 1, 10 ** 17 + 1, 2 ** 64 + 1),
        'int_factors': (10, 2, 3, 5, 7, 6, 100, 1000),
        'int_limit': 2 ** 256,
        'edge_starts': (1.0, 0.0, 250.0, 0.25, 3.0, 1e-9, 5e-324, 1e300, 0.5, 1.5, 10.0, 1e6, 0.1, 1e-300, 1e-320,
                        2.0 - 2.0 ** -52),
        'edge_k': (0, 1, 2, 3, 4, 5, 8, 13, 21),
        'edge_counts': (None, 0, 1, 2, 25, 'repeat'),
    }


def stops_for(start, factor, ks):
    """Stops on, one ulp below and one ulp above start*factor**k (k in ks) - computed both by repeated
    multiplication (the values of the recurrence itself) and with pow - plus 0.5, 1, 1+ulp.  After a start
    of 0 the sequence continues from 1, so the grid is built from 1 there (plus stops below 1).
    Simplest first, duplicates removed.  Stops below start (invalid) are kept on purpose."""
    base = start if start else 1.0
    out, seen = [], set()

    def add(x):
        if x not in seen and x == x and abs(x) != INF:
            seen.add(x)
            out.append(x)

    ks = sorted(ks)
    cur, k = base, 0
    for want in ks:
        while k < want:
            cur *= factor
            k += 1
        p = base * factor ** want
        for x in (cur, p):
            add(x)
        for x in (cur, p):
            add(up(x))
            add(down(x))
    for x in (0.5, 1.0, ONE_P):
        add(x)
    if not start:
        for x in (0.25, 0.1, 5e-324, 0.0):
            add(x)
    return out


def edge_factors():
    """Factors at the edges of the valid range.  Barely above 1: 1 + 2**-k for every k from 1 to 52, 1 + 10**-k for
    every k for which that is a double above 1, and the one-ulp neighbours of the latter (tolerance constants are
    usually powers of ten).  Huge: powers of two up to 2**1000, powers of ten up to 1e300, the largest double."""
    out = []

    def add(x):
        if x > 1.0 and x != INF and x not in out:
            out.append(x)

    for k in range(1, 53):
        add(1.0 + 2.0 ** -k)
    for k in range(1, 17):
        f = 1.0 + 10.0 ** -k
        add(f)
        add(up(f))
        add(down(f))
    add(up(ONE_P))
    for f in (2.0 ** 10, 2.0 ** 52, 2.0 ** 53 + 2.0, 2.0 ** 64, 2.0 ** 1000, 1e10, 1e100, 1e300, down(TOP), TOP):
        add(f)
    return tuple(out)


def edge_stops(start, factor, ks):
    """Stops on, one ulp below and one ulp above the k-th value (k in ks) of the uncapped recurrence from start
    (from 1 after a start of 0), by repeated multiplication and with pow; the walk ends where a step makes no progress
    or overflows.  After a start of 0 also 0.5 and 1.  Stops below start (invalid) are kept on purpose."""
    base = start if start else 1.0
    out, seen = [], set()

    def add(x):
        if x not in seen and x == x and abs(x) != INF:
            seen.add(x)
            out.append(x)

    cur, k = base, 0
    for want in sorted(ks):
        while k < want:
            nxt = cur * factor
            if nxt <= cur or nxt == INF:
                break
            cur, k = nxt, k + 1
        if k < want:
            break
        try:
            p = base * factor ** want
        except OverflowError:
            p = cur
        for x in (cur, p):
            add(x)
        for x in (cur, p):
            add(up(x))
            add(down(x))
    if not start:
        for x in (0.5, 1.0):
            add(x)
    return out


def long_stops(start, factor, lengths):
    """Stops that make the reference sequence exactly L - 1, L and L + 1 values long for every L in lengths:
    the (L-1)th value of the uncapped recurrence (walked here, nothing taken from the code under test), the L-th,
    and the L-th one ulp up (one ulp down gives L values again: left to the main lattice).  Returns ([(L, kind, stop)], [lengths the recurrence cannot reach in doubles])."""
    lengths = sorted(set(lengths))
    v = [float(start)]
    while lengths and len(v) < lengths[-1]:
        cur = v[-1]
        nxt = 1.0 if cur == 0 else cur * factor
        if nxt <= cur or nxt == INF:
            break
        v.append(nxt)
    out, unreachable, seen = [], [], set()
    for L in lengths:
        if L < 3 or L > len(v):
            unreachable.append(L)
            continue
        for kind, x in (('before', v[L - 2]), ('on', v[L - 1]), ('up', up(v[L - 1]))):
            if x not in seen and x != INF:
                seen.add(x)
                out.append((L, kind, x))
    return out, unreachable


def module_int_constants():
    """Integer constants in the namespace of the module under test (thresholds, chunk sizes, step limits ...):
    sequence lengths around them are explored.  Found by introspection; sorted, so the order is deterministic."""
    from boltons import iterutils
    lo, hi = LONG_CONST_RANGE
    found = set()
    for name in sorted(vars(iterutils)):
        if name.startswith('__') and name.endswith('__'):
            continue
        val = vars(iterutils)[name]
        vals = val if isinstance(val, (tuple, list, set, frozenset)) else (val,)
        for x in vals:
            if type(x) is int and lo <= x <= hi:
                found.add(x)
    return sorted(found)


# edge menu: every combination is classified by the statement's own validity predicate; it contains the
# invalid values of each parameter next to valid ones (ints on purpose: the functions accept numbers)
MENU = {
    'start': (1, 0, 3, -1, -5e-324, -0.0),
    'stop': (10, 1, down(1.0), 0, -1),
    'factor': (2, 1, 1.0 - 2.0 ** -53, 0.5, 0, -2),
    'jitter': (False, 0.5, 1, -1, True, 1.5, -ONE_P, 2, -2, 0.0, 5e-324, -1e-17),
    'count': (None, 0, 1, 5, 'repeat', -1, -5, sys.maxsize + 1, 10 ** 20, -10 ** 20),
}


# ----------------------------------------------------------------------------------------------------
# reference (the statement, with IEEE double arithmetic)

class Reference:
    """v[0] = start; after 0 comes min(1, stop); otherwise v[i+1] = min(v[i]*factor, stop)."""

    _last = (None, None)

    def __init__(self, start, stop, factor):
        self.start, self.stop, self.factor = float(start), float(stop), float(factor)
        self.vals = [self.start]

    def at(self, i):
        v = self.vals
        while len(v) <= i:
            cur = v[-1]
            if cur == self.stop:
                v.extend([cur] * (i + 1 - len(v)))
                break
            nxt = 1.0 if cur == 0 else cur * self.factor
            v.append(min(nxt, self.stop))
        return v[i]

    def steps_to_stop(self):
        """Number of values up to and including the first one equal to stop; None when the float recurrence
        cannot get there (a step makes no progress: factor == 1, or start*factor rounds back to start)."""
        key = (self.start, self.stop, self.factor)
        if Reference._last[0] == key:       # the same point is asked several times in a row (long sequences)
            return Reference._last[1]
        cur, n = self.start, 1
        while cur != self.stop:
            nxt = 1.0 if cur == 0 else cur * self.factor
            nxt = min(nxt, self.stop)
            if nxt <= cur or n > STEP_CAP:
                n = None
                break
            cur = nxt
            n += 1
        Reference._last = (key, n)
        return n


def invalid_kinds(p):
    """Which of the statement's validity conditions the parameters break (empty list = valid)."""
    kinds = []
    start, stop, factor, jitter, count = float(p['start']), float(p['stop']), float(p['factor']), p['jitter'], \
        p['count']
    if start < 0:
        kinds.append('start<0')
    if stop < start:
        kinds.append('stop<start')
    if stop <= 0:
        kinds.append('stop<=0')
    if factor < 1:
        kinds.append('factor<1')
    if not (-1.0 <= float(jitter) <= 1.0):
        kinds.append('|jitter|>1')
    if count is not None and count != 'repeat' and count < 0:
        kinds.append('count<0')
    return kinds


def in_scope(p):
    """A factor of 1 only with an explicit count (the statement's "(factor > 1)").  Also left out: default count where
    the reference does not arrive within STEP_CAP steps (a factor barely above 1 with a stop far away), and where
    the float recurrence can never arrive at stop (5e-324 * 1.1 == 5e-324) - there the clauses "grows by exactly
    factor" and "the last value is stop" cannot both hold in double arithmetic, so neither outcome is demanded."""
    if p['count'] is not None:
        return True
    factor = float(p['factor'])
    if factor == 1.0:
        return False
    start, stop = float(p['start']), float(p['stop'])
    if start >= 0 and stop >= start and stop > 0 and factor > 1:
        return Reference(start, stop, factor).steps_to_stop() is not None
    return True


def nontrivial(p):
    if invalid_kinds(p):
        return True
    c = p['count']
    if c is not None and c != 'repeat' and c < 2:
        return False
    start, stop, factor = float(p['start']), float(p['stop']), float(p['factor'])
    return start < stop and (factor > 1 or start == 0)


RULE = ('a case is non-trivial when its parameters are outside the valid ranges (the ValueError clause decides), or '
        'they are valid, at least two values are demanded and the reference sequence is not constant '
        '(start < stop and (factor > 1 or start == 0)), so growth, cap or the step after 0 is exercised')


# ----------------------------------------------------------------------------------------------------
# seam: scripted random source, hang guard

class ScriptedRandom:
    """Stands in for the `random` module inside boltons.iterutils; answers come from the script (cycled)."""

    def __init__(self):
        self.script, self.pos = (0.5,), 0

    def load(self, script):
        self.script = tuple(script) or (0.5,)
        self.pos = 0

    def random(self):
        v = self.script[self.pos % len(self.script)]
        self.pos += 1
        return v

    def uniform(self, a, b):
        return a + (b - a) * self.random()


class Hang(BaseException):
    pass


def _on_alarm(signum, frame):
    raise Hang()


class Seam:
    def __enter__(self):
        from boltons import iterutils
        self.iu = iterutils
        self.saved = iterutils.random
        self.sr = ScriptedRandom()
        iterutils.random = self.sr
        self.old_handler = signal.signal(signal.SIGVTALRM, _on_alarm)
        return self

    def __exit__(self, *a):
        signal.setitimer(signal.ITIMER_VIRTUAL, 0)
        signal.signal(signal.SIGVTALRM, self.old_handler)
        self.iu.random = self.saved
        return False


def consume_next(it, pull, vals):
    """Up to `pull` values by explicit next() calls."""
    for _ in range(pull):
        try:
            vals.append(next(it))
        except StopIteration:
            return 'done'
    return 'more'


def consume_mixed(it, pull, vals, tick=None):
    """Up to `pull` values out of ONE iterator object the way callers do: next() for the first value, a for loop
    left after two more, an itertools.islice() chunk of two, a for loop for the rest.  Every one of these calls
    iter(it) again; for an iterator that is the same sequence as pure next() calls.  `tick` is called between
    the phases."""
    if pull < 1:
        return 'more'
    try:
        vals.append(next(it))
    except StopIteration:
        return 'done'
    if tick:
        tick()
    if len(vals) >= pull:
        return 'more'
    upto = min(pull, 3)
    for v in it:
        vals.append(v)
        if len(vals) >= upto:
            break
    else:
        return 'done'
    if tick:
        tick()
    if len(vals) >= pull:
        return 'more'
    want = min(2, pull - len(vals))
    chunk = list(itertools.islice(it, want))
    vals.extend(chunk)
    if len(chunk) < want:
        return 'done'
    if len(vals) >= pull:
        return 'more'
    for v in it:
        vals.append(v)
        if len(vals) >= pull:
            return 'more'
    return 'done'


def call_forms(p):
    """The same call written differently: (all keywords with the defaults count=None / jitter=False left out,
    all positional)."""
    kw = {'start': p['start'], 'stop': p['stop'], 'factor': p['factor']}
    if p['count'] is not None:
        kw['count'] = p['count']
    if p['jitter'] is not False:
        kw['jitter'] = p['jitter']
    return kw, (p['start'], p['stop'], p['count'], p['factor'], p['jitter'])


def observe(seam, fn, p, draws, pull, mode='mixed', extras=False):
    """Run the real function.  Returns (status, values): status 'done' (ended), 'more' (still yielding after
    `pull` values), 'exc:<Type>', 'hang'.  backoff_iter is consumed by next() / for / islice in turn
    (mode 'mixed') or by next() only (mode 'next').  Findings of the protocol steps (asked again after the end,
    twin iterator, unrelated iterator, other call form; the last three only with `extras`) are left in
    seam.notes as (what, expected, observed)."""
    seam.sr.load(draws)
    seam.notes = notes = []
    p = typed(p)
    kw = {'count': p['count'], 'factor': p['factor'], 'jitter': p['jitter']}
    vals = []
    try:
        signal.setitimer(signal.ITIMER_VIRTUAL, HANG_S)
        try:
            if fn == 'backoff':
                ret = seam.iu.backoff(p['start'], p['stop'], **kw)
                first = list(ret)
                # the result belongs to the caller: changing it must not show in a second call with equal arguments
                if isinstance(ret, list):
                    ret.append('changed by the caller')
                    del ret[:1]
                seam.sr.load(draws)
                second = list(seam.iu.backoff(p['start'], p['stop'], **kw))
                if same(second, first) and extras:
                    seam.sr.load(draws)
                    try:
                        third = list(seam.iu.backoff(*call_forms(p)[1]))
                    except Exception as e:
                        third = 'raised ' + type(e).__name__
                    if not same(third, first):
                        notes.append(('all arguments positional: result differs from the call with keywords',
                                      first[:8], third[:8]))
                signal.setitimer(signal.ITIMER_VIRTUAL, 0)
                if not same(second, first):
                    return 'second-call-differs', [first, second]
                return 'done', first
            it = seam.iu.backoff_iter(p['start'], p['stop'], **kw)
            twin = other = tick = None
            other_vals = []
            if extras:
                try:
                    twin = seam.iu.backoff_iter(**call_forms(p)[0])
                    if not p['jitter']:         # an unrelated live iterator (it never draws: no jitter)
                        other = seam.iu.backoff_iter(*OTHER_ARGS)
                        tick = lambda: len(other_vals) < 3 and other_vals.append(next(other))
                        tick()
                except Exception as e:
                    notes.append(('making a second iterator raised ' + type(e).__name__, 'an iterator', repr(e)[:200]))
                    twin = other = tick = None
            if mode == 'mixed':
                status = consume_mixed(it, pull, vals, tick)
            else:
                status = consume_next(it, pull, vals)
            if status == 'more':
                try:
                    it.close()
                except Exception:
                    pass
            else:
                # exactly count values: an iterator that ended stays ended, however it is asked
                again = list(itertools.islice(it, 3))
                nxt = next(it, END)
                if again or nxt is not END:
                    notes.append(('iterator produces values again after it ended', 'nothing after the %d values'
                                  % len(vals), again + ([] if nxt is END else [nxt])))
            if twin is not None:
                try:
                    if other is not None:
                        while len(other_vals) < 3:
                            tick()
                        if other_vals != OTHER_VALUES:
                            notes.append(('an unrelated iterator pulled in between gives wrong values',
                                          OTHER_VALUES, other_vals))
                    seam.sr.load(draws)
                    tv = []
                    consume_next(twin, min(3, pull), tv)
                    if not same(tv, vals[:len(tv)]) or len(tv) < min(3, len(vals)):
                        notes.append(('twin iterator made with equal arguments (keywords, defaults omitted) before '
                                      'the first was consumed gives different first values', vals[:3], tv))
                except Exception as e:
                    notes.append(('twin / unrelated iterator raised ' + type(e).__name__, vals[:3], repr(e)[:200]))
            signal.setitimer(signal.ITIMER_VIRTUAL, 0)
            return status, vals
        finally:
            signal.setitimer(signal.ITIMER_VIRTUAL, 0)
    except Hang:
        global _hangs
        _hangs += 1
        return 'hang', vals
    except Exception as e:
        return 'exc:' + type(e).__name__, vals


# ----------------------------------------------------------------------------------------------------
# oracle

def pull_for(p, ref_steps, repeat_items):
    c = p['count']
    if invalid_kinds(p):
        return 3
    if head_only(c):
        return repeat_items
    if c is None:
        return 4 * (ref_steps or 0) + 1000
    return c + 2


def judge(p, status, vals, repeat_items):
    """All clauses of the statement, in order.  Returns [(what, expected, observed)]."""
    out = []
    kinds = invalid_kinds(p)
    shown = vals if len(vals) <= 12 else vals[:6] + ['...'] + vals[-5:]
    if status == 'hang':
        return [('call does not return within the budget', 'a result', 'no result after %gs' % HANG_S)]
    if kinds:
        label = 'invalid (%s): ' % ', '.join(kinds)
        want = 'ValueError before anything is yielded'
        if vals or status in ('done', 'more'):
            out.append((label + 'no ValueError before the first value', want, [status, shown]))
        elif status != 'exc:ValueError':
            out.append((label + 'raised %s instead of ValueError' % status[4:], want, status))
        return out

    start, stop, factor = float(p['start']), float(p['stop']), float(p['factor'])
    count = p['count']
    j = float(p['jitter']) if p['jitter'] else 0.0
    ref = Reference(start, stop, factor)
    sshape = 'start>0' if start else ('start=0, stop<1' if stop < 1 else 'start=0, stop>=1')
    if status.startswith('exc:'):
        return [('raised %s (valid parameters, %s)' % (status[4:], 'default count' if count is None else
                                                       'count given'),
                 'values', [status, 'after yielding', shown])]
    # -- how many
    if count == 'repeat':
        if status == 'done':
            out.append(("count='repeat': iteration ended", 'endless', 'ended after %d values' % len(vals)))
    elif count is None:
        if status == 'more':
            out.append(('default count: does not end', 'a last value equal to stop (the reference arrives after '
                        '%s values)' % ref.steps_to_stop(), 'still yielding after %d values' % len(vals)))
        elif not j and (not vals or vals[-1] != stop):
            out.append(('default count, %s: last value is not stop' % sshape, stop, shown))
    elif head_only(count):
        if status == 'done':
            out.append(('explicit count too large to consume: iteration ended early', 'count = %d values' % count,
                        'ended after %d values' % len(vals)))
    else:
        if status == 'more' or len(vals) != count:
            out.append(('explicit count: number of values', count,
                        'more than %d' % count if status == 'more' else len(vals)))
    # -- which values
    for i, v in enumerate(vals):
        b = ref.at(i)
        if not j:
            if v == b:
                continue
            prev = vals[i - 1] if i else None
            if i == 0:
                what = 'first value is not start'
            elif i == 1 and start == 0:
                what = 'value after a start of 0 is not min(1, stop)'
            elif v > stop:
                what = 'value exceeds stop'
            elif v < prev:
                what = 'value decreases'
            else:
                what = 'step is not min(previous*factor, stop)'
            out.append((what, {'position': i, 'value': b}, {'position': i, 'value': v, 'values': shown}))
            break
        other = b * (1.0 - j)
        lo, hi = min(b, other), max(b, other)
        slack = 2 * math.ulp(max(abs(lo), abs(hi))) if hi != INF else 0.0
        if not (lo - slack <= v <= hi + slack):
            out.append(('jitter: value outside [b, b*(1-j)]', {'position': i, 'b': b, 'b*(1-j)': other},
                        {'position': i, 'value': v, 'values': shown}))
            break
    return out


def check_case(seam, p, draws, repeat_items=REPEAT_ITEMS, extras=True):
    """Judge one lattice point on backoff_iter and (where it applies) backoff.  Returns
    [(signature, expected, observed)]."""
    res = []
    ref_steps = None
    if p['count'] is None and not invalid_kinds(p):
        ref_steps = Reference(p['start'], p['stop'], p['factor']).steps_to_stop()
    pull = pull_for(p, ref_steps, repeat_items)
    status, vals = observe(seam, 'backoff_iter', p, draws, pull, 'mixed', extras)
    notes = seam.notes
    complaints = judge(p, status, vals, repeat_items)
    if complaints and status != 'hang' and _hangs < MAX_HANGS:
        # is it the sequence, or the way it was taken out?  the same call consumed by next() only
        status_n, vals_n = observe(seam, 'backoff_iter', p, draws, pull, 'next', False)
        if (status_n, vals_n) != (status, vals):
            complaints_n = judge(p, status_n, vals_n, repeat_items)
            if complaints_n:
                complaints = complaints_n
            else:
                shown = vals if len(vals) <= 12 else vals[:6] + ['...'] + vals[-5:]
                complaints = [('values differ when one iterator is consumed by next(), for loops and islice() in '
                               'turn (by next() alone they are right)', vals_n[:12], [status, shown])]
    if complaints:      # the twin is compared with the values of the first iterator: pointless when those are wrong
        notes = [n for n in notes if not n[0].startswith('twin iterator made')]
    for what, exp, obs in complaints + notes:
        res.append(('C15|fn:backoff_iter|' + what, exp, obs))
    # backoff(): 'repeat' is not part of its contract; never ask for a list the iterator showed to be endless
    # or that is too large to build
    if head_only(p['count']) or status in ('more', 'hang'):
        return res
    status2, vals2 = observe(seam, 'backoff', p, draws, pull, extras=extras)
    if status2 == 'second-call-differs':
        res.append(('C15|fn:backoff|second call with equal arguments differs after the caller changed the first result',
                    vals2[0][:8], vals2[1][:8]))
    elif status2 != status or not same(vals2, vals):       # same outcome -> already judged above
        for what, exp, obs in judge(p, status2, vals2, repeat_items):
            res.append(('C15|fn:backoff|' + what, exp, obs))
    for what, exp, obs in seam.notes:
        res.append(('C15|fn:backoff|' + what, exp, obs))
    return res


def scripts_for(p, ref_steps, repeat_items):
    """Every sequence of draws over DRAWS for the first min(5, number of values) positions; one empty script
    when no draw can matter (no jitter, invalid parameters)."""
    if not p['jitter'] or invalid_kinds(p):
        return [()]
    c = p['count']
    n = repeat_items if head_only(c) else (ref_steps or SCRIPT_POSITIONS) if c is None else c
    return list(itertools.product(DRAWS, repeat=min(SCRIPT_POSITIONS, n)))


def run_point(seam, t, p, repeat_items):
    if not in_scope(p):
        t.add('left_out_of_scope', 1)
        return
    if _hangs >= MAX_HANGS:         # the hang is already reported; do not spend the budget again on every point
        t.add('skipped_after_hangs', 1)
        return
    ref_steps = None
    if p['count'] is None and not invalid_kinds(p):
        ref_steps = Reference(p['start'], p['stop'], p['factor']).steps_to_stop()
    nt = nontrivial(p)
    for n, draws in enumerate(scripts_for(p, ref_steps, repeat_items)):
        if _hangs >= MAX_HANGS:
            t.add('skipped_after_hangs', 1)
            continue
        # the twin / unrelated iterator / call form steps: once per point (with its first draw script)
        case = dict(p, draws=list(draws), repeat_items=repeat_items, extras=not n)
        t.count(nontrivial=nt, sample=case)
        for sig, exp, obs in check_case(seam, p, draws, repeat_items, extras=not n):
            t.bad(sig, case, exp, obs)


# ----------------------------------------------------------------------------------------------------
# shards

def shard_plain(arg):
    start, factor, counts, k_max = arg
    t = inputs.Tally()
    with Seam() as seam:
        for stop in stops_for(start, factor, range(k_max + 1)):
            for count in counts:
                p = {'start': start, 'stop': stop, 'count': count, 'factor': factor, 'jitter': False}
                run_point(seam, t, p, REPEAT_ITEMS)
    return t


def shard_jitter(arg):
    start, factor, jitter, counts, ks, repeat_items = arg
    t = inputs.Tally()
    with Seam() as seam:
        for stop in stops_for(start, factor, ks):
            for count in counts:
                p = {'start': start, 'stop': stop, 'count': count, 'factor': factor, 'jitter': jitter}
                if count is None and not invalid_kinds(p):
                    n = Reference(start, stop, factor).steps_to_stop()
                    if n is not None and n > JITTER_MAX_LEN:
                        t.add('default_count_points_longer_than_%d_left_to_the_no_jitter_part' % JITTER_MAX_LEN, 1)
                        continue
                run_point(seam, t, p, repeat_items)
    return t


def shard_long(arg):
    start, factor, lengths = arg
    t = inputs.Tally()
    stops, unreachable = long_stops(start, factor, lengths)
    if unreachable:
        t.add('lengths_beyond_the_double_range_not_run', len(unreachable))
    with Seam() as seam:
        for L, kind, stop in stops:
            p = {'start': start, 'stop': stop, 'count': None, 'factor': factor, 'jitter': False}
            run_point(seam, t, p, REPEAT_ITEMS)
            if kind == 'on':        # an explicit count / 'repeat' that runs past the arrival at stop
                run_point(seam, t, dict(p, count=L + 3), REPEAT_ITEMS)
                run_point(seam, t, dict(p, count='repeat'), L + 3)
    return t


def shard_big(arg):
    start, factor, counts, ks = arg
    t = inputs.Tally()
    with Seam() as seam:
        for stop in stops_for(start, factor, ks):
            for count in counts:
                p = {'start': start, 'stop': stop, 'count': count, 'factor': factor, 'jitter': False}
                run_point(seam, t, p, BIG_HEAD)
    return t


def shard_top(arg):
    start, factor, jitter, counts, repeat_items = arg
    t = inputs.Tally()
    with Seam() as seam:
        for stop in top_stops(start):
            for count in counts:
                p = {'start': start, 'stop': stop, 'count': count, 'factor': factor, 'jitter': jitter}
                run_point(seam, t, p, repeat_items)
    return t


def shard_int(arg):
    """start, factor and stop as Python ints: stop = start*factor**k exactly (and its two integer neighbours) up to
    `limit`.  Forms: all ints (default count, a count past the arrival, 'repeat'); ints with the stop as a float;
    all three as fractions.Fraction (default count)."""
    start, factor, limit = arg
    t = inputs.Tally()
    with Seam() as seam:
        v, k = start or 1, 0
        while v <= limit:
            for stop in (v, v + 1, v - 1):
                p = {'start': start, 'stop': stop, 'count': None, 'factor': factor, 'jitter': False}
                run_point(seam, t, p, REPEAT_ITEMS)
                run_point(seam, t, dict(p, count=k + 4), REPEAT_ITEMS)
                run_point(seam, t, dict(p, count='repeat'), k + 4)
                run_point(seam, t, dict(p, stop=float(stop)), REPEAT_ITEMS)
                t_p = dict(p)
                t_p['as'] = 'Fraction'
                run_point(seam, t, t_p, REPEAT_ITEMS)
                if k <= 3:          # jitter given as a Fraction too; two values: every script of two draws
                    for jitter in (0.5, -1.0):
                        run_point(seam, t, dict(t_p, count=2, jitter=jitter), REPEAT_ITEMS)
            v, k = v * factor, k + 1
    return t


def shard_edge(arg):
    start, factor, ks, counts = arg
    t = inputs.Tally()
    with Seam() as seam:
        for stop in edge_stops(start, factor, ks):
            for count in counts:
                p = {'start': start, 'stop': stop, 'count': count, 'factor': factor, 'jitter': False}
                run_point(seam, t, p, 12)
    return t


def shard_menu(arg):
    start, stop = arg
    t = inputs.Tally()
    with Seam() as seam:
        for factor in MENU['factor']:
            for count in MENU['count']:
                for jitter in MENU['jitter']:
                    p = {'start': start, 'stop': stop, 'count': count, 'factor': factor, 'jitter': jitter}
                    run_point(seam, t, p, 8)
    return t


def run(ctx):
    B = tier_bounds(ctx.tier)
    plain = []
    for start in B['starts']:
        for factor in B['factors_default_count']:
            plain.append((start, factor, B['counts'], B['k_max']))
        for factor in B['factors_explicit_count_only']:
            plain.append((start, factor, tuple(c for c in B['counts'] if c is not None), B['k_max']))
    totals = []
    totals.append(inputs.run_shards(ctx, shard_plain, plain, part='no jitter: start x factor x stop x count',
                                    rule='full lattice, jitter=False'))

    jit = []
    for start in B['jitter_starts']:
        for jitter in B['jitters']:
            for factor in B['jitter_factors_default_count']:
                jit.append((start, factor, jitter, B['jitter_counts'], B['jitter_k'], B['jitter_repeat_items']))
            for factor in B['jitter_factors_explicit_count_only']:
                jit.append((start, factor, jitter, tuple(c for c in B['jitter_counts'] if c is not None),
                            B['jitter_k'], B['jitter_repeat_items']))
    totals.append(inputs.run_shards(
        ctx, shard_jitter, jit, part='jitter: start x factor x stop x count x jitter x draws',
        rule='sub-lattice x every draw sequence over {0, 0.5, 1-2**-53} for the first 5 positions'))

    consts = module_int_constants()
    lengths = tuple(sorted(set(B['long_lengths']) | set(consts)))
    longs = []
    for factor in B['long_factors']:
        for start in B['long_starts']:
            longs.append((start, factor, lengths))
    for start, factor, L in B['long_big']:
        longs.append((start, factor, (L,)))
    totals.append(inputs.run_shards(
        ctx, shard_long, longs, part='long sequences: slow factor x start x stop at a given length x count',
        rule="jitter=False; for every listed length L the stops giving L-1, L and L+1 (1 ulp up) "
             "values, default count; at the stop giving exactly L also count=L+3 and 'repeat' observed for L+3 values; "
             "directed: every listed length is run, lengths in between are not"))

    bigs = [(start, factor, big_counts(), BIG_KS) for start in B['big_starts'] for factor in B['big_factors']]
    totals.append(inputs.run_shards(
        ctx, shard_big, bigs, part='huge counts: start x factor x stop x count beyond what can be consumed',
        rule='jitter=False; integer counts around 2**31, 2**32, 2**53, sys.maxsize, 2**63, 2**64 and 10**20, 10**100, '
             '10**400; the first %d values are examined (stop is reached within 7), backoff() is not called' % BIG_HEAD))

    tops = []
    for start in B['top_starts']:
        for jitter in B['top_jitters']:
            for factor in B['top_factors_default_count']:
                tops.append((start, factor, jitter, B['top_counts'], B['top_repeat_items']))
            for factor in B['top_factors_explicit_count_only']:
                tops.append((start, factor, jitter, tuple(c for c in B['top_counts'] if c is not None),
                             B['top_repeat_items']))
    totals.append(inputs.run_shards(
        ctx, shard_top, tops, part='top of the double range: start x factor x stop x count x jitter x draws',
        rule='starts and stops within a factor of 18 of the largest double (start*factor and b*(1-j) overflow); '
             'no jitter and jitter of either sign x every draw sequence for the first 5 positions'))

    ints = [(start, factor, B['int_limit']) for factor in B['int_factors'] for start in B['int_starts']]
    totals.append(inputs.run_shards(
        ctx, shard_int, ints, part='integer arguments: int start x int factor x exact int stop x count x form',
        rule='jitter=False; stop = start*factor**k as an exact int and its neighbours +-1, every k up to the limit; '
             "all ints with the default count, count=k+4 and 'repeat'; ints with a float stop and all three as "
             'fractions.Fraction with the default count; for k <= 3 also count=2 with a jitter of 1/2 and -1 given '
             'as a Fraction x every draw sequence'))

    edges = [(start, factor, B['edge_k'], B['edge_counts']) for factor in edge_factors() for start in B['edge_starts']]
    totals.append(inputs.run_shards(
        ctx, shard_edge, edges, part='factors barely above 1 and huge factors: start x factor x stop x count',
        rule='jitter=False; factors 1+2**-k (k = 1..52), 1+10**-k (k = 1..15) with their 1-ulp neighbours, 2**10 .. '
             '2**1000, 1e10 .. the largest double; stops on and 1 ulp around the k-th value of the recurrence (k in '
             'edge_k), so the default count is short; default count where the double recurrence arrives at stop'))

    menu = [(a, b) for a in MENU['start'] for b in MENU['stop']]
    totals.append(inputs.run_shards(
        ctx, shard_menu, menu, part='edge menu: valid and invalid values of every parameter',
        rule='full product of the menu, each point classified by the validity predicate of the statement; the '
             'numbers are passed as ints where integral; jitter points x every draw sequence'))
    skipped = sum(t.extra.get('skipped_after_hangs', 0) for t in totals)

    cov = ctx.coverage
    cov['rule'] = RULE
    # every point of the stated lattice is executed; the only cap is the hang budget of the code under test
    cov['exhaustive'] = skipped == 0
    if skipped:
        cov['cap_hit'] = ('%d lattice points skipped after calls that did not return within %gs (reported as '
                          'violations)' % (skipped, HANG_S))
    cov['bounds'] = {
        'tier': ctx.tier,
        'lattice': {k: list(v) if isinstance(v, tuple) else v for k, v in B.items()},
        'starts_near_the_top_of_the_double_range': 'a start of 1e300: start*factor**k overflows after a few steps; stops that are not finite are left out',
        'stops': 'for k = 0..k_max (jitter part: k in jitter_k): start*factor**k by repeated multiplication and by '
                 'pow, each with its two 1-ulp neighbours; plus 0.5, 1, 1+2**-52; for start = 0 the grid is built '
                 'from 1 and 0.25, 0.1, 5e-324, 0 are added; stops below start are kept (ValueError clause)',
        'long_sequences': {'lengths': list(lengths), 'big (start, factor, length)': [list(x) for x in B['long_big']],
                           'integer_constants_found_in_boltons.iterutils': consts,
                           'constant_range_considered': list(LONG_CONST_RANGE),
                           'exhaustive_over_lengths': False},
        'draws': list(DRAWS),
        'script_positions': SCRIPT_POSITIONS,
        'jitter_part_default_count_max_reference_length': JITTER_MAX_LEN,
        'repeat_items_examined': REPEAT_ITEMS,
        'edge_menu': {k: list(v) for k, v in MENU.items()},
        'top_of_the_double_range': {'stops': 'start, start+1ulp, start*1.5, start*2, start*4, max-1ulp, max (the '
                                             'finite ones)', 'largest double': TOP},
        'integer_arguments': {'limit': str(B['int_limit']), 'forms': ['int, int, int', 'int start / factor, float stop',
                                                                     'Fraction, Fraction, Fraction'],
                              'not_explored': 'ints beyond the double range (float() of them overflows), Decimal, '
                                              'numpy scalars, float subclasses'},
        'huge_counts': {'counts': [str(c) if c > 2 ** 70 else c for c in big_counts()], 'k': list(BIG_KS),
                        'values_examined': BIG_HEAD, 'observed_like_repeat_above': HEAD_ONLY_ABOVE},
        'edge_factors': {'factors': list(edge_factors()),
                         'stops': 'k-th value of the recurrence from start (k in edge_k) by repeated multiplication and '
                                  'by pow, each with its two 1-ulp neighbours; after a start of 0 also 0.5 and 1',
                         'not_explored': 'factors barely above 1 with a stop more than %d steps away (default count)'
                                         % STEP_CAP},
        'consumption': 'one backoff_iter object: next(), for loop left early, islice chunk, for loop, asked again '
                       'after the end; on a disagreement the call is repeated with next() alone to tell the two apart',
        'once_per_point': ['twin iterator (keywords, defaults omitted) created before and read after the first',
                           'unrelated iterator backoff_iter%r pulled before, in between and after (no-jitter points)'
                           % (OTHER_ARGS,),
                           'backoff() a third time with all arguments positional'],
        'functions': ['backoff_iter (next / for / islice on one object)',
                      "backoff (all counts except 'repeat' and those above %d; called twice, the first result "
                      "changed by the caller in between)" % HEAD_ONLY_ABOVE],
    }
    ctx.assumptions += [
        'exhaustive over the float lattice only; reals between lattice points are not examined',
        'reference = the recurrence of the statement in IEEE double arithmetic (v*factor rounded once, min with stop)',
        'jitter bounds are inclusive with 2 ulp of slack for the rounding of b*(1-j) (DESIGN 5.1)',
        'factor 1 is explored with explicit counts only (the statement says "(factor > 1)"); factors barely above 1 '
        '(down to 1+2**-52) get the default count only with stops a few steps away (part "factors barely above 1"; '
        'DESIGN 5.1 left them out because a far stop asks for ~10**15 values); the default count is not required '
        'to be minimal: only termination, the values and "last value is stop" are demanded',
        'default count is not explored where the double recurrence cannot reach stop (5e-324*1.1 == 5e-324): '
        'the statement is about reals there and fixes no float behaviour',
        "count='repeat' is observed for its first %d values (8 in the jitter and menu parts)" % REPEAT_ITEMS,
        'with jitter and the default count only termination and the per-position bounds are demanded '
        '(the statement fixes the last value only for the un-jittered sequence)',
        'integer counts above %d cannot be consumed: their first %d values (8 in the menu) are examined, the '
        'iteration must not end or raise there; backoff() is not called with them' % (HEAD_ONLY_ABOVE, BIG_HEAD),
        'the ways of consuming an iterator are the listed ones (next, for + break, islice, for, again after the end) '
        'at fixed split positions 1 / 3 / 5; send(), throw(), copy and pickling are not examined',
        'long sequences (more than k_max values) are examined only at the listed lengths (powers of two, 1000, 10000, '
        'integer constants of the module, each with its neighbours) for the listed slow factors and starts',
        'numbers that are not floats (ints of any size within the double range, Fractions) stand for their float() '
        'value: the reference is the float recurrence on float(start), float(stop), float(factor)',
        'at the top of the double range a yielded inf counts as inside the jitter interval when its far end b*(1-j) '
        'overflows to inf; nan is inside no interval',
        'a call that does not return within %gs of CPU time is reported as a hang (never reached otherwise)' % HANG_S,
    ]


def replay(ctx, data):
    case = data['case']
    p = {k: case[k] for k in ('start', 'stop', 'count', 'factor', 'jitter')}
    if case.get('as'):
        p['as'] = case['as']
    msgs = []
    with Seam() as seam:
        if not in_scope(p):
            return msgs
        for sig, exp, obs in check_case(seam, p, tuple(case.get('draws', ())), case.get('repeat_items', REPEAT_ITEMS),
                                        extras=case.get('extras', True)):
            msgs.append('%s params=%r expected=%r observed=%r' % (sig, p, exp, obs))
    return msgs

"""C08 - iterutils.remap rebuilds nested data exactly as a recursive map would; research/get_path consistency.

Engine E2 (mc.inputs): bounded exhaustive enumeration of *structures* x *visit programs*.

Structures.  Every term

    T ::= 0 | 1 | 'a' | list[T*] | tuple[T*] | dict{k: T} | set{H*} | frozenset{H*} | ref(i)

with at most N nodes (every leaf, container and ref counts 1; the root is a container).  ``ref(i)`` is *the same
object* as the i-th container of the term in pre-order: an earlier sibling/cousin (sharing) or an enclosing container
(cycle).  Since the first pre-order occurrence of an object can always be taken as its definition, this enumerates
every aliasing pattern among sub-objects up to the bound.  Terms that cannot exist in Python (unhashable set member,
a cycle that passes through immutable containers only, duplicate set members) are discarded when they are built.
Dict keys come from a small menu that contains a string, an int that looks like a list index, and 'K' - the key the
"rename" action produces, so renamed keys collide with present ones.

Programs.  A visit program is a decision table: feature cell -> action in {True, False, return the same pair,
replace the value by 'X', replace the key by 'K'}.  Tables over the value kind (container / 0 / other scalar; all
5^3), over len(path) parity (all 5^2), over value kind x "key is a str" (all tables with <= 2 non-default cells,
thorough), and one program that rewrites every scalar into its own path (structures without set members only, because
the statement does not say what the key of a set member is).  Plus the default callbacks, and research().
Key-rewriting tables (structures without set members): value-kind tables over True / False / 'N' (int key k -> ~k, so
the indexes of a list come back descending) / 'W' (key and value of a scalar item swapped): the key returned for an
item of a list / tuple does not move the item.
Twins: every container term of <= 3 nodes placed two or three times as *distinct but equal* objects (also with equal
leaves of another type: 0 / False / 0.0) side by side and at different depths: equal is not shared.

Oracles (only what the statement says)
  * remap(root, visit=P) is graph-isomorphic to a 20-line memoised recursive rebuild run with the same program:
    same container types, same keys, same order, shared objects stay shared, cycles stay cycles, distinct mutable
    containers stay distinct.  Members of a set/frozenset are matched as unordered collections.
  * default callbacks: the result is isomorphic to the input (equal deep copy) and no list/dict/set object is
    reachable from both input and output.
  * the input (object identities, types, keys, order) is the same before and after every call.
  * every call returns within a step budget (visit calls) and a CPU budget (ITIMER_VIRTUAL) - a hang is a violation.
  * every (path, value) of research(root) except the root's own entry ((None,), root) satisfies
    get_path(root, path) is value.
  * a cycle through a tuple (a ref to an enclosing tuple): only termination, input immutability (DESIGN 5.1) and - with
    the default callbacks - no list/dict/set shared between result and input; no finite bottom-up rebuild of such a
    structure exists, so nothing is demanded of the result's shape.

Key aliases: every hashable container term of <= 3 nodes as ONE object that is a value and a dict key (8 contexts): the
key of an item is what visit returned for it, never the rebuilt counterpart of a container that happens to be the key.
research is also run with a query callback, get_path also with its ``default`` keyword (an item that is there comes back
itself - None, 0, '' and empty containers included).

Two-entry dicts also take "look-alike" key pairs (0 and '0', -1 and '-1', 'a' and b'a', a tuple key next to its member ...)
that a path lookup must keep apart.  A directed part (not an exhaustive space) runs the default callbacks, research+get_path
and two keep-everything tables on chains nested deeper than the recursion limit and on containers of 2**k +- 1 items.
"""
import ast
import contextlib
import itertools
import signal
import sys

from mc import core, inputs

PROPERTY = 'C08'
LEVEL = 'exploration'

CASE_CPU_S = 2.0          # CPU budget (user time of the worker) per remap/research call; a normal call takes ~20 us
STEP_LIMIT = 400          # visit calls per remap call; a correct remap makes one per child slot (<= N)
MAX_HANGS = 1             # a shard stops after this many exhausted budgets

LEAVES = (0, 1, 'a')


def PY(v):
    """Spec of a scalar that JSON cannot carry (bytes, complex): its Python literal."""
    return {'py': repr(v)}


# Vocabulary 1 ("other scalar kinds, other key kinds"), enumerated on smaller structures: the statement says *arbitrary*
# scalar leaves, so one representative of every built-in scalar kind that is not in vocabulary 0 - None, both bools
# (the values visit itself returns), a float, the empty and a multi-character str (a str is a Sequence of itself),
# bytes with a zero byte (a Sequence of ints) and a complex number;
LEAVES1 = (None, False, True, 2.5, '', 'ab', PY(b'\x00a'), PY(2j))
# and dict keys that collide with something else a path segment could mean: attribute names of dict / list / every
# object / int, a digit string (looks like a list index), a dotted string (get_path splits *string* paths at dots),
# a negative int and a float.
KEYS1 = ('items', 'index', '__class__', 'real', '0', 'a.b', -1, 2.5)
# Key kinds of their own, each alone in a one-entry dict: a bool (indexes a list like 1 / 0 would), a tuple (a path is a
# tuple of keys: a key that is itself a tuple must stay one segment), the empty tuple, bytes and an int beyond 64 bits.
KEYS1_ALONE = (True, False, PY((0,)), PY(()), PY(b'a'), 2 ** 70)
# "Look-alike" key pairs: two *distinct* keys of one dict that turn into each other under a conversion a path lookup
# might apply (int() / float() / str() of a segment, splitting at dots, bytes <-> str): both entries must stay separately
# addressable.  Every pair is offered in both orders.
LOOKALIKE0 = ((0, '0'),)                                       # vocabulary 0 (structures of <= rich_keys_upto nodes)
LOOKALIKE1 = ((-1, '-1'), (2.5, '2.5'), (1, '1'), (1, '01'), (0, '-0'), (0, ''), (None, 'None'), (True, 'True'),
              ('a', PY(b'a')), ('a.b', 'a'), ('a', 'A'), (PY((0,)), 0), (PY((0,)), '(0,)'), (2 ** 70, str(2 ** 70)))
_VOC = [LEAVES, None]          # the vocabulary the generators below draw from: [leaves, key menu function or None]
CONTAINERS = (list, tuple, dict, set, frozenset)
MUTABLE = (list, dict, set)
TAGS = {'L': list, 'T': tuple, 'D': dict, 'S': set, 'F': frozenset}
ACTIONS = ('T', 'F', 'S', 'X', 'K')      # True, False, same pair, value -> 'X', key -> 'K'
# Key-rewriting actions beyond the constant 'K': 'N' turns an int key k into ~k (list / tuple indexes 0, 1, 2 become the
# *descending* keys -1, -2, -3), 'W' swaps key and value of a scalar item (the new key depends on the value).  In a
# dict the returned key is the new key; for an item of a list / tuple the recursive rebuild keeps the item's position
# whatever key comes back.  Not run on structures with set members (what they do depends on the key of a set member).
KEY_ACTIONS = ('T', 'F', 'N', 'W')


_ABSENT = type('Absent', (), {'__repr__': lambda self: '<ABSENT>'})()
DEFAULTS = (('sentinel', _ABSENT), ('None', None))      # values for get_path's `default` keyword


class Budget(BaseException):
    """Step or CPU budget exhausted.  BaseException: remap's `except Exception` around visit must not swallow it."""


def _on_timer(signum, frame):
    raise Budget('cpu')


def _arm():
    signal.signal(signal.SIGVTALRM, _on_timer)


def iu():
    from boltons import iterutils
    return iterutils


# ======================================================================================================
# terms: enumeration

def key_menus1(k, rich):
    """Vocabulary 1: every key alone; every key followed by its successor (cyclically) for two entries, and the
    look-alike pairs in both orders; rotations."""
    if k == 0:
        return [()]
    m = len(KEYS1)
    if k == 1:
        return [(key,) for key in KEYS1 + KEYS1_ALONE]
    out = [tuple(KEYS1[(i + j) % m] for j in range(k)) for i in range(m)]
    if k == 2:
        out += [pair[::d] for pair in LOOKALIKE1 for d in (1, -1)]
    return out


def key_menus(k, rich):
    """Key sequences offered to a dict with k entries."""
    if _VOC[1] is not None:
        return _VOC[1](k, rich)
    if k == 0:
        return [()]
    if rich and k <= 2:
        # None as a key must not be taken for "no key": alone, and before/after a string key
        extra = [(None,), ('',)] if k == 1 else [(None, 'a'), ('a', None), ('', 'a')]     # '' : an empty path segment
        if k == 2:
            extra += [pair[::d] for pair in LOOKALIKE0 for d in (1, -1)]
        return list(itertools.permutations(('a', 0, 'K'), k)) + extra
    base = ('a', 0, 'K', 'b', 'c', 'd')
    if rich:
        return [base[:k], ('K',) + base[:2] + base[3:k], (0, 'K', 'a') + base[3:k]]
    return [base[:k]]


def _set_order_ok(kids):
    """Set members are unordered: scalar members are listed first, in increasing order, each at most once."""
    last, seen_container, leaves = -1, False, _VOC[0]
    for kid in kids:
        if isinstance(kid, list):
            seen_container = True
            continue
        if seen_container:
            return False
        i = [j for j, lf in enumerate(leaves) if type(lf) is type(kid) and lf == kid][0]      # True == 1: compare types
        if i <= last:
            return False
        last = i
    return True


def gen_term(n, nc, hashable, rich):
    """All terms of exactly n nodes; nc = number of containers defined before (in pre-order).
    Yields (spec, number of containers defined after)."""
    tags = 'TF' if hashable else 'LTDSF'
    if n == 1:
        for v in _VOC[0]:
            yield v, nc
        for i in range(nc):
            yield ['r', i], nc
        for tag in tags:
            yield [tag], nc + 1
        return
    for tag in tags:
        for kids, nc2 in gen_kids(n - 1, nc + 1, hashable or tag in 'SF', rich):
            if tag == 'D':
                for keys in key_menus(len(kids), rich):
                    yield ['D'] + [[k, kid] for k, kid in zip(keys, kids)], nc2
            elif tag in 'SF':
                if _set_order_ok(kids):
                    yield [tag] + kids, nc2
            else:
                yield [tag] + kids, nc2


def gen_kids(budget, nc, hashable, rich, first_size=None, pick=None):
    """All child sequences with exactly `budget` nodes in total.  first_size / pick=(r, m) restrict the first child
    (its size; its index in the enumeration modulo m) - used to cut the enumeration into shards."""
    if budget == 0:
        yield [], nc
        return
    sizes = range(1, budget + 1) if first_size is None else (first_size,)
    for s in sizes:
        for j, (first, nc1) in enumerate(gen_term(s, nc, hashable, rich)):
            if pick is not None and j % pick[1] != pick[0]:
                continue
            for rest, nc2 in gen_kids(budget - s, nc1, hashable, rich):
                yield [first] + rest, nc2


def gen_roots(shard, rich):
    """Root terms of one shard = (n, tag, first child size, r, m, vocabulary), simplest first."""
    n, tag, s1, r, m, voc = shard
    _VOC[:] = [LEAVES1, key_menus1] if voc else [LEAVES, None]
    if n == 1:
        yield [tag]
        return
    for kids, _ in gen_kids(n - 1, 1, tag in 'SF', rich, first_size=s1, pick=(r, m)):
        if tag == 'D':
            for keys in key_menus(len(kids), rich):
                yield ['D'] + [[k, kid] for k, kid in zip(keys, kids)]
        elif tag in 'SF':
            if _set_order_ok(kids):
                yield [tag] + kids
        else:
            yield [tag] + kids


WAYS = {4: 8, 5: 16, 6: 64}


def shard_list(sizes, voc=0):
    out = []
    for n in sizes:
        for tag in 'LTDSF':
            if n == 1:
                out.append((1, tag, 0, 0, 1, voc))
                continue
            for s1 in range(1, n):
                m = WAYS.get(n, 1) * (4 if voc else 1)
                for r in range(m):
                    out.append((n, tag, s1, r, m, voc))
    return out


# ------------------------------------------------------------------------------------------------------
# twins: two or three *distinct but equal* containers in one structure (no object is shared).  remap recognises an
# object it has already rebuilt by identity; equal is not identical: each copy is entered, visited under its own path
# and rebuilt from its own leaves.  The copies may differ in the type of equal leaves (0 == False == 0.0).

TWIN_UPTO = 3                                       # nodes of the repeated container
TWIN_VARIANTS = (None, {0: False, 1: True}, {0: 0.0, 1: 1.0})
TWIN_CONTEXTS = ('L2', 'T2', 'D2', 'L3', 'deeper2nd', 'deeper1st', 'D-deeper', 'T-deeper')


def gen_plain(n, hashable):
    """Terms of exactly n nodes without back-references (vocabulary 0)."""
    tags = 'TF' if hashable else 'LTDSF'
    if n == 1:
        for v in LEAVES:
            yield v
        for tag in tags:
            yield [tag]
        return
    for tag in tags:
        for kids in _plain_kids(n - 1, hashable or tag in 'SF'):
            if tag == 'D':
                yield ['D'] + [[k, kid] for k, kid in zip(('a', 0, 'K'), kids)]
            elif tag not in 'SF' or _set_order_ok(kids):
                yield [tag] + kids


def _plain_kids(budget, hashable):
    if budget == 0:
        yield []
        return
    for s in range(1, budget + 1):
        for first in gen_plain(s, hashable):
            for rest in _plain_kids(budget - s, hashable):
                yield [first] + rest


def _variant(spec, table):
    if table is None:
        return spec
    if isinstance(spec, list):
        if spec[0] == 'D':
            return ['D'] + [[kv[0], _variant(kv[1], table)] for kv in spec[1:]]
        return [spec[0]] + [_variant(k, table) for k in spec[1:]]
    return table[spec] if type(spec) is int else spec


def gen_twins(shard):
    """shard = ('twin', context): every container term t of <= TWIN_UPTO nodes, its equal copies t' and t'' (leaf types
    varied), put into the context."""
    _VOC[:] = [LEAVES, None]
    context = shard[1]
    for n in range(1, TWIN_UPTO + 1):
        for t in gen_plain(n, False):
            if not isinstance(t, list):
                continue
            pairs, seen = [], set()
            for va, vb in (((None, None), (TWIN_VARIANTS[1], TWIN_VARIANTS[2])) if context == 'L3'
                           else [(None, vb) for vb in TWIN_VARIANTS]):
                ab = (_variant(t, va), _variant(t, vb))
                if repr(ab) not in seen:            # repr: [0] == [False] == [0.0]
                    seen.add(repr(ab))
                    pairs.append(ab)
            for a, b in pairs:
                if True:
                    if context == 'L2':
                        yield ['L', t, b]
                    elif context == 'T2':
                        yield ['T', t, b]
                    elif context == 'D2':
                        yield ['D', ['a', t], ['K', b]]
                    elif context == 'L3':
                        yield ['L', t, a, b]
                    elif context == 'deeper2nd':
                        yield ['L', t, ['L', b]]
                    elif context == 'deeper1st':
                        yield ['L', ['L', t], b]
                    elif context == 'D-deeper':
                        yield ['D', ['a', t], [0, ['T', b]]]
                    else:
                        yield ['T', t, ['T', b]]


# Set members in an order that is not the sorted one.  The key visit receives for a set member is its position in the
# enumeration of the set (enumerate(the_set), as the recursive rebuild does): sets of the small leaves 0, 1 happen to
# iterate in sorted order, sets like {8, 1} / {32, 5, 4} / {16, 3} / {64, 9, 2} do not.  Programs that look at that key
# (echo; dropkey: drop the members at even / odd positions) tell an enumeration in another order.
SETORDER_MEMBERS = ((8, 1), (32, 5, 4), (16, 3), (64, 9, 2), (1024, 7), (8, 1, 'a'))
SETORDER_CONTEXTS = ('root', 'in-list', 'in-dict', 'in-tuple', 'two-sets')


def gen_setorder(shard):
    """shard = ('setorder', context): sets and frozensets of SETORDER_MEMBERS in the context."""
    context = shard[1]
    for tag in ('S', 'F'):
        for members in SETORDER_MEMBERS:
            t = [tag] + list(members)
            if context == 'root':
                yield t
            elif context == 'in-list':
                yield ['L', t, 0]
            elif context == 'in-dict':
                yield ['D', ['a', t], [0, 1]]
            elif context == 'in-tuple':
                yield ['T', 0, t]
            else:
                for other in SETORDER_MEMBERS[:3]:
                    yield ['L', t, ['F'] + list(other)]


def setorder_programs(flags, root):
    out = [{'kind': 'default'}, {'kind': 'research'}, {'kind': 'echo'}, {'kind': 'dropkey', 'parity': 0},
           {'kind': 'dropkey', 'parity': 1}]
    return out + _distinct_on(BASIC_TABLES, cells_of(root))


# Key aliases: a hashable container (tuple / frozenset) h that is *the same object* as a value somewhere and as a dict
# key somewhere else.  remap's registry maps id(old container) -> rebuilt container; a key is not an item, the
# recursive rebuild hands it to visit as it is and takes the key visit returns.
KEYALIAS_UPTO = 3
KEYALIAS_CONTEXTS = ('L-value-then-key', 'L-key-then-value', 'D-same-dict', 'D-own-value', 'D-deeper', 'T-key-and-value',
                     'S-member-then-key', 'L-inner-as-key')


def gen_keyalias(shard):
    """shard = ('keyalias', context): every hashable container term h of <= KEYALIAS_UPTO nodes in the context."""
    _VOC[:] = [LEAVES, None]
    context = shard[1]
    for n in range(1, KEYALIAS_UPTO + 1):
        for h in gen_plain(n, True):
            if not isinstance(h, list):
                continue
            if context == 'L-value-then-key':
                yield ['L', h, ['D', [{'ref': 1}, 0], ['a', 1]]]
            elif context == 'L-key-then-value':
                yield ['L', ['D', [{'ref': 2}, 0]], h]
            elif context == 'D-same-dict':
                yield ['D', ['a', h], [{'ref': 1}, 1]]
            elif context == 'D-own-value':
                yield ['D', [{'ref': 1}, h]]
            elif context == 'D-deeper':
                yield ['D', ['a', ['T', h]], [0, ['D', [{'ref': 2}, 'a']]]]
            elif context == 'T-key-and-value':
                yield ['T', h, ['D', [{'ref': 1}, ['r', 1]]]]
            elif context == 'S-member-then-key':
                yield ['L', ['S', h], ['D', [{'ref': 2}, 0]]]
            elif len(h) > 1 and isinstance(h[1], list):      # the first member of h, itself a container, is the key
                yield ['L', h, ['D', [{'ref': 2}, 0], [0, 1]]]


# ======================================================================================================
# terms: construction

class Impossible(Exception):
    pass


class _Node:
    __slots__ = ('tag', 'keys', 'kids', 'obj', 'busy', 'filled')


class _KeyRef:
    """Dict key spec {'ref': i}: the key is *the same object* as the i-th container of the term (a tuple / frozenset)."""
    __slots__ = ('idx',)

    def __init__(self, idx):
        self.idx = idx


def _parse_key(k, flags):
    if isinstance(k, dict):
        if 'ref' in k:
            flags['refs'] += 1
            flags['key_alias'] = True
            return _KeyRef(k['ref'])
        return ast.literal_eval(k['py'])
    return k


def _parse(spec, nodes, anc, flags):
    """spec -> leaf value | ('r', i) | _Node; fills nodes (pre-order) and flags."""
    if isinstance(spec, dict):
        return ast.literal_eval(spec['py'])
    if not isinstance(spec, list):
        return spec
    if spec[0] == 'r':
        i = spec[1]
        flags['refs'] += 1
        if i in anc:
            flags['cycle'] = True
            if nodes[i].tag == 'T' or nodes[i].tag == 'F':
                flags['tuple_cycle'] = True
        return ('r', i)
    nd = _Node()
    nd.tag, nd.obj, nd.busy, nd.filled = spec[0], None, False, False
    idx = len(nodes)
    nodes.append(nd)
    if anc:
        flags['nested'] = True
    anc = anc | {idx}
    if nd.tag == 'D':
        nd.keys = [_parse_key(kv[0], flags) for kv in spec[1:]]
        nd.kids = [_parse(kv[1], nodes, anc, flags) for kv in spec[1:]]
        if len(nd.keys) == 2 and _is_lookalike(nd.keys):
            flags['lookalike'] = True
    else:
        nd.keys = None
        nd.kids = [_parse(s, nodes, anc, flags) for s in spec[1:]]
    if nd.tag in 'SF' and nd.kids:
        flags['set_members'] = True
    return nd


def _unpy(k):
    return ast.literal_eval(k['py']) if isinstance(k, dict) else k


def _is_lookalike(keys):
    for pair in LOOKALIKE0 + LOOKALIKE1:
        a, b = _unpy(pair[0]), _unpy(pair[1])
        for x, y in ((a, b), (b, a)):
            if type(keys[0]) is type(x) and keys[0] == x and type(keys[1]) is type(y) and keys[1] == y:
                return True
    return False


def build(spec):
    """-> (root object, flags).  Raises Impossible when no such Python object graph exists."""
    nodes, flags = [], {'refs': 0, 'cycle': False, 'tuple_cycle': False, 'nested': False, 'set_members': False,
                        'lookalike': False, 'key_alias': False}
    top = _parse(spec, nodes, frozenset(), flags)
    queue = []

    def create(x):
        if isinstance(x, tuple):
            x = nodes[x[1]]
        elif not isinstance(x, _Node):
            return x
        if x.obj is not None:
            return x.obj
        t = TAGS[x.tag]
        if t in MUTABLE:
            x.obj = t()
            queue.append(x)
            return x.obj
        if x.busy:
            raise Impossible('cycle through immutable containers only')
        x.busy = True
        vals = [create(k) for k in x.kids]
        try:
            obj = t(vals)
        except TypeError:
            raise Impossible('unhashable member')
        if t is frozenset and len(obj) != len(vals):
            raise Impossible('duplicate members')
        x.obj = obj
        return obj

    root = create(top)
    while queue:
        x = queue.pop(0)
        vals = [create(k) for k in x.kids]
        if x.tag == 'L':
            x.obj.extend(vals)
        elif x.tag == 'D':
            for k, v in zip(x.keys, vals):
                if isinstance(k, _KeyRef):
                    k = create(nodes[k.idx])
                try:
                    x.obj[k] = v
                except TypeError:
                    raise Impossible('unhashable key')
            if flags['key_alias'] and len(x.obj) != len(vals):
                raise Impossible('duplicate keys')
        else:
            try:
                x.obj.update(vals)
            except TypeError:
                raise Impossible('unhashable member')
            if len(x.obj) != len(vals):
                raise Impossible('duplicate members')
    flags['containers'] = len(nodes)
    return root, flags


# ======================================================================================================
# reference: the straightforward bottom-up recursive rebuild (memoised on object identity)

def reference(root, visit):
    memo = {}

    def rebuild(path, key, x, is_root=False):
        if not isinstance(x, CONTAINERS):
            return x
        if id(x) in memo:
            return memo[id(x)]
        t = type(x)
        new = memo[id(x)] = t() if t in MUTABLE else _IN_PROGRESS
        sub = path if is_root else path + (key,)
        items = []
        for k, v in (list(x.items()) if t is dict else enumerate(x)):
            nv = rebuild(sub, k, v)
            if nv is _IN_PROGRESS:
                raise Impossible('back-reference to an immutable container that is still being rebuilt')
            r = visit(sub, k, nv)
            if r is False:
                continue
            items.append((k, nv) if r is True else r)
        if t is dict:
            for k, v in items:
                new[k] = v
        elif t is list:
            new.extend(v for _, v in items)
        elif t is set:
            new.update(v for _, v in items)
        else:
            new = memo[id(x)] = t(v for _, v in items)
        return new
    return rebuild((), None, root, True)


_IN_PROGRESS = object()


# ======================================================================================================
# visit programs

def _vkind(v):
    return 0 if isinstance(v, CONTAINERS) else (1 if (v == 0 and type(v) is int) else 2)


def make_visit(prog):
    """-> visit(path, key, value) implementing the program, with a step budget."""
    kind = prog['kind']
    count = [0]
    limit = prog.get('steps', STEP_LIMIT)

    def act(a, key, value):
        if a == 'T':
            return True
        if a == 'F':
            return False
        if a == 'S':
            return (key, value)
        if a == 'X':
            return (key, 'X')
        if a == 'N':
            return (~key, value) if type(key) is int else (key, value)
        if a == 'W':
            return True if isinstance(value, CONTAINERS) else (value, key)
        return ('K', value)

    def tick():
        count[0] += 1
        if count[0] > limit:
            raise Budget('steps')

    acts = prog.get('acts')
    if kind == 'vk':
        def visit(path, key, value):
            tick()
            return act(acts[_vkind(value)], key, value)
    elif kind == 'vkk':
        def visit(path, key, value):
            tick()
            return act(acts[_vkind(value) * 2 + (1 if isinstance(key, str) else 0)], key, value)
    elif kind == 'depth':
        def visit(path, key, value):
            tick()
            return act(acts[len(path) % 2], key, value)
    elif kind == 'echo':
        def visit(path, key, value):
            tick()
            if isinstance(value, CONTAINERS):
                return True
            return (key, ('P',) + tuple(path) + (key,))
    elif kind == 'dropkey':
        # drops the scalar items whose key is an int of the given parity: in a list / tuple / set that is "every other
        # item in enumeration order" - which member of a set that is depends on the order its members are handed out
        parity = prog['parity']

        def visit(path, key, value):
            tick()
            if isinstance(value, CONTAINERS) or type(key) is not int:
                return True
            return key % 2 != parity
    else:
        raise AssertionError(kind)
    return visit


def cells_of(root):
    """The feature cells the visit function of any program is consulted on for this structure: the reference rebuild
    run with a recording keep-everything visit (the cells do not depend on the actions: every child slot of every
    distinct container is visited exactly once, and a rebuilt container is still a container)."""
    cells = set()

    def rec(path, key, value):
        cells.add((_vkind(value), 1 if isinstance(key, str) else 0, len(path) % 2))
        return True
    reference(root, rec)
    return cells


def _projection(prog, cells):
    kind, acts = prog['kind'], prog.get('acts')
    if kind == 'vk':
        return ('vk',) + tuple(acts[c] for c in sorted({c[0] for c in cells}))
    if kind == 'vkk':
        return ('vkk',) + tuple(acts[c] for c in sorted({c[0] * 2 + c[1] for c in cells}))
    if kind == 'depth':
        return ('depth',) + tuple(acts[c] for c in sorted({c[2] for c in cells}))
    return None


def _tables(kind):
    if kind == 'basic':
        return ([{'kind': 'vk', 'acts': list(acts)} for acts in itertools.product(ACTIONS, repeat=3)]
                + [{'kind': 'depth', 'acts': list(acts)} for acts in itertools.product(ACTIONS, repeat=2)])
    out, nondef = [], ACTIONS[1:]
    for k in (0, 1, 2):
        for cells in itertools.combinations(range(6), k):
            for choice in itertools.product(nondef, repeat=k):
                acts = ['T'] * 6
                for c, a in zip(cells, choice):
                    acts[c] = a
                out.append({'kind': 'vkk', 'acts': acts})
    return out


def _key_tables():
    """Value-kind tables over the key-rewriting actions: container -> True / 'N', the two scalar kinds -> True, False,
    'N', 'W'; at least one cell rewrites a key (the others are among the basic tables)."""
    out = []
    for acts in itertools.product(('T', 'N'), KEY_ACTIONS, KEY_ACTIONS):
        if 'N' in acts or 'W' in acts:
            out.append({'kind': 'vk', 'acts': list(acts)})
    return out


KEY_TABLES = _key_tables()            # 28 tables
BASIC_TABLES = _tables('basic')       # 125 value-kind tables + 25 len(path)-parity tables
RICH_TABLES = _tables('rich')         # 265 tables over value kind x key-is-str with <= 2 non-default cells
FULL_UPTO = 4                         # structures of <= 4 nodes run every basic table, in both tiers
DEFAULT_ONLY_FROM = 6                 # structures of >= 6 nodes (thorough): default callbacks, research, path-echo
# remap's documented print-only option ``trace`` must not change what remap returns: the default callbacks and the five
# uniform tables (one action everywhere) are run again with each trace setting on small structures, and the default
# callbacks and the "same pair" table with trace=True on structures of up to TRACE_UPTO nodes.
TRACES = (True, 'enter', 'visit', 'exit')
UNIFORM_TABLES = [{'kind': 'vk', 'acts': [a] * 3} for a in ACTIONS]
TRACE_FULL_UPTO = 3
TRACE_UPTO = 5


def _distinct_on(tables, cells):
    """Tables that agree on every cell occurring in the structure are the same program on it: keep one of each."""
    if cells is None:
        return tables
    seen, out = set(), []
    for p in tables:
        k = _projection(p, cells)
        if k not in seen:
            seen.add(k)
            out.append(p)
    return out


def programs(tier, n, flags, root=None):
    """Programs run on a structure of n nodes (simplest first)."""
    out = [{'kind': 'default'}, {'kind': 'research'}]
    if not flags['set_members']:
        out.append({'kind': 'echo'})
    if n <= TRACE_FULL_UPTO:
        traced = [dict(p, trace=tr) for tr in TRACES for p in [{'kind': 'default'}] + UNIFORM_TABLES]
    elif n <= TRACE_UPTO:
        traced = [{'kind': 'default', 'trace': True}, dict(UNIFORM_TABLES[2], trace=True)]
    else:
        traced = []
    if n >= DEFAULT_ONLY_FROM:
        return out + traced
    if flags['lookalike']:
        # a dict with a look-alike key pair: the programs whose outcome can depend on which key is which
        return out + UNIFORM_TABLES + traced
    if tier == 'quick' or n <= FULL_UPTO:
        out += BASIC_TABLES
        if not flags['set_members']:
            out += KEY_TABLES
        if tier == 'quick':
            return out + traced
    cells = None if flags['tuple_cycle'] else cells_of(root)
    if n > FULL_UPTO:
        out += _distinct_on(BASIC_TABLES, cells)
        if not flags['set_members']:
            out += _distinct_on(KEY_TABLES, cells)
    if not flags['set_members']:          # the key of a set member is not specified by the statement
        out += _distinct_on(RICH_TABLES, cells)
    return out + traced


def twin_programs(flags, root):
    """Programs run on a twin structure: as for a small structure, tables that are the same program on it run once."""
    out = [{'kind': 'default'}, {'kind': 'research'}]
    cells = cells_of(root)
    out += _distinct_on(BASIC_TABLES, cells)
    if not flags['set_members']:
        out.append({'kind': 'echo'})
        out += _distinct_on(KEY_TABLES, cells)
    return out


# ======================================================================================================
# observation helpers

def render(obj):
    """Text of a possibly shared / cyclic structure: '#1=[0, #2=(1,), #2, #1]' (labels only on objects met twice)."""
    count = {}

    def scan(x):
        if isinstance(x, CONTAINERS):
            if not (type(x) in (tuple, frozenset) and not x):
                count[id(x)] = count.get(id(x), 0) + 1
                if count[id(x)] > 1:
                    return
            for v in (x.values() if isinstance(x, dict) else x):
                scan(v)
    try:
        scan(obj)
    except Exception as e:      # noqa - e.g. RecursionError on a structure nested deeper than the recursion limit
        return '<unrenderable %s: %s>' % (type(obj).__name__, type(e).__name__)
    label = {}

    def txt(x):
        if not isinstance(x, CONTAINERS):
            return repr(x)
        pre = ''
        if count.get(id(x), 0) > 1:
            if id(x) in label:
                return '#%d' % label[id(x)]
            label[id(x)] = len(label) + 1
            pre = '#%d=' % label[id(x)]
        if isinstance(x, dict):
            body = '{%s}' % ', '.join('%r: %s' % (k, txt(v)) for k, v in x.items())
        elif isinstance(x, list):
            body = '[%s]' % ', '.join(txt(v) for v in x)
        elif isinstance(x, tuple):
            body = '(%s%s)' % (', '.join(txt(v) for v in x), ',' if len(x) == 1 else '')
        else:
            name = 'frozenset' if isinstance(x, frozenset) else 'set'
            body = '%s({%s})' % (name, ', '.join(sorted(txt(v) for v in x)))
        return pre + body
    try:
        return txt(obj)
    except Exception as e:      # noqa - rendering a mutant's output must never break the harness
        return '<unrenderable %s: %s>' % (type(obj).__name__, type(e).__name__)


def snapshot(root):
    """Identity-level picture of everything reachable from root: id -> (type, children as ids / scalars)."""
    seen, keep, stack = {}, [], [root]
    while stack:
        x = stack.pop()
        if id(x) in seen:
            continue
        keep.append(x)
        pairs = list(x.items()) if isinstance(x, dict) else list(enumerate(x))
        desc = []
        for k, v in pairs:
            if isinstance(v, CONTAINERS):
                desc.append((type(k), k, id(v)))
                stack.append(v)
            else:
                desc.append((type(k), k, type(v), v))
        seen[id(x)] = (type(x), tuple(desc))
    return seen, keep


def reachable_mutable(root):
    seen, stack, out = set(), [root], set()
    while stack:
        x = stack.pop()
        if not isinstance(x, CONTAINERS) or id(x) in seen:
            continue
        seen.add(id(x))
        if isinstance(x, MUTABLE):
            out.add(id(x))
        stack.extend(x.values() if isinstance(x, dict) else x)
    return out


def iso(a, b):
    """None when b (observed) is isomorphic to a (expected), else the kind of the first difference met:
    'container-type' (both containers, of different types), 'sharing' (aliasing / cycles) or 'content' (length, keys,
    order, scalar values, scalar where a container is expected).
    Same types, keys, order, scalars; an object shared in `a` is shared in `b`; two distinct mutable containers of
    `a` are distinct in `b`; members of sets are matched by equality (unordered)."""
    fwd, bwd = {}, {}
    todo = [(a, b)]                 # explicit stack, children pushed in reverse: the order of a recursive descent,
    try:                            # without its depth limit (structures nested deeper than the recursion limit)
        while todo:
            x, y = todo.pop()
            if type(x) is not type(y):
                return 'container-type' if isinstance(x, CONTAINERS) and isinstance(y, CONTAINERS) else 'content'
            if not isinstance(x, CONTAINERS):
                if x == y:
                    continue
                return 'content'
            if len(x) != len(y):
                return 'content'
            t = type(x)
            if not (t in (tuple, frozenset) and not x):      # the empty tuple / frozenset are interpreter singletons
                if id(x) in fwd:
                    if fwd[id(x)] is y:
                        continue
                    return 'sharing'
                if t in MUTABLE:
                    if id(y) in bwd:
                        return 'sharing'
                    bwd[id(y)] = x
                fwd[id(x)] = y
            if t is dict:
                pairs = []
                for (kx, vx), (ky, vy) in zip(x.items(), y.items()):
                    if type(kx) is not type(ky) or kx != ky:
                        return 'content'
                    pairs.append((vx, vy))
            elif t in (list, tuple):
                pairs = list(zip(x, y))
            else:
                table = {m: m for m in y}
                pairs = []
                for vx in x:
                    if vx not in table:
                        return 'content'
                    pairs.append((vx, table[vx]))
            todo.extend(reversed(pairs))
        return None
    except (RecursionError, TypeError):
        return 'content'


def guarded(fn, cpu=None):
    """-> ('ok', value) | ('raised', ExceptionTypeName) | ('hang', which budget)"""
    signal.setitimer(signal.ITIMER_VIRTUAL, cpu or CASE_CPU_S)
    try:
        try:
            return ('ok', fn())
        finally:
            signal.setitimer(signal.ITIMER_VIRTUAL, 0)
    except Budget as b:
        return ('hang', str(b))
    except Exception as e:       # noqa - any exception of the code under test is an observation
        return ('raised', type(e).__name__)


def walk_through_set(root, path):
    """Does following `path` from root have to index into a set / frozenset?  (own walker, not get_path)"""
    cur = root
    for seg in path:
        if isinstance(cur, (set, frozenset)):
            return True
        try:
            cur = cur[seg]
        except Exception:    # noqa
            return False
    return False


# ======================================================================================================
# one case = (structure, program)

def progname(prog):
    return prog['kind'] + ('+trace' if prog.get('trace') else '')


class _NullOut:
    """Where remap's trace output goes."""

    def write(self, text):
        return len(text)

    def flush(self):
        pass


def call_remap(I, root, prog, **kw):
    """remap(root, **kw), with the program's trace setting (print-only by its documentation) when it has one."""
    tr = prog.get('trace')
    if not tr:
        return I.remap(root, **kw)
    with contextlib.redirect_stdout(_NullOut()):
        return I.remap(root, trace=tr, **kw)


def _short_render(x):
    """Large structures: a bounded excerpt."""
    text = render(x)
    return text if len(text) <= 300 else text[:300] + '... (%d characters)' % len(text)


def run_case(root, flags, prog, snap):
    """-> list of (signature, expected, observed, tags)"""
    I = iu()
    kind = prog['kind']
    out = []
    big = flags.get('big')
    cpu = BIG_CPU_S if big else None
    rend = _short_render if big else render

    def ptxt(path):
        return repr(path) if len(path) <= 12 else '(%s, ... %d segments ..., %s)' % (
            repr(path[:3])[1:-1], len(path) - 6, repr(path[-3:])[1:-1])

    def check_input(fn):
        if snapshot(root)[0] != snap[0]:
            out.append(('C08|fn:%s|input-mutated' % fn, 'input unchanged: ' + snap[2], rend(root), ()))

    if kind == 'research':
        res = guarded(lambda: I.research(root), cpu)
        if res[0] == 'hang':
            return [('C08|fn:research|terminates', 'returns', 'no result within the %s budget' % res[1], ())]
        check_input('research')
        if res[0] == 'raised':
            out.append(('C08|fn:research|raised', 'a list of (path, value)', 'raised ' + res[1], ()))
            return out
        entries = [('', ent) for ent in res[1]]
        if not big:
            # research with a query callback (here: the scalar items): what it reports is retrievable just the same
            res2 = guarded(lambda: I.research(root, query=lambda p, k, v: not isinstance(v, CONTAINERS)), cpu)
            if res2[0] == 'ok':
                entries += [('(query=scalars)', ent) for ent in res2[1]]
            else:
                out.append(('C08|fn:research(query=scalars)|%s' % ('terminates' if res2[0] == 'hang' else 'raised'),
                            'a list of (path, value)', '%s %s' % (res2[0], res2[1]), ()))
            check_input('research')
        reported = set()                      # at most one report per failing input class (tag set) and structure
        for qual, ent in entries:
            try:
                path, value = ent
                path = tuple(path)
            except Exception:    # noqa
                out.append(('C08|fn:research%s|result-shape' % qual, '(path, value) pairs', repr(ent)[:200], ()))
                break
            if path == (None,) and value is root:
                continue                      # the root's own entry is not a nested item
            got = guarded(lambda: I.get_path(root, path))
            if got[0] == 'ok':
                v = got[1]
                same = (v is value) if isinstance(value, CONTAINERS) else (type(v) is type(value) and v == value)
                if same:
                    # the same retrieval with get_path's documented keyword `default` (returned only when the path
                    # cannot be followed): an item that is there comes back itself, whatever its value
                    for dname, dflt in DEFAULTS[:1] if big else DEFAULTS:
                        g2 = guarded(lambda: I.get_path(root, path, default=dflt))
                        if g2[0] == 'ok' and ((g2[1] is value) if isinstance(value, CONTAINERS) else
                                              (type(g2[1]) is type(value) and g2[1] == value)):
                            continue
                        if (qual, 'default', dname) not in reported:
                            reported.add((qual, 'default', dname))
                            out.append(('C08|fn:research%s+get_path(default=%s)|reported-path-not-retrievable'
                                        % (qual, dname),
                                        'get_path(root, %s, default=%s) is %s' % (ptxt(path), dname, rend(value)),
                                        ('returned the default' if g2[1] is dflt else 'returned ' + rend(g2[1]))
                                        if g2[0] == 'ok' else '%s %s' % (g2[0], g2[1]), ()))
                    continue
                obs = 'get_path(root, %s) returned %s' % (ptxt(path), rend(v))
            else:
                obs = 'get_path(root, %s) %s %s' % (ptxt(path), got[0], got[1])
            tags = ('path_through_set',) if walk_through_set(root, path) else ()
            if qual and tags:
                continue          # paths through set members (a listed finding): reported by the plain call above
            if (qual, tags) not in reported:
                reported.add((qual, tags))
                out.append(('C08|fn:research%s+get_path|reported-path-not-retrievable' % qual,
                            'get_path(root, %s) is %s' % (ptxt(path), rend(value)), obs, tags))
        return out

    if kind == 'default':
        dc = 'default-callbacks+trace' if prog.get('trace') else 'default-callbacks'
        res = guarded(lambda: call_remap(I, root, prog), cpu)
        if res[0] == 'hang':
            return [('C08|fn:remap|%s:terminates' % dc, 'returns', 'no result within the %s budget' % res[1], ())]
        check_input('remap')
        if flags['tuple_cycle']:
            # no finite bottom-up rebuild exists, so "equal deep copy" is not demanded - but whatever is returned is
            # demanded to share no mutable container with the input (stated for every input, cycles included)
            if res[0] == 'ok' and reachable_mutable(root) & reachable_mutable(res[1]):
                out.append(('C08|fn:remap|%s:shares-mutable-container-with-input' % dc,
                            'no list/dict/set object reachable from both', rend(res[1]), ()))
            return out
        if res[0] == 'raised':
            out.append(('C08|fn:remap|%s:raised' % dc, 'an equal deep copy: ' + snap[2], 'raised ' + res[1], ()))
            return out
        diff = iso(root, res[1])
        if diff:
            out.append(('C08|fn:remap|%s:not-an-equal-deep-copy(%s)' % (dc, diff), snap[2], rend(res[1]), ()))
        elif reachable_mutable(root) & reachable_mutable(res[1]):
            out.append(('C08|fn:remap|%s:shares-mutable-container-with-input' % dc,
                        'no list/dict/set object reachable from both', rend(res[1]), ()))
        return out

    name = progname(prog)
    res = guarded(lambda: call_remap(I, root, prog, visit=make_visit(prog)), cpu)
    if res[0] == 'hang':
        return [('C08|fn:remap|visit=%s:terminates' % name, 'returns', 'no result within the %s budget' % res[1], ())]
    check_input('remap')
    if flags['tuple_cycle']:
        return out
    try:
        if big:      # the recursive reference cannot descend that deep; these programs keep every item, so the
            assert set(prog['acts']) <= {'T', 'S'}      # rebuild is a copy: the expected result is isomorphic to the input
            exp = ('ok', root)
        else:
            exp = ('ok', reference(root, make_visit(prog)))
    except Impossible:
        raise AssertionError('reference met an in-progress immutable container on a structure not flagged tuple_cycle')
    if res[0] == 'raised':
        out.append(('C08|fn:remap|visit=%s:raised' % name, rend(exp[1]), 'raised ' + res[1], ()))
        return out
    diff = iso(exp[1], res[1])
    if diff:
        out.append(('C08|fn:remap|visit=%s:differs-from-recursive-rebuild(%s)' % (name, diff), rend(exp[1]),
                    rend(res[1]), ()))
    return out


def evaluate(spec, prog):
    """Replay entry: build the structure, run one program."""
    root, flags = build(spec)
    snap = snapshot(root) + (render(root),)
    return run_case(root, flags, prog, snap)


# ======================================================================================================
# large structures (directed scenarios, not an exhaustive space): depth beyond the interpreter's recursion limit, widths
# around powers of two.  remap is specified for *any* nesting; its explicit stack, the id registry and the path tuples
# are the parts whose cost / limits depend on scale.

BIG_CPU_S = 120.0
BIG_CHAIN_KINDS = ('L', 'T', 'D', 'LTD')
BIG_WIDE_KINDS = ('L', 'T', 'D', 'S')
BIG_WIDTHS = (255, 257, 65537)


def big_specs():
    lim = sys.getrecursionlimit()
    out = [{'shape': 'chain', 'kinds': k, 'size': d} for d in (lim - 1, lim + 1, 2 * lim + 1) for k in BIG_CHAIN_KINDS]
    out += [{'shape': 'wide', 'kinds': k, 'size': w} for w in BIG_WIDTHS for k in BIG_WIDE_KINDS]
    return out


def build_big(spec):
    """-> (root, flags, description, number of child slots)"""
    size, kinds = spec['size'], spec['kinds']
    shared = [0]
    flags = {'refs': 1, 'cycle': False, 'tuple_cycle': False, 'nested': True, 'set_members': False, 'lookalike': False,
             'big': True}
    if spec['shape'] == 'chain':
        # `size` containers nested in each other (kinds cycling, outermost first: kinds[0]); every level also holds one
        # and the same list `shared`; the innermost list points back to the outermost container when that is mutable
        bottom = cur = ['a', shared]
        slots = 2
        for i in range(size - 1):
            kind = kinds[(size - 2 - i) % len(kinds)]
            if kind == 'L':
                cur = [cur, shared]
                slots += 2
            elif kind == 'T':
                cur = (cur, shared, i)
                slots += 3
            else:
                cur = {'a': cur, i: shared, str(i): i}
                slots += 3
        if isinstance(cur, MUTABLE) and cur is not bottom:
            bottom.append(cur)
            slots += 1
            flags['cycle'] = True
        desc = ('chain of %d nested containers, kinds %s repeating from the outside, each level also holding one shared '
                'list%s' % (size, '/'.join(kinds), '; innermost list refers back to the root' if flags['cycle'] else ''))
        return cur, flags, desc, slots
    shared_d = {'k': shared}

    def item(i):
        r = i % 4
        return 1000 + i if r == 0 else shared_d if r == 1 else (i, shared) if r == 2 else [i]
    if kinds == 'L':
        root = [item(i) for i in range(size)]
        root.append(root)
        flags['cycle'] = True
    elif kinds == 'T':
        root = tuple(item(i) for i in range(size))
    elif kinds == 'D':
        root = {}
        for i in range(size // 2):
            root[i] = item(i)               # int key and its decimal spelling side by side
            root[str(i)] = (i,)
        root['self'] = root
        flags['cycle'] = True
    else:
        root = set((i, i) if i % 2 else 1000 + i for i in range(size))
        flags['set_members'] = True
    desc = 'wide %s of %d items (ints, one shared dict, tuples around one shared list, fresh lists%s)' % (
        type(root).__name__, len(root), '; last item is the root itself' if flags['cycle'] else '')
    slots = len(root) + 2 * size
    return root, flags, desc, slots


def big_programs(slots):
    steps = 2 * slots + 100
    return [{'kind': 'default'}, {'kind': 'research'},
            {'kind': 'vk', 'acts': ['S'] * 3, 'steps': steps}, {'kind': 'vk', 'acts': ['T', 'S', 'T'], 'steps': steps}]


def evaluate_big(spec, prog):
    root, flags, desc, _ = build_big(spec)
    snap = snapshot(root) + (desc,)
    return run_case(root, flags, prog, snap)


# ======================================================================================================
# run

def bounds(tier):
    if tier == 'quick':
        return {'N': 4, 'rich_keys_upto': 4, 'N1': 3}
    return {'N': 6, 'rich_keys_upto': 4, 'N1': 3}


def run(ctx):
    B = bounds(ctx.tier)
    tier = ctx.tier

    def shard(arg):
        _arm()
        n = arg[0]
        kal = n == 'keyalias'
        sord = n == 'setorder'
        twin = n == 'twin' or kal or sord    # key-alias structures run the programs of a twin structure
        rich = (not twin) and n <= B['rich_keys_upto']
        t = inputs.Tally()
        hangs = 0
        try:
            for spec in (gen_setorder(arg) if sord else gen_keyalias(arg) if kal else gen_twins(arg) if twin
                         else gen_roots(arg, rich)):
                try:
                    root, flags = build(spec)
                except Impossible:
                    t.add('terms_not_constructible', 1)
                    continue
                t.add('structures', 1)
                if sord:
                    t.add('structures_set_order', 1)
                elif kal:
                    t.add('structures_key_aliases', 1)
                elif twin:
                    t.add('structures_twins', 1)
                elif arg[5]:
                    t.add('structures_vocabulary1', 1)
                if flags['tuple_cycle']:
                    t.add('structures_with_cycle_through_tuple', 1)
                elif flags['cycle']:
                    t.add('structures_with_cycle', 1)
                if flags['refs']:
                    t.add('structures_with_aliasing', 1)
                nontrivial = bool(flags['refs'] or flags['nested'])
                snap = snapshot(root) + (render(root),)
                for prog in (setorder_programs(flags, root) if sord else twin_programs(flags, root) if twin
                             else programs(tier, n, flags, root)):
                    case = {'term': spec, 'prog': prog}
                    smp = case if (flags['refs'] and flags['nested'] and prog['kind'] not in ('default', 'research')
                                   and len(t.samples) < 3) else None
                    t.count(nontrivial=nontrivial, sample=smp)
                    bad = run_case(root, flags, prog, snap)
                    for sig, exp, obs, tags in bad:
                        t.bad(sig, dict(case, structure=snap[2]), exp, obs, tags=tags)
                        if sig.endswith('terminates'):
                            hangs += 1
                    if any(sig.endswith('input-mutated') for sig, _, _, _ in bad):
                        root, flags = build(spec)          # continue with a pristine structure
                        snap = snapshot(root) + (render(root),)
                    if hangs >= MAX_HANGS:
                        break
                if hangs >= MAX_HANGS:
                    t.add('stopped_after_hangs', 1)
                    break
        except Budget:           # a stray timer signal outside guarded()
            t.bad('C08|harness:budget|stray-timer', {'shard': list(arg)}, None, None)
        return t

    sizes = range(1, B['N'] + 1)
    rule = ('a case (structure, program) is non-trivial when the structure has a container nested inside the root or at '
            'least one back-reference (shared object or cycle)')
    shards = shard_list(sizes) + shard_list(range(1, B['N1'] + 1), voc=1) + [('twin', c) for c in TWIN_CONTEXTS]
    shards += [('keyalias', c) for c in KEYALIAS_CONTEXTS]
    shards += [('setorder', c) for c in SETORDER_CONTEXTS]
    total = inputs.run_shards(ctx, shard, shards, part='remap+research', rule=rule)

    def big_shard(spec):
        _arm()
        t = inputs.Tally()
        try:
            root, flags, desc, slots = build_big(spec)
            snap = snapshot(root) + (desc,)
            t.add('structures', 1)
            for prog in big_programs(slots):
                case = {'big': spec, 'prog': prog}
                t.count(nontrivial=True, sample=case if prog['kind'] == 'vk' else None)
                bad = run_case(root, flags, prog, snap)
                for sig, exp, obs, tags in bad:
                    t.bad(sig, dict(case, structure=desc), exp, obs, tags=tags)
                if any(sig.endswith('terminates') for sig, _, _, _ in bad):
                    t.add('stopped_after_hangs', 1)
                    break
                if any(sig.endswith('input-mutated') for sig, _, _, _ in bad):
                    root, flags, desc, slots = build_big(spec)
                    snap = snapshot(root) + (desc,)
        except Budget:
            t.bad('C08|harness:budget|stray-timer', {'big': spec}, None, None)
        return t

    specs = big_specs()
    big_total = inputs.run_shards(ctx, big_shard, specs, part='large structures (directed)',
                                  rule='every case: >= 255 containers or items, shared objects')
    cov = ctx.coverage
    capped = bool(total.extra.get('stopped_after_hangs') or big_total.extra.get('stopped_after_hangs'))
    if capped:
        cov['capped'] = 'a shard stopped after a call exhausted its step/CPU budget'
    cov['rule'] = rule
    cov['exhaustive'] = not capped
    basic = ('default callbacks; research+get_path; path-echo (every scalar replaced by its own path; structures without set '
             'members); all 125 value-kind tables (container / 0 / other scalar -> True, False, same pair, value:="X", '
             'key:="K"); all 25 len(path)-parity tables')
    rich_t = ('all 265 tables over value kind x key-is-str with <= 2 non-default cells (structures without set members)')
    same = ' - of tables that agree on every cell occurring in the structure (the same program on it) one is run'
    cov['bounds'] = {
        'structures': 'every term T ::= 0 | 1 | "a" | list | tuple | dict | set | frozenset | ref(i) with <= %d nodes '
                      '(leaf, container and ref each count 1; root is a container; ref(i) = the i-th container in '
                      'pre-order, i.e. every sharing pattern and every cycle)' % B['N'],
        'dict keys': 'structures of <= %d nodes: dicts of 1-2 entries take every ordered choice of distinct keys from '
                     '("a", 0, "K"), dicts of k >= 3 entries three key orders; larger structures: keys "a", 0, "K", "b", ...'
                     % B['rich_keys_upto'],
        'set members': 'scalars listed first in one canonical order (members are unordered); every order of container members',
        'vocabulary 1': 'the same terms with <= %d nodes over the leaves None, False, True, 2.5, "", "ab", b"\\x00a", 2j and '
                        'the dict keys %s (one entry: each key; k entries: k cyclically consecutive keys, from every start); '
                        '%d structures' % (B['N1'], ', '.join(repr(k) for k in KEYS1),
                                           total.extra.get('structures_vocabulary1', 0)),
        'trace': 'structures of <= %d nodes: default callbacks and the 5 uniform tables again with trace=True, "enter", '
                 '"visit", "exit"; structures of %d..%d nodes: default callbacks and the same-pair table with trace=True '
                 '(output discarded)' % (TRACE_FULL_UPTO, TRACE_FULL_UPTO + 1, min(TRACE_UPTO, B['N'])),
    }
    cov['bounds']['look-alike keys'] = (
        'two-entry dicts also take, in both orders, the key pairs %s (structures of <= %d nodes) and %s (vocabulary 1); '
        'these structures run the default callbacks, research+get_path, path-echo, the 5 uniform tables and the traced '
        'programs' % (', '.join(map(repr, LOOKALIKE0)), B['rich_keys_upto'],
                      ', '.join(repr(tuple(_unpy(k) for k in pr)) for pr in LOOKALIKE1)))
    cov['bounds']['key-rewriting programs'] = (
        'structures without set members also run the %d value-kind tables over True, False, "N" (an int key k becomes ~k: '
        'list indexes come back descending) and "W" (a scalar item comes back as (value, key)) that rewrite a key in at '
        'least one cell (container cell: True / "N")' % len(KEY_TABLES))
    cov['bounds']['set_order'] = (
        'sets / frozensets of %r (iteration order differs from sorted order) as root, in a list, dict, tuple and next to '
        'another set; programs default, research, echo, dropkey (members at even / odd enumeration positions dropped) and '
        'the basic tables; %d structures' % (list(SETORDER_MEMBERS), total.extra.get('structures_set_order', 0)))
    cov['bounds']['twins'] = (
        'every container term t of <= %d nodes (no back-references) as two distinct but equal objects t, t\' - t\' also '
        'with its int leaves turned into the equal bools / floats - in the contexts [t, t\'], (t, t\'), {"a": t, "K": t\'}, '
        '[t, t, t], [t, tbool, tfloat], [t, [t\']], [[t], t\'], {"a": t, 0: (t\',)}, (t, (t\',)); programs: default callbacks, '
        'research+get_path, path-echo and key-rewriting tables (no set members), the basic tables (one of each class of '
        'tables that agree on the cells occurring); %d structures' % (TWIN_UPTO, total.extra.get('structures_twins', 0)))
    cov['bounds']['key aliases'] = (
        'every hashable container term h (tuples / frozensets over 0, 1, "a") of <= %d nodes as one object that is a '
        'value and a dict key: [h, {h: 0, "a": 1}], [{h: 0}, h], {"a": h, h: 1}, {h: h}, {"a": (h,), 0: {h: "a"}}, '
        '(h, {h: h}), [{h}, {h: 0}], [h, {h[0]: 0, 0: 1}]; programs as for twins; %d structures'
        % (KEYALIAS_UPTO, total.extra.get('structures_key_aliases', 0)))
    cov['bounds']['large structures (directed scenarios, NOT an exhaustive space)'] = (
        'chains of d nested containers for d = recursion limit - 1, + 1, 2 x + 1 (%s) over the kinds %s, one list shared '
        'by every level, innermost list pointing back to a mutable root; wide list / tuple / dict / set of %s items '
        '(dict: int keys next to their decimal spellings), shared and self-referencing members; programs: default '
        'callbacks, research+get_path on every reported path, two keep-everything visit tables (expected = isomorphic '
        'to the input); %d structures' % (', '.join(str(sp['size']) for sp in specs[::len(BIG_CHAIN_KINDS)][:3]),
                                          ', '.join(BIG_CHAIN_KINDS), ', '.join(map(str, BIG_WIDTHS)), len(specs)))
    if tier == 'quick':
        cov['bounds']['programs'] = basic
    else:
        cov['bounds']['programs on structures of 1..%d nodes' % FULL_UPTO] = basic + '; ' + rich_t + same
        cov['bounds']['programs on structures of %d nodes' % (FULL_UPTO + 1)] = (
            'as above, the reduction to distinct programs also applied to the value-kind and parity tables')
        cov['bounds']['programs on structures of %d nodes' % DEFAULT_ONLY_FROM] = (
            'default callbacks; research+get_path; path-echo')
    ctx.assumptions += [
        'set/frozenset members are matched as unordered collections; a rebuilt set may iterate in another order',
        'cycle through a tuple (back-reference to an enclosing tuple): only termination, an untouched input and (default '
        'callbacks) no mutable container shared with the input are demanded (DESIGN 5.1); %d such structures in this run' % total.extra.get('structures_with_cycle_through_tuple', 0),
        'sharing: an object shared in the reference rebuild must be shared in the result; two distinct list/dict/set '
        'objects must stay distinct; merging two equal immutable containers is not counted as a difference; the empty '
        'tuple / frozenset (interpreter singletons) are compared by type only',
        "the root's own research entry ((None,), root) is not a nested item",
        'programs that depend on the path are only run where the statement fixes the path: len(path) everywhere, the '
        'full path only on structures without set members (the key of a set member is not specified)',
        'research is called without a query (every item reported) and with one query callback (the scalar items); '
        'get_path with the reported tuple paths only (no dotted-string / list paths), in the plain form and - where that '
        'retrieves the item - with default=<a fresh object> and default=None; a visit program returns its new pair as '
        'a (key, value) tuple (the form the documentation shows; other 2-item sequences are not explored); custom enter/exit callbacks and reraise_visit=False are outside the statement (it quantifies over visit '
        'functions that keep, drop or rewrite items) and are not explored',
        'scalars are 0, 1, "a" (plus "X", "K" and path tuples produced by the programs); one representative of the other '
        'built-in scalar kinds (None, bool, float, empty / longer str, bytes, complex) on structures of <= %d nodes' % B['N1'],
        'the key visit returns for an item of a list / tuple does not reposition the item (the recursive rebuild keeps '
        'every surviving item where it was); equal but distinct containers are separate objects: each is visited under '
        'its own path and rebuilt from its own leaves',
        "remap's keyword trace is documented as print-only, so the statement's claims about the return value are also "
        'checked with tracing switched on; the printed text itself is not examined',
    ]


def replay(ctx, data):
    _arm()
    case = data['case']
    res = evaluate_big(case['big'], case['prog']) if 'big' in case else evaluate(case['term'], case['prog'])
    return ['%s%s expected=%r observed=%r' % (sig, (' [%s]' % ','.join(tags)) if tags else '', exp, obs)
            for sig, exp, obs, tags in res]

"""C18 - Spooled files act the same in memory and on disk; MultiFileReader concatenates.

Part 1 (engine E1, mc.histories) - product breadth-first search over the real objects.
  One search state = five live objects driven in lock step by the same history:
      the reference  io.BytesIO() / io.StringIO()
      ioutils.SpooledBytesIO(max_size=m) resp. ioutils.SpooledStringIO(max_size=m)  for m in {1, 3, 8, 10**6}
  (m = 1 rolls over to a TemporaryFile on the first write, 3 and 8 somewhere inside the explored contents,
  10**6 never by itself).  Operation menu (exactly the calls the statement lists):
      write(w)      w in {'a', 'e-acute\\n', 'b\\r\\nc', U+1F600}  (bytes: their UTF-8)  - enabled only at end of data
      write('')     the empty write - enabled only at end of data, does not count as one of the max_writes words
      writelines(x) the other appending-write entry point: x = every tuple of 0-2 items, each a word above or the
                    empty string (as long as the bound on the number of non-empty written words allows), handed over
                    as a list, a tuple, a generator and a plain iterator (the one-shot forms can be walked only
                    once) - enabled only at end of data
      read(), read(1|2|3), readline(), readlines(), `for line in f` (a fresh iterator each time),
      read(-1), readline(-1), readline(None), readlines(-1), readlines(None): the spellings of "no limit" that io
                    documents for the same calls (sizes that do limit a readline / readlines are not called)
      iter(f) + next(it): `iter` obtains an iterator and KEEPS it, `next` advances the kept iterator (next(f) while none
                    has been obtained) - so one iterator is carried across later writes, seeks and rollovers, the way a
                    reader that walks a growing file line by line does (io.BytesIO / io.StringIO support exactly this)
      seek(p) for every p in [0, len]  (code points for SpooledStringIO, bytes for SpooledBytesIO), seek(0, SEEK_END)
      seek(d, SEEK_CUR) / seek(-k, SEEK_END): the same positions inside the data named relative to the cursor or to
                    the end - SpooledBytesIO: every d with 0 <= pos + d <= len and every k in [1, len], and
                    seek(p, SEEK_SET) with the whence spelled out (SpooledStringIO: in the thorough tier);
                    SpooledStringIO: seek(0, SEEK_CUR) only, io.StringIO refuses every other relative seek, so the
                    statement's reference gives nothing to compare with
      tell(), getvalue(), len(f) (the variants are asked len(f) and then f.len; both must be the reference's length)
      rollover()    the explicit form of "has rolled over to a temporary file": a no-op for the reference and for
                    variants that already rolled; it is the only way to reach the rolled state at a position that is
                    not the end of the data (writes are appending)
  State oracle after every transition, for every variant: return value == reference's (write()'s is not compared,
  DESIGN 5.1), tell() == reference position, read() of the rest == content[pos:], getvalue() == content.
  A state is (content, reference position, per variant: rolled?, raw stream position, _tell, the codec reader's
  look-ahead buffers, and - when the kept iterator is an object other than the file itself - its type and closed flag)
  - i.e. everything that can influence later calls, so histories are merged only when the
  implementation state really is the same.  Successors are rebuilt by replaying the bare history on fresh objects
  (the oracle's probing reads never leak into a successor).  `ioutils.READ_CHUNK_SIZE` is configuration: native and
  scaled to 2 (module global rebound around every replay, restored afterwards).

  Besides the main searches (words above) a smaller one per class runs over contents with the characters at which
  str.splitlines() and the codecs readers break a line but a file does not (\\v \\f FS GS RS NEL LS PS; bytes: also a
  lone \\r): to io.StringIO / io.BytesIO they are ordinary content.  For SpooledStringIO the line-by-line reads are left
  out of that search (see TEXT_LINE_OPS_ON_BREAK_WORDS: a defect of the unchanged tree, reported with fix C18-4).
  A third small search (SpooledStringIO, READ_CHUNK_SIZE 2) runs over the first and last code point of every UTF-8
  width (U+007F/U+0080, U+07FF/U+0800, U+FFFF/U+10000, U+10FFFF) and U+00BF.
  Directed full-scale scenarios (NOT exhaustive): contents of n items for n around the module's integer constants
  (found by introspection), the io buffer size, 72 and 64 KiB, written in three pieces with max_size in {1, n//3+2, n,
  n+1}, seek(p) and five short read programs, every prefix judged like a search transition.  Every character there is:
  contents of 8192 consecutive code points that together cover U+0000-U+10FFFF once (every UTF-8 lead and continuation
  byte, the first and last code point of every width; SpooledBytesIO: every byte value), and contents that arrive one
  item at a time (more writes than the interpreter's recursion limit) through write() and writelines(), each followed
  by four short programs over len, tell, seek, read(n), readline, readlines, iteration, rollover and getvalue.

Part 2 (engine E2, mc.inputs) - MultiFileReader: every content of length <= N over {a, b, \\n} (text and bytes) x every
  partition into 1-3 member files (empty members included) x every read program of <= 4 steps over
  read(1|2|3), read(), seek(0).  Oracle: the reads since the last seek(0) concatenate to a prefix of the members'
  concatenation; it is the whole concatenation as soon as a read is unsized or returns empty; a sized read never
  returns more than asked.
  Member kinds: the statement speaks of "its files", so besides io.StringIO / io.BytesIO members (the full space above)
  a smaller space (contents over {a, e-acute, \n}, see bounds) is run with every other kind of file object whose read(n)
  is exact: io.TextIOWrapper, a real text file from open(), the module's own SpooledStringIO (in memory and rolled
  over), io.BufferedReader, a real binary file, SpooledBytesIO (in memory and rolled over), and readers whose members
  are of different kinds (all text or all bytes).  codecs stream readers are left out: their read(size) is documented
  as approximate, so "a sized read returns at most n" is not theirs to keep.
  `ioutils.READ_CHUNK_SIZE` is configuration here too: a smaller space is run with it scaled to 2.  Directed full-scale
  scenarios (NOT exhaustive): member lengths x read amounts around the module constants and powers of two (4-128 KiB),
  position-numbered contents, programs (amt, amt, read), (amt, seek0, amt, amt, read), (1, amt, read, seek0, amt) and
  read(amt) until the data ends; partitions into many member files (64 to beyond three times the interpreter's
  recursion limit; one item per member, runs of empty members, a mix) read with amounts that cross most of them.

TMPDIR / tempfile.tempdir point to a scratch directory under /dev/shm for the duration of the run; every object is
closed at the end of its transition; the directory is removed afterwards.
"""
import contextlib
import io
import itertools
import os
import shutil
import signal
import tempfile

from mc import core, histories, inputs

PROPERTY = 'C18'
LEVEL = 'model_checking'

WORDS = ('a', 'é\n', 'b\r\nc', '\U0001F600')
MAX_SIZES = (1, 3, 8, 10 ** 6)
READ_NS = (1, 2, 3)
WL_SHAPES = ('list', 'tuple', 'generator', 'iterator')      # how writelines() is handed its lines
WL_MAX_ITEMS = 2
# other spellings of "no limit" (what io documents for read / readline / readlines: a negative size or None).  Sizes
# that do limit (readline(size > 0), readlines(hint > 0)) and readline(0) are not named by the statement: not called.
NOLIMIT_OPS = (('read', -1), ('readline', -1), ('readline', None), ('readlines', -1), ('readlines', None))
# the characters at which str.splitlines() / codecs readers break a line but a text or bytes file does not
# (\v \f FS GS RS NEL LS PS): to io.StringIO / io.BytesIO they are ordinary content
BREAK_WORDS = ('p\x0bq\x0c\n', '\x1c\x1d\x1er', '\x85', '\u2028s\u2029')
# SpooledStringIO.readline() / next() / iteration end a line at those characters on the unchanged tree (reported:
# fixes/C18-4-...).  Until that fix is in the tree the line-by-line reads are left out for SpooledStringIO on such
# contents (readlines(), read, seek, tell, getvalue, len stay in); set to True once it is applied - the menu is then the
# full one and the lone \r joins the alphabet.
TEXT_LINE_OPS_ON_BREAK_WORDS = True
LONE_CR_WORD = 'd\re'
# the first and last code point of every UTF-8 width (1-4 bytes) and a continuation byte 0xBF: whatever looks at the
# encoded form sees every kind of lead byte and both ends of the continuation range
UTF8_EDGE_WORDS = ('\x7f\u0080', '\u07ff\n\u0800', '\uffff\U00010000', '\U0010ffff\xbf')
ITER_LIMIT = 64             # no explored content has more than ~10 lines

OP_CPU_S = 3.0              # CPU seconds per operation on the five objects (normally < 1 ms)
OP_CPU_AFTER_HANG_S = 0.05  # once an operation has been seen hanging, later occurrences get this budget only
SCRATCH = None              # set by run() / replay(); inherited by the forked workers


class Hang(BaseException):
    """Raised by the CPU-time alarm; BaseException so that `except Exception` in the code under test lets it pass."""


def _on_timer(signum, frame):
    raise Hang()


@contextlib.contextmanager
def cpu_budget(seconds):
    old = signal.signal(signal.SIGVTALRM, _on_timer)
    signal.setitimer(signal.ITIMER_VIRTUAL, seconds)
    try:
        yield
    finally:
        signal.setitimer(signal.ITIMER_VIRTUAL, 0)
        signal.signal(signal.SIGVTALRM, old)


def _hang_flag(name):
    return os.path.join(SCRATCH, 'hang-' + ''.join(c if c.isalnum() else '_' for c in name)) if SCRATCH else None


def op_budget(name):
    p = _hang_flag(name)
    return OP_CPU_AFTER_HANG_S if p and os.path.exists(p) else OP_CPU_S


def note_hang(name):
    p = _hang_flag(name)
    if p:
        try:
            open(p, 'w').close()
        except OSError:
            pass


@contextlib.contextmanager
def scratch_tmpdir():
    """Point TMPDIR and tempfile.tempdir at a fresh scratch directory; restore and remove afterwards."""
    global SCRATCH
    d = core.scratch_dir('c18')
    old_env, old_td, old_scratch = os.environ.get('TMPDIR'), tempfile.tempdir, SCRATCH
    os.environ['TMPDIR'] = d
    tempfile.tempdir = d
    SCRATCH = d
    try:
        yield d
    finally:
        SCRATCH = old_scratch
        tempfile.tempdir = old_td
        if old_env is None:
            os.environ.pop('TMPDIR', None)
        else:
            os.environ['TMPDIR'] = old_env
        shutil.rmtree(d, ignore_errors=True)


# ======================================================================================================
# bulk contents and sizes (directed scenarios at full scale; not exhaustive)

_BULK = {}
_CP = {}


def bulk_content(n, variant, multibyte):
    """A str of exactly n code points whose every stretch tells where it comes from (numbered lines of varying
    length), so that a skipped, repeated or reordered piece cannot go unnoticed.  variant 'lines': lines of 4-60
    characters; 'oneline': no line end at all.  multibyte: with 2- and 4-byte characters, else ASCII only (then the
    UTF-8 form has exactly n bytes)."""
    key = (variant, multibyte)
    have = _BULK.get(key, '')
    if len(have) < n:
        parts, size, i = [], 0, 0
        mark = '\u00e9\U0001F600' if multibyte else '~'
        end = '\n' if variant == 'lines' else '|'
        while size < 2 * n + 64:
            line = '%d%s%s%s' % (i, mark, 'x' * (i * 7 % 53), end)
            parts.append(line)
            size += len(line)
            i += 1
        have = _BULK[key] = ''.join(parts)
    return have[:n]


SURROGATES = (0xD800, 0xE000)        # not code points a str written to a UTF-8 file can hold
N_CODEPOINTS = 0x110000 - (SURROGATES[1] - SURROGATES[0])


def codepoint_block(start, n):
    """n consecutive code points from the start-th one on (surrogates skipped, wrapping after U+10FFFF): walking
    start over 0, n, 2n, ... writes every character there is exactly once - every lead byte and every continuation
    byte 0x80-0xBF of UTF-8 in every place, the first and last code point of every encoded width."""
    out = []
    for i in range(start, start + n):
        c = i % N_CODEPOINTS
        out.append(chr(c if c < SURROGATES[0] else c + SURROGATES[1] - SURROGATES[0]))
    return ''.join(out)


def bulk_data(kind, n, variant):
    """What write(bulk) writes.  variant 'lines' / 'oneline': numbered text (bulk_content); 'cp:<start>': a block of
    consecutive code points (text) resp. every byte value 0-255 in turn, starting at <start> (bytes)."""
    if variant.startswith('cp:'):
        key = (kind, n, variant)
        if key not in _CP:
            if len(_CP) > 8:
                _CP.clear()
            start = int(variant[3:])
            _CP[key] = (bytes((start + i) % 256 for i in range(n)) if kind == 'bytes'
                          else codepoint_block(start, n))
        return _CP[key]
    data = bulk_content(n, variant, kind == 'text')
    return data.encode('ascii') if kind == 'bytes' else data


def bulk_thresholds(ioutils, extra=()):
    """Sizes at which something may change: the module's own integer constants (found by introspection, e.g.
    READ_CHUNK_SIZE), the buffer size of the io layer, powers of two from 4 KiB to 128 KiB."""
    consts = sorted({v for k, v in vars(ioutils).items() if type(v) is int and 256 <= v <= 2 ** 20})
    ts = set(consts) | {io.DEFAULT_BUFFER_SIZE} | {2 ** k for k in (12, 14, 16, 17)} | set(extra)
    return consts, sorted(ts)


def around(ts):
    return sorted({t + d for t in ts for d in (-1, 0, 1) if t + d > 0})


def brief(x):
    """Large values in a report: length, both ends."""
    if isinstance(x, (str, bytes)) and len(x) > 120:
        return {'len': len(x), 'starts': repr(x[:40]), 'ends': repr(x[-40:])}
    if isinstance(x, (list, tuple)):
        if len(x) > 12:
            return {'items': len(x), 'first': [brief(i) for i in x[:3]], 'last': [brief(i) for i in x[-2:]]}
        return [brief(i) for i in x]
    if isinstance(x, dict):
        return {k: brief(v) for k, v in x.items()}
    return x


def first_difference(a, b):
    n = min(len(a), len(b))
    for i in range(n):
        if a[i] != b[i]:
            return i
    return n


# ======================================================================================================
# Part 1: spooled files

def opname(op):
    """Stable operation name used in signatures and in the coverage table (argument shape, never values)."""
    if op[0] == 'read':
        return 'read()' if len(op) == 1 else 'read(n)' if op[1] is not None and op[1] >= 0 else 'read(%r)' % (op[1],)
    if op[0] in ('readline', 'readlines') and len(op) > 1:
        return '%s(%r)' % (op[0], op[1])             # one of the NOLIMIT_OPS spellings: -1 or None, a shape
    if op[0] == 'write_bulk':
        return 'write(bulk)' if len(op) < 5 or op[4] == 'write' else 'writelines(bulk)'
    if op[0] == 'seek':
        return 'seek(p)'
    if op[0] == 'seek_end':
        return 'seek(0,END)'
    if op[0] == 'seek_rel':
        return {os.SEEK_SET: 'seek(p,SET)', os.SEEK_CUR: 'seek(d,CUR)', os.SEEK_END: 'seek(-k,END)'}[op[2]]
    if op[0] == 'writelines':
        return 'writelines(%s)' % op[1]
    return op[0]


def is_write(op):
    return op[0] in ('write', 'writelines', 'write_bulk')


def words_written(op):
    """How much of the max_writes bound an operation uses up: the number of non-empty words it appends."""
    return len([w for w in ((op[1],) if op[0] == 'write' else op[2] if op[0] == 'writelines' else ()) if w])


def lines_arg(shape, items):
    """The argument of writelines(): the same items as a sequence or as an object that can be walked once only."""
    items = list(items)
    if shape == 'list':
        return items
    if shape == 'tuple':
        return tuple(items)
    if shape == 'generator':
        return (x for x in items)
    if shape == 'iterator':
        return iter(items)
    raise AssertionError(shape)


ITERS = {}                  # id(file object) -> the iterator obtained by the last `iter` operation (dropped on close)


def kept_iterator(f):
    """Part of the state: None while next() goes to the file itself, else a description of the foreign iterator."""
    it = ITERS.get(id(f))
    if it is None or it is f:
        return None
    try:
        return ('iterator', type(it).__name__, bool(getattr(it, 'closed', False)))
    except Exception as e:                           # noqa
        return ('iterator', type(it).__name__, '<%s>' % type(e).__name__)


def apply(f, op, kind, ref=False):
    """Run one operation; returns ('ok', value) or ('exc', class name).  Hang passes through."""
    name = op[0]
    try:
        if name == 'iter':
            ITERS[id(f)] = iter(f)
            return ('ok', None)                      # the iterator object itself is not an observable
        if name == 'write':
            f.write(op[1].encode('utf-8') if kind == 'bytes' else op[1])
            return ('ok', None)                      # return value deliberately not observed (DESIGN 5.1)
        if name == 'writelines':
            f.writelines(lines_arg(op[1], [w.encode('utf-8') if kind == 'bytes' else w for w in op[2]]))
            return ('ok', None)
        if name == 'read':
            return ('ok', f.read() if len(op) == 1 else f.read(op[1]))
        if name == 'write_bulk':
            data = bulk_data(kind, op[1], op[2])
            pieces = [data[at:at + op[3]] for at in range(0, len(data), op[3])]   # op[3] = length of the pieces
            how = op[4] if len(op) > 4 else 'write'   # the pieces go through write() one by one or through writelines()
            if how == 'write':
                for piece in pieces:
                    f.write(piece)
            else:
                f.writelines(lines_arg(how, pieces))
            return ('ok', None)
        if name == 'readline':
            return ('ok', f.readline() if len(op) == 1 else f.readline(op[1]))
        if name == 'readlines':
            return ('ok', f.readlines() if len(op) == 1 else f.readlines(op[1]))
        if name == 'next':
            it = ITERS.get(id(f))
            return ('ok', next(f if it is None else it))
        if name == 'iterate':
            out = []
            for line in f:                           # a plain for loop: list(f) would also call len(f) as a hint
                out.append(line)
                if len(out) > ITER_LIMIT:
                    out.append('<iteration does not end>')
                    break
            return ('ok', out)
        if name == 'seek':
            return ('ok', f.seek(op[1]))
        if name == 'seek_end':
            return ('ok', f.seek(0, os.SEEK_END))
        if name == 'seek_rel':
            return ('ok', f.seek(op[1], op[2]))
        if name == 'tell':
            return ('ok', f.tell())
        if name == 'getvalue':
            return ('ok', f.getvalue())
        if name == 'len':
            if ref:
                return ('ok', len(f.getvalue()))
            n, n2 = len(f), f.len                    # the two spellings of the same query
            return ('ok', n if type(n2) is type(n) and n2 == n else {'len(f)': n, 'f.len': n2})
        if name == 'rollover':
            if not ref:
                f.rollover()
            return ('ok', None)
    except StopIteration:
        return ('exc', 'StopIteration')
    except Exception as e:                           # noqa - the class of the exception is the observable
        return ('exc', type(e).__name__)
    raise AssertionError(op)


def hidden(f, kind):
    """Everything inside one spooled object that can influence later calls (besides the content)."""
    try:
        b = f.buffer
        rolled = bool(f._rolled)
        if kind == 'bytes':
            return (rolled, b.tell(), kept_iterator(f))
        stream = getattr(b, 'stream', b)
        rd = getattr(b, 'reader', None)
        lb = getattr(rd, 'linebuffer', None)
        return (rolled, stream.tell(), getattr(f, '_tell', None), getattr(rd, 'charbuffer', None),
                getattr(rd, 'bytebuffer', None), tuple(lb) if lb else None, kept_iterator(f))
    except Exception as e:                           # noqa
        return ('<state unreadable: %s>' % type(e).__name__,)


class Spec:
    def __init__(self, kind, chunk, max_writes, words=WORDS, wl_shapes=WL_SHAPES, line_ops=True,
                 max_sizes=MAX_SIZES):
        self.kind, self.chunk, self.max_writes, self.words = kind, chunk, max_writes, tuple(words)
        self.wl_shapes, self.line_ops = tuple(wl_shapes), bool(line_ops)
        self.max_sizes = tuple(max_sizes)
        self.bulk = False             # bulk contents: values in reports are abbreviated
        self.clsname = 'SpooledBytesIO' if kind == 'bytes' else 'SpooledStringIO'
        self.spell_whence = False     # SpooledStringIO: also seek(p, SEEK_SET) with the whence spelled out (thorough)
        self.config = {'class': self.clsname, 'reference': 'io.BytesIO' if kind == 'bytes' else 'io.StringIO',
                       'max_sizes': list(self.max_sizes), 'READ_CHUNK_SIZE': chunk or 'native',
                       'words': list(self.words), 'max_writes': max_writes,
                       'writelines_shapes': list(self.wl_shapes), 'line_by_line_reads': self.line_ops}

    @contextlib.contextmanager
    def seam(self):
        from boltons import ioutils
        old = ioutils.READ_CHUNK_SIZE
        if self.chunk:
            ioutils.READ_CHUNK_SIZE = self.chunk
        try:
            yield ioutils
        finally:
            ioutils.READ_CHUNK_SIZE = old

    # -- objects -------------------------------------------------------------------------------------
    def fresh(self, ioutils):
        ref = io.BytesIO() if self.kind == 'bytes' else io.StringIO()
        cls = getattr(ioutils, self.clsname)
        var = [cls(max_size=m) for m in self.max_sizes]
        for f in [ref] + var:
            ITERS.pop(id(f), None)
        return ref, var

    def build(self, ioutils, hist):
        ref, var = self.fresh(ioutils)
        for op in hist:
            apply(ref, op, self.kind, ref=True)
            for f in var:
                apply(f, op, self.kind)
        return ref, var

    @staticmethod
    def close(ref, var):
        for f in [ref] + list(var):
            ITERS.pop(id(f), None)
            try:
                f.close()
            except BaseException:                    # noqa - closing must never mask the verdict
                pass

    def key(self, ref, var):
        return (ref.getvalue(), ref.tell(), tuple(hidden(f, self.kind) for f in var))

    def enabled(self, content_len, pos, nwrites):
        ops = []
        if pos == content_len and nwrites < self.max_writes:
            ops += [('write', w) for w in self.words]
        if pos == content_len:
            ops += [('write', '')]                    # appends nothing: allowed whatever has been written so far
            for k in range(WL_MAX_ITEMS + 1):
                for items in itertools.product(('',) + self.words, repeat=k):
                    if nwrites + len([w for w in items if w]) <= self.max_writes:
                        ops += [('writelines', shape, items) for shape in self.wl_shapes]
        ops += [('read',)] + [('read', n) for n in READ_NS]
        if self.line_ops:
            ops += [('readline',), ('readlines',), ('iter',), ('next',), ('iterate',)]
            ops += list(NOLIMIT_OPS)
        else:
            ops += [('readlines',)] + [o for o in NOLIMIT_OPS if o[0] != 'readline']
        ops += [('seek', p) for p in range(content_len + 1)]
        ops += [('seek_end',), ('tell',), ('getvalue',), ('len',), ('rollover',)]
        # the same positions named relative to the cursor / to the end; io.StringIO accepts seek(0, SEEK_CUR) only
        if self.kind == 'bytes':
            ops += [('seek_rel', p, os.SEEK_SET) for p in range(content_len + 1)]      # whence spelled out
            ops += [('seek_rel', p - pos, os.SEEK_CUR) for p in range(content_len + 1)]
            ops += [('seek_rel', -k, os.SEEK_END) for k in range(1, content_len + 1)]
        else:
            ops += [('seek_rel', 0, os.SEEK_CUR)]
            if self.spell_whence:
                ops += [('seek_rel', p, os.SEEK_SET) for p in range(content_len + 1)]
        return ops

    # -- engine interface ------------------------------------------------------------------------------
    def initial(self):
        return [()]

    def root_key(self, hist):
        with self.seam() as ioutils:
            ref, var = self.build(ioutils, hist)
            try:
                return self.key(ref, var)
            finally:
                self.close(ref, var)

    def expand(self, hist):
        out = []
        with self.seam() as ioutils:
            ref, var = self.build(ioutils, ())
            try:
                for op in hist:
                    apply(ref, op, self.kind, ref=True)
                ops = self.enabled(len(ref.getvalue()), ref.tell(), sum(words_written(o) for o in hist))
            finally:
                self.close(ref, var)
            for op in ops:
                viols, key, label = self.step(ioutils, hist, op)
                out.append((op, key, label, viols))
        return out

    def case(self, hist, op):
        return {'part': 'spooled', 'config': self.config, 'history': [list(o) for o in hist] + [list(op)]}

    def step(self, ioutils, hist, op):
        """Replay hist on fresh objects, apply op to all five, judge.  Returns (violations, key or None, label)."""
        name = opname(op)
        case = self.case(hist, op)
        failing = {}                                  # what -> [expected, observed, [max_sizes]]

        def bad(what, exp, obs, m):
            r = failing.get(what)
            if r is None:
                failing[what] = [exp, obs, [m]]
            else:
                r[2].append(m)

        ref = var = None
        key = None
        label = (name, '?')
        phase = 'replay-of-prefix'
        try:
            with cpu_budget(op_budget(name)):
                ref, var = self.build(ioutils, hist)
                phase = 'terminates'
                r_m = apply(ref, op, self.kind, ref=True)
                content, pos = ref.getvalue(), ref.tell()
                results = [apply(f, op, self.kind) for f in var]
                label = (name, '%s rolled=%s' % (r_m[0] if r_m[0] == 'ok' else r_m[1], ''.join(
                    'Y' if hidden(f, self.kind)[0] is True else 'n' for f in var)))
                for m, f, r_i in zip(self.max_sizes, var, results):
                    if not is_write(op) and r_i != r_m:
                        bad('result', r_m, r_i, m)
                    elif is_write(op) and r_i[0] != 'ok':
                        bad('raises', r_m, r_i, m)
                    t = apply(f, ('tell',), self.kind)
                    if t != ('ok', pos):
                        bad('tell-afterwards', ('ok', pos), t, m)
                if not failing:
                    key = (content, pos, tuple(hidden(f, self.kind) for f in var))
                    phase = 'read()/getvalue()-afterwards-terminate'
                    # probes (on objects that are thrown away): what a reader would get from here, and the content
                    for m, f in zip(self.max_sizes, var):
                        rest = apply(f, ('read',), self.kind)
                        if rest != ('ok', content[pos:]):
                            bad('rest-of-data-afterwards', ('ok', content[pos:]), rest, m)
                            continue
                        val = apply(f, ('getvalue',), self.kind)
                        if val != ('ok', content):
                            bad('content-afterwards', ('ok', content), val, m)
        except Hang:
            note_hang(name)
            bad(phase, 'returns', 'no return within the CPU budget (%.2g s)' % OP_CPU_S, None)
        finally:
            if ref is not None:
                self.close(ref, var)
        viols = []
        for what, (exp, obs, ms) in failing.items():
            if self.bulk:
                exp, obs = brief(exp), brief(obs)
            viols.append(('C18|op:%s|%s|%s' % (name, self.clsname, what), case, exp, obs,
                          {'failing_max_sizes': ms, 'READ_CHUNK_SIZE': self.chunk or 'native'}, ()))
        if failing:
            key = None
        return viols, key, label


def spooled_searches(tier):
    mw = 3
    out = [Spec('bytes', None, mw), Spec('text', None, mw), Spec('text', 2, mw)]
    # contents with the line boundaries of str.splitlines() that are no line ends to a file (a smaller space)
    bw = BREAK_WORDS + ((LONE_CR_WORD,) if TEXT_LINE_OPS_ON_BREAK_WORDS else ())
    one = ('list',)
    out += [Spec('bytes', None, 2, words=(BREAK_WORDS[0][2:], BREAK_WORDS[3][:1], LONE_CR_WORD), wl_shapes=one),
            Spec('text', None, 2, words=bw, wl_shapes=one, line_ops=TEXT_LINE_OPS_ON_BREAK_WORDS),
            Spec('text', 2, 2, words=bw, wl_shapes=one, line_ops=TEXT_LINE_OPS_ON_BREAK_WORDS),
            Spec('text', 2, 2, words=UTF8_EDGE_WORDS, wl_shapes=one)]
    if tier != 'quick':
        out += [Spec('text', 3, mw),
                Spec('bytes', None, 4, words=('a', '\n', 'b\r\nc')),
                Spec('text', 2, 4, words=('\n', 'é', 'a\U0001F600')),
                Spec('text', 2, 3, words=WORDS + ('\u20ac\n\n',)),          # a 3-byte character, an empty line
                Spec('bytes', None, 3, words=WORDS + ('\u20ac\n\n',))]
        for spec in out:
            spec.spell_whence = True
    return out


def bulk_programs(n):
    """Short programs run after write(bulk content) and seek(p); every prefix is judged like a search transition."""
    big = n // 2 + 1
    return [
        [('readline',), ('read', 3), ('len',), ('readline',), ('tell',)],
        [('rollover',), ('read', big), ('readline', -1), ('getvalue',), ('read',)],
        [('next',), ('readlines',)],
        [('iterate',)],
        [('read', big), ('seek_end',), ('write', 'a'), ('seek', n // 2), ('read',)],
    ]


def spooled_bulk_shard(arg):
    kind, n, variant, consts = arg
    from boltons import ioutils
    t = inputs.Tally()
    for sizes in ((1, n // 3 + 2, n, n + 1),):
        # written in three pieces: the variants roll over at the first, second, third piece, never / only on demand
        spec = Spec(kind, None, 2, max_sizes=sizes)
        spec.bulk = True
        w = ('write_bulk', n, variant, n // 3 + 1)
        with spec.seam():
            for p in sorted({0, n // 2, n - 1} | {c + d for c in consts for d in (0, 1) if c + d < n}):
                for prog in bulk_programs(n):
                    hist = (w, ('seek', p))
                    for op in prog:
                        viols, key, label = spec.step(ioutils, hist, op)
                        t.count(nontrivial=True, sample=spec.case(hist, op) if op[0] == 'readlines' else None)
                        for v in viols:
                            t.bad(v[0], v[1], v[2], v[3], v[4], v[5])
                        if key is None:
                            break
                        hist += (op,)
    return t


SWEEP_BLOCK = 8192          # code points per content of the every-character sweep


def sweep_programs(n):
    """Programs run after write(bulk content) by the every-character sweep and the many-pieces scenarios."""
    return [
        [('len',), ('tell',), ('seek', n // 2), ('len',), ('read', 5), ('tell',), ('readline',), ('seek_end',),
         ('tell',)],
        [('seek', 1), ('rollover',), ('len',), ('read', n // 2), ('tell',), ('getvalue',), ('seek', n - 1), ('read', 2)],
        [('seek', 0), ('readlines',)],
        [('seek', n // 3), ('iterate',), ('len',)],
    ]


def spooled_directed_shard(arg):
    """One bulk write (its content, the pieces it comes in and the entry point they go through are the argument), then
    every prefix of the sweep programs, judged like a search transition."""
    kind, w, sizes = arg
    from boltons import ioutils
    t = inputs.Tally()
    spec = Spec(kind, None, 2, max_sizes=sizes)
    spec.bulk = True
    with spec.seam():
        for prog in sweep_programs(w[1]):
            hist = (w,)
            for op in prog:
                viols, key, label = spec.step(ioutils, hist, op)
                t.count(nontrivial=True, sample=spec.case(hist, op) if op[0] == 'len' else None)
                for v in viols:
                    t.bad(v[0], v[1], v[2], v[3], v[4], v[5])
                if key is None:
                    break
                hist += (op,)
    return t


def spooled_directed_args(quick):
    import sys
    n = SWEEP_BLOCK
    args = []
    # every character there is, once: contents of SWEEP_BLOCK consecutive code points, written in three pieces
    for start in range(0, N_CODEPOINTS, n):
        args.append(('text', ('write_bulk', n, 'cp:%d' % start, n // 3 + 1), (1, n, 3 * n, 10 ** 6)))
    # every byte value (the words of the searches are UTF-8: bytes 0xC0, 0xC1, 0xF5-0xFF and NUL never occur there)
    for start in (0, 128):
        args.append(('bytes', ('write_bulk', 1024, 'cp:%d' % start, 342), (1, 500, 1024, 10 ** 6)))
    # many appending writes: a content that arrives item by item, through write() and through writelines()
    counts = sorted({sys.getrecursionlimit() + 1, 1025} | (set() if quick else {257, 3 * sys.getrecursionlimit() + 1}))
    for kind in ('text', 'bytes'):
        for c in counts:
            for how in ('write', 'list', 'generator'):
                args.append((kind, ('write_bulk', c, 'lines', 1, how), (1, c // 2, c, c + 1)))
    return args, counts


# ======================================================================================================
# Part 2: MultiFileReader

MFR_ALPHABET = ('a', 'b', '\n')
MFR_INSTR = (1, 2, 3, 'read', 'seek0')
# other spellings of the same calls: the unsized read with its default written out, the sized read by keyword, the
# rewind with its whence written out
MFR_SPELLINGS = ('read(None)', 'read(amt=2)', 'seek(0,SEEK_SET)')
MFR_ALPHABET_X = ('a', '\u00e9', '\n')       # contents for the other member kinds: a two-byte character included


def _spooled_member(ioutils, clsname, data, roll):
    f = getattr(ioutils, clsname)(max_size=10 ** 6)
    f.write(data)
    if roll:
        f.rollover()
    f.seek(0)
    return f


def _disk_member(data, text):
    fd, path = tempfile.mkstemp(prefix='member-', dir=SCRATCH)
    with os.fdopen(fd, 'wb') as w:
        w.write(data)
    try:
        return open(path, 'r', encoding='utf-8', newline='') if text else open(path, 'rb')
    finally:
        os.unlink(path)                              # the open file stays readable; nothing is left behind


# kind -> (is text, factory(ioutils, str content) -> file object positioned at 0).  Only file objects whose read(n)
# returns exactly n items while data remains (the contract MultiFileReader.read(n) relies on).
MEMBER_KINDS = {
    'text': (True, lambda io_, m: io.StringIO(m)),
    'bytes': (False, lambda io_, m: io.BytesIO(m.encode('utf-8'))),
    'text:SpooledStringIO': (True, lambda io_, m: _spooled_member(io_, 'SpooledStringIO', m, False)),
    'text:SpooledStringIO-rolled': (True, lambda io_, m: _spooled_member(io_, 'SpooledStringIO', m, True)),
    'text:TextIOWrapper': (True, lambda io_, m: io.TextIOWrapper(io.BytesIO(m.encode('utf-8')), encoding='utf-8',
                                                                 newline='')),
    'text:open-r': (True, lambda io_, m: _disk_member(m.encode('utf-8'), True)),
    'bytes:SpooledBytesIO': (False, lambda io_, m: _spooled_member(io_, 'SpooledBytesIO', m.encode('utf-8'), False)),
    'bytes:SpooledBytesIO-rolled': (False, lambda io_, m: _spooled_member(io_, 'SpooledBytesIO', m.encode('utf-8'),
                                                                          True)),
    'bytes:BufferedReader': (False, lambda io_, m: io.BufferedReader(io.BytesIO(m.encode('utf-8')))),
    'bytes:open-rb': (False, lambda io_, m: _disk_member(m.encode('utf-8'), False)),
}
# readers whose members are of different kinds: member i is of kind MIXED[...][i % 3]
MIXED = {
    'text:mixed': ('text', 'text:SpooledStringIO', 'text:TextIOWrapper'),
    'text:mixed-2': ('text:SpooledStringIO-rolled', 'text:TextIOWrapper', 'text'),
    'bytes:mixed': ('bytes', 'bytes:SpooledBytesIO', 'bytes:BufferedReader'),
    'bytes:mixed-2': ('bytes:SpooledBytesIO-rolled', 'bytes:BufferedReader', 'bytes'),
}
MFR_KINDS_X_MEMORY = ('text:SpooledStringIO', 'text:TextIOWrapper', 'bytes:SpooledBytesIO', 'bytes:BufferedReader')
MFR_KINDS_X_MIXED = ('text:mixed', 'bytes:mixed')
MFR_KINDS_X_ROLLED = ('text:SpooledStringIO-rolled', 'bytes:SpooledBytesIO-rolled')     # a temporary file per member
MFR_KINDS_X_DISK = ('text:open-r', 'bytes:open-rb')
MFR_KINDS_X_MORE = ('text:mixed-2', 'bytes:mixed-2')


def member_files(ioutils, kind, members):
    """-> (files, concatenation, empty value).  Files already built are closed if a later factory raises."""
    kinds = MIXED.get(kind) or (kind,)
    is_text = MEMBER_KINDS[kinds[0]][0]
    files = []
    try:
        for i, m in enumerate(members):
            files.append(MEMBER_KINDS[kinds[i % len(kinds)]][1](ioutils, m))
    except BaseException:
        close_all(files)
        raise
    full = ''.join(members)
    return files, (full if is_text else full.encode('utf-8')), ('' if is_text else b'')


def close_all(files):
    for f in files:
        try:
            f.close()
        except BaseException:                        # noqa - closing must never mask the verdict
            pass


def partitions(content):
    """Every way to cut content into 1, 2 or 3 consecutive member files, empty members included."""
    n = len(content)
    yield (content,)
    for i in range(n + 1):
        yield (content[:i], content[i:])
    for i in range(n + 1):
        for j in range(i, n + 1):
            yield (content[:i], content[i:j], content[j:])


def mfr_run(ioutils, kind, members, prog, chunk=None):
    """Execute one read program on a fresh reader over fresh members.  Returns None or (sig-suffix, expected,
    observed); the suffix names the member kind unless it is the plain io.StringIO / io.BytesIO one.  chunk: the value
    ioutils.READ_CHUNK_SIZE is rebound to for the duration (configuration, as in part 1)."""
    old = ioutils.READ_CHUNK_SIZE
    if chunk:
        ioutils.READ_CHUNK_SIZE = chunk
    try:
        v = _mfr_run(ioutils, kind, members, prog)
    finally:
        ioutils.READ_CHUNK_SIZE = old
    if v is not None and kind not in ('text', 'bytes'):
        v = (v[0] + '|members=' + kind.split(':', 1)[1],) + tuple(v[1:])
    return v


def _mfr_run(ioutils, kind, members, prog):
    try:
        files, full, empty = member_files(ioutils, kind, members)
    except Hang:
        raise
    except Exception as e:                           # noqa - e.g. a spooled member that cannot be written any more
        return ('members|cannot-be-prepared', 'no exception', type(e).__name__)
    acc = empty
    phase = 'initial'
    ins = None
    try:
        r = ioutils.MultiFileReader(*files)
        for ins in prog:
            if ins in ('seek0', 'seek(0,SEEK_SET)'):
                if ins == 'seek0':
                    r.seek(0)
                else:
                    r.seek(0, os.SEEK_SET)
                acc, phase = empty, 'after-seek(0)'
                continue
            if ins == 'read(None)':
                sized, what, got = False, 'read(None)', r.read(None)
            elif ins == 'read(amt=2)':
                ins = 2
                sized, what, got = True, 'read(amt=n)', r.read(amt=2)
            else:
                sized = ins != 'read'
                what = 'read(n)' if sized else 'read()'
                got = r.read(ins) if sized else r.read()
            if type(got) is not type(empty):
                return ('%s|%s|type' % (what, phase), type(empty).__name__, type(got).__name__)
            if sized and len(got) > ins:
                return ('%s|%s|more-than-asked' % (what, phase), 'at most %d' % ins, got)
            acc += got
            if not full.startswith(acc):
                return ('%s|%s|not-a-prefix-of-the-concatenation' % (what, phase), full, acc)
            if (not sized or got == empty) and acc != full:
                return ('%s|%s|ends-before-the-concatenation-does' % (what, phase), full, acc)
    except Hang:
        raise
    except Exception as e:                           # noqa
        return ('%s|%s|raises' % ('seek(0)' if ins in ('seek0', 'seek(0,SEEK_SET)') else 'read', phase),
                'no exception', type(e).__name__)
    finally:
        close_all(files)
    return None


def mfr_programs(maxlen, spellings=False):
    """Every program of at most maxlen instructions; with spellings=True the instruction set also has MFR_SPELLINGS
    and only the programs that use at least one of them are kept (the others are in the plain space)."""
    out = []
    for n in range(maxlen + 1):
        if spellings:
            out += [p for p in itertools.product(MFR_INSTR + MFR_SPELLINGS, repeat=n)
                    if any(i in MFR_SPELLINGS for i in p)]
        else:
            out += list(itertools.product(MFR_INSTR, repeat=n))
    return out


def mfr_shard(arg):
    items, proglen = arg[:2]
    from boltons import ioutils
    mode = arg[2] if len(arg) > 2 else None
    progs = mfr_programs(proglen, spellings=mode == 'spellings')
    chunk = 2 if mode == 'chunk=2' else None
    t = inputs.Tally()
    hung = False
    for kind, content in items:
        for members in partitions(content):
            spans = len(content) > 0 and len(members) > 1
            try:
                with cpu_budget(2.0 if hung else 30.0):
                    for prog in progs:
                        case = {'part': 'mfr', 'kind': kind, 'members': list(members), 'program': list(prog)}
                        if chunk:
                            case['READ_CHUNK_SIZE'] = chunk
                        nontrivial = spans and any(i not in ('seek0', 'seek(0,SEEK_SET)') for i in prog)
                        t.count(nontrivial=nontrivial, sample=case if nontrivial and len(prog) > 2 else None)
                        v = mfr_run(ioutils, kind, members, prog, chunk)
                        if v is not None:
                            t.bad('C18|mfr:' + v[0], case, v[1], v[2])
            except Hang:
                hung = True
                t.bad('C18|mfr:read|terminates', case, 'returns', 'no return within the CPU budget')
    return t


def mfr_bulk_members(kind, lens, variant):
    is_text = MEMBER_KINDS[(MIXED.get(kind) or (kind,))[0]][0]
    data = bulk_content(sum(lens), variant, is_text)
    out, at = [], 0
    for n in lens:
        out.append(data[at:at + n])
        at += n
    return tuple(out)


def mfr_bulk_run(ioutils, kind, lens, variant, prog):
    if len(lens) == 2 and isinstance(lens[1], str):
        lens = mfr_many_lens(int(lens[0]), lens[1])
    v = mfr_run(ioutils, kind, mfr_bulk_members(kind, lens, variant), prog)
    if (v is not None and isinstance(v[1], (str, bytes)) and isinstance(v[2], (str, bytes))
            and not v[0].split('|members=')[0].endswith(('raises', 'type', 'cannot-be-prepared'))):
        at = first_difference(v[1], v[2])
        v = (v[0], {'concatenation': brief(v[1]), 'from the first difference': repr(v[1][at:at + 40])},
             {'read so far': brief(v[2]), 'first difference at': at, 'from there': repr(v[2][at:at + 40])})
    return v


def mfr_bulk_cases(consts, sizes, kinds):
    """(kind, member lengths, variant, program): a first member of every bulk size followed by a short and a long
    one, read with every bulk amount - twice, after a rewind, after a one-item read, and until the data ends."""
    out = []
    for kind in kinds:
        for i, first in enumerate(sizes):
            for j, amt in enumerate(sizes):
                lens = (first, 5, sizes[(i + j) % len(sizes)])
                progs = [(amt, amt, 'read'), (amt, 'seek0', amt, amt, 'read'), (1, amt, 'read', 'seek0', amt)]
                if sum(lens) // amt <= 24:
                    progs.append((amt,) * (sum(lens) // amt + 2))
                for prog in progs:
                    out.append((kind, lens, 'lines', prog))
    return out


def mfr_bulk_shard(cases):
    from boltons import ioutils
    t = inputs.Tally()
    hung = False
    for kind, lens, variant, prog in cases:
        case = {'part': 'mfr-bulk', 'kind': kind, 'member_lengths': list(lens), 'content': variant,
                'program': list(prog)}           # member_lengths [count, pattern name]: see mfr_many_lens
        t.count(nontrivial=True, sample=case)
        try:
            with cpu_budget(2.0 if hung else 30.0):
                v = mfr_bulk_run(ioutils, kind, lens, variant, prog)
        except Hang:
            hung = True
            v = ('read|terminates', 'returns', 'no return within the CPU budget')
        if v is not None:
            many = len(lens) == 2 and isinstance(lens[1], str)
            t.bad('C18|mfr:' + v[0], case, v[1], v[2], tags=('many-members',) if many else ('bulk',))
    return t


MANY_PATTERNS = {'ones': (1,), 'mostly-empty': (0, 0, 0, 0, 0, 0, 0, 5), 'mixed': (0, 1, 2, 0, 3)}


def mfr_many_lens(count, pattern):
    """Lengths of `count` member files: the pattern repeated (fine-grained partitions: one item per member, runs of
    empty members, a mix)."""
    pat = MANY_PATTERNS[pattern]
    return tuple(pat[i % len(pat)] for i in range(count))


def mfr_many_programs(total):
    return [(total + 5,), (10, total * 5 // 6, 'read'), ('read', 'seek0', total), (total // 2 + 1,) * 3,
            (3, 'seek0', total + 1, 'seek0', 'read'), (7,) * 12 + ('read',)]


def mfr_many_cases(quick):
    """(kind, member lengths as (count, pattern), 'lines', program): partitions into many member files - counts around
    powers of two and around the interpreter's recursion limit (whatever it is in this process), beyond it too."""
    import sys
    rl = sys.getrecursionlimit()
    counts = sorted({64, 255, 257, rl - 1, rl + 1, 1025, 3 * rl + 1} | (set() if quick else {rl, 4097, 10 * rl + 1}))
    out = []
    for kind in ('text', 'bytes') + MFR_KINDS_X_MIXED:
        for count in counts:
            if kind in MFR_KINDS_X_MIXED and count > (1025 if quick else 4097):
                continue
            for pattern in sorted(MANY_PATTERNS):
                total = sum(mfr_many_lens(count, pattern))
                for prog in mfr_many_programs(total):
                    out.append((kind, (count, pattern), 'lines', prog))
    return out, counts


def mfr_items(maxlen, alphabet=MFR_ALPHABET, kinds=('text', 'bytes')):
    items = []
    for content in inputs.texts(alphabet, maxlen):
        for kind in kinds:
            items.append((kind, content))
    return items


# ======================================================================================================

def run(ctx):
    quick = ctx.quick()
    with scratch_tmpdir():
        parts = []
        for spec in spooled_searches(ctx.tier):
            res = histories.explore(spec, ctx)
            parts.append((spec.config, res))
            ctx.note('%s READ_CHUNK_SIZE=%s words=%d writes<=%d: states=%d transitions=%d depth=%d fixpoint=%s'
                     % (spec.clsname, spec.chunk or 'native', len(spec.words), spec.max_writes, res.states,
                        res.transitions, res.depth, res.fixpoint))
        cov = histories.merge_coverage(ctx, parts, rule=(
            'product BFS to a fixpoint: every history of the listed file operations (appending writes of at most '
            'max_writes words, seeks to every position inside the data) on the io reference and the four max_size '
            'variants in lock step; a state = (content, position, per variant: rolled?, raw stream position, _tell, '
            'codec look-ahead buffers); every transition is executed on the real objects and compared'))
        spooled_exhaustive = all(r.fixpoint for _, r in parts)

        # directed, full-scale: contents around the sizes at which something may change (not exhaustive)
        from boltons import ioutils
        consts, ts = bulk_thresholds(ioutils)
        sp_sizes = set(around(set(consts) | {72, io.DEFAULT_BUFFER_SIZE})) | {2 * c + 1 for c in consts} | {2 ** 16 + 1}
        if not quick:
            sp_sizes |= set(around(ts)) | {3 * c + 2 for c in consts}
        sp_sizes = sorted(sp_sizes)
        bulk_args = [(kind, n, variant, consts) for n in sp_sizes for kind in ('text', 'bytes')
                     for variant in ('lines', 'oneline')]
        inputs.run_shards(ctx, spooled_bulk_shard, bulk_args, part='spooled files, bulk contents (directed)', rule=(
            'every prefix of five short read programs after write(content of n items in three pieces); seek(p), judged '
            'like a search transition; non-trivial = all (n >= 71)'))

        sd_args, sd_counts = spooled_directed_args(quick)
        inputs.run_shards(ctx, spooled_directed_shard, sd_args,
                          part='spooled files, every character / byte value and many-piece writes (directed)', rule=(
                              'every prefix of four short programs (len, tell, seek, read(n), readline, readlines, '
                              'iteration, rollover, getvalue) after one bulk write; non-trivial = all (>= 1024 items)'))

        maxlen, proglen = (4, 4) if quick else (5, 4)
        items = mfr_items(maxlen)
        small = [it for it in items if len(it[1]) <= 2]          # first shard: the simplest contents, in order, so
        rest = [it for it in items if len(it[1]) > 2]            # that the recorded case of a signature is minimal
        shard_args = [(small, proglen)] + [(sh, proglen) for sh in core.shards(rest, 63)]
        inputs.run_shards(ctx, mfr_shard, shard_args, part='MultiFileReader', rule=(
            'non-trivial = content non-empty, at least two member files and at least one read in the program'))
        # other spellings of the calls (default / keyword arguments written out), on a smaller space
        sp_len, sp_prog = (2 if quick else 3), 3
        sp_items = mfr_items(sp_len)
        inputs.run_shards(ctx, mfr_shard, [([it for it in sp_items if len(it[1]) <= 1], sp_prog, 'spellings')]
                          + [(sh, sp_prog, 'spellings') for sh in core.shards([it for it in sp_items if len(it[1]) > 1],
                                                                              15)],
                          part='MultiFileReader, calls spelled differently', rule=(
                              'non-trivial = content non-empty, at least two member files and at least one read in '
                              'the program'))
        # READ_CHUNK_SIZE as configuration (as in part 1): scaled to 2, on a smaller space
        ck_len, ck_prog = (3, 3) if quick else (4, 4)
        ck_items = mfr_items(ck_len)
        inputs.run_shards(ctx, mfr_shard, [([it for it in ck_items if len(it[1]) <= 1], ck_prog, 'chunk=2')]
                          + [(sh, ck_prog, 'chunk=2') for sh in core.shards([it for it in ck_items if len(it[1]) > 1],
                                                                            15)],
                          part='MultiFileReader, READ_CHUNK_SIZE scaled to 2', rule=(
                              'non-trivial = content non-empty, at least two member files and at least one read in '
                              'the program'))
        # directed, full-scale: member lengths and read amounts around the sizes at which something may change
        mb_sizes = sorted(set(around(ts)) | {2 * c + 1 for c in consts} | {3 * c + 2 for c in consts})
        mb_few = sorted(set(around(consts)) | {2 * c + 1 for c in consts} | {2 ** 16 + 1})
        mb_cases = (mfr_bulk_cases(consts, mb_sizes, ('text', 'bytes'))
                    + mfr_bulk_cases(consts, mb_few, MFR_KINDS_X_MIXED + (() if quick else MFR_KINDS_X_ROLLED)))
        inputs.run_shards(ctx, mfr_bulk_shard, [mb_cases[:8]] + core.shards(mb_cases[8:], 47),
                          part='MultiFileReader, bulk members and amounts (directed)',
                          rule='non-trivial = all (three non-empty members, sized reads of bulk amounts)')
        # directed: partitions into many member files
        mm_cases, mm_counts = mfr_many_cases(quick)
        inputs.run_shards(ctx, mfr_bulk_shard, [mm_cases[:6]] + core.shards(mm_cases[6:], 31),
                          part='MultiFileReader, partitions into many member files (directed)',
                          rule='non-trivial = all (64 or more member files, reads that cross many of them)')
        # the other member kinds, on a smaller space (their reads cost 10-50x an io.StringIO's)
        if quick:
            spaces = [(MFR_KINDS_X_MEMORY, 3, 3), (MFR_KINDS_X_MIXED + MFR_KINDS_X_ROLLED, 2, 3),
                      (MFR_KINDS_X_DISK, 1, 3)]
        else:
            spaces = [(MFR_KINDS_X_MEMORY + MFR_KINDS_X_MIXED + MFR_KINDS_X_ROLLED + MFR_KINDS_X_DISK
                       + MFR_KINDS_X_MORE, 3, 4)]
        shard_args, first = [], []
        for kinds, xlen, xprog in spaces:
            xitems = mfr_items(xlen, MFR_ALPHABET_X, kinds)
            first.append(([it for it in xitems if len(it[1]) <= 1], xprog))
            shard_args += [(sh, xprog) for sh in core.shards([it for it in xitems if len(it[1]) > 1], 24)]
        inputs.run_shards(ctx, mfr_shard, first + shard_args, part='MultiFileReader over other kinds of member files',
                          rule='non-trivial = content non-empty, at least two member files and at least one read in '
                               'the program')
        cov['bounds'] = {
            'spooled': {'max_sizes': list(MAX_SIZES), 'read_sizes': list(READ_NS), 'seeks': 'every position 0..len, '
                        'seek(0, SEEK_END); SpooledBytesIO also every seek(p, SEEK_SET), seek(d, SEEK_CUR) and '
                        'seek(-k, SEEK_END) that lands on 0..len; SpooledStringIO seek(0, SEEK_CUR)%s'
                        % ('' if quick else ' and every seek(p, SEEK_SET)'),
                        'writelines': 'every tuple of 0..%d items, each a word or the empty string (within max '
                                      'appending writes) as %s; write(empty) at end of data'
                                      % (WL_MAX_ITEMS, ', '.join(WL_SHAPES)),
                        'depth': 'unbounded (search runs to a fixpoint)',
                        'searches (class, READ_CHUNK_SIZE, words, max appending writes)': [
                            [c['class'], c['READ_CHUNK_SIZE'], c['words'], c['max_writes']] for c, _ in parts]},
            'MultiFileReader': {'alphabet': list(MFR_ALPHABET), 'max_content_len': maxlen, 'members': '1-3, empty '
                                'members included', 'program_steps': proglen, 'instructions': list(MFR_INSTR),
                                'kinds': ['text (io.StringIO members)', 'bytes (io.BytesIO members)']},
            'MultiFileReader, calls spelled differently': {
                'alphabet': list(MFR_ALPHABET), 'max_content_len': sp_len, 'members': '1-3, empty members included',
                'program_steps': sp_prog, 'instructions': list(MFR_INSTR) + list(MFR_SPELLINGS),
                'programs': 'those with at least one of ' + ', '.join(MFR_SPELLINGS),
                'kinds': ['text (io.StringIO members)', 'bytes (io.BytesIO members)']},
            'MultiFileReader over other kinds of member files': [
                {'member_kinds': list(kinds), 'alphabet': list(MFR_ALPHABET_X), 'max_content_len': xlen,
                 'members': '1-3, empty members included', 'program_steps': xprog, 'instructions': list(MFR_INSTR)}
                for kinds, xlen, xprog in spaces],
            'MultiFileReader, READ_CHUNK_SIZE scaled to 2': {
                'alphabet': list(MFR_ALPHABET), 'max_content_len': ck_len, 'members': '1-3, empty members included',
                'program_steps': ck_prog, 'instructions': list(MFR_INSTR),
                'kinds': ['text (io.StringIO members)', 'bytes (io.BytesIO members)']},
            'bulk (directed, NOT exhaustive)': {
                'module constants found by introspection': consts, 'thresholds': ts,
                'spooled content sizes': sp_sizes, 'spooled max_sizes': 'n = content size: 1, n//3+2, n, n+1',
                'spooled positions': '0, n//2, n-1, c and c+1 for each module constant c < n',
                'spooled programs': [[list(o) for o in pr] for pr in bulk_programs(100)],
                'MultiFileReader member lengths and read amounts': mb_sizes,
                'MultiFileReader (mixed member kinds) lengths and amounts': mb_few,
                'MultiFileReader members': '(first, 5, another bulk size); programs: (amt, amt, read), (amt, seek0, '
                                           'amt, amt, read), (1, amt, read, seek0, amt), amt until the data ends',
                'cases': len(mb_cases),
                'spooled, every character': 'contents of %d consecutive code points (surrogates skipped) covering '
                                            'U+0000-U+10FFFF once, written in three pieces, max_size 1, n, 3n, 10**6; '
                                            'SpooledBytesIO: every byte value 0-255 (1024 bytes, from 0 and from 128)'
                                            % SWEEP_BLOCK,
                'spooled, many-piece writes': 'numbered content of n items written one item at a time through write(), '
                                              'writelines(list) and writelines(generator), n in %r (recursion limit + '
                                              '1, a power of two + 1), max_size 1, n//2, n, n+1' % (sd_counts,),
                'spooled sweep programs': [[list(o) for o in pr] for pr in sweep_programs(100)],
                'MultiFileReader, many member files': {
                    'member counts': mm_counts, 'member length patterns (repeated)': {k: list(v) for k, v in
                                                                                     MANY_PATTERNS.items()},
                    'kinds': ['text', 'bytes'] + list(MFR_KINDS_X_MIXED),
                    'programs (T = total length)': '(T+5), (10, 5T/6, read), (read, seek0, T), 3 x (T/2+1), (3, seek0, '
                                                   'T+1, seek0, read), 12 x 7 then read',
                    'cases': len(mm_cases)}},
            'mixed member kinds (member i is of kind [i % 3])': {k: list(v) for k, v in MIXED.items()}}
        cov['exhaustive'] = bool(spooled_exhaustive)
        cov['directed_parts_not_exhaustive'] = [
            'spooled files, bulk contents (directed)',
            'spooled files, every character / byte value and many-piece writes (directed)',
            'MultiFileReader, bulk members and amounts (directed)',
            'MultiFileReader, partitions into many member files (directed)']
    ctx.assumptions += [
        "write()'s return value is not compared; writes happen only with the position at the end of the data; seeks "
        "only to positions 0..len (DESIGN 5.1)",
        'writelines() is taken as an appending write (items of the right type only; a list, a tuple, a generator, an '
        'iterator); relative seeks with a non-zero offset are explored on SpooledBytesIO only: io.StringIO refuses '
        'them, so there is no reference value for SpooledStringIO',
        'sizes that limit - readline(size >= 0), readlines(hint > 0) - read(None), truncate() and the aliases pos / buf '
        'are not named by the statement and are not called; the spellings of "no limit" that io documents are: '
        + ', '.join('%s(%r)' % o for o in NOLIMIT_OPS),
        'the reference is io.BytesIO() / io.StringIO() with default arguments (newline="\\n": only \\n ends a line)',
        'contents with \\v \\f FS GS RS NEL LS PS (line boundaries of str.splitlines() only): explored for both classes; '
        + ('full menu, lone \\r included' if TEXT_LINE_OPS_ON_BREAK_WORDS else
           'for SpooledStringIO WITHOUT readline() / next() / iteration and without a lone \\r: on the unchanged tree '
           'these end a line there, unlike io.StringIO - reported with fix C18-4, excluded until it is applied '
           '(TEXT_LINE_OPS_ON_BREAK_WORDS)'),
        'bulk-size scenarios (contents, members and read amounts around module constants, the io buffer size and powers '
        'of two) are directed samples, not an exhaustive space',
        'explicit rollover() is treated as a configuration event (no-op on the reference): it must keep content and '
        'position',
        'MultiFileReader: a sized read may return fewer items than asked (but not zero) while data remains',
        'MultiFileReader members are file objects whose own read(n) is exact (io, open(), the Spooled classes); codecs '
        'stream readers, whose read(size) is approximate, are not used as members',
        'the stdlib objects underneath (BytesIO, TemporaryFile on tmpfs, codecs.StreamReader) are trusted']


# ======================================================================================================

def replay(ctx, data):
    case = data['case']
    msgs = []
    with scratch_tmpdir():
        if case.get('part') == 'mfr-bulk':
            from boltons import ioutils
            prog = tuple(i if isinstance(i, str) else int(i) for i in case['program'])
            try:
                with cpu_budget(30.0):
                    v = mfr_bulk_run(ioutils, case['kind'], tuple(case['member_lengths']), case['content'], prog)
            except Hang:
                v = ('read|terminates', 'returns', 'no return within the CPU budget')
            if v is not None:
                msgs.append('C18|mfr:%s member_lengths=%r program=%r expected=%r observed=%r'
                            % (v[0], case['member_lengths'], list(prog), v[1], v[2]))
            return msgs
        if case.get('part') == 'mfr':
            from boltons import ioutils
            prog = [i if isinstance(i, str) else int(i) for i in case['program']]
            try:
                with cpu_budget(30.0):
                    v = mfr_run(ioutils, case['kind'], tuple(case['members']), tuple(prog),
                                case.get('READ_CHUNK_SIZE'))
            except Hang:
                v = ('read|terminates', 'returns', 'no return within the CPU budget')
            if v is not None:
                msgs.append('C18|mfr:%s members=%r program=%r expected=%r observed=%r'
                            % (v[0], case['members'], prog, v[1], v[2]))
            return msgs
        cfg = case['config']
        chunk = cfg['READ_CHUNK_SIZE']
        spec = Spec('bytes' if cfg['class'] == 'SpooledBytesIO' else 'text', None if chunk == 'native' else int(chunk),
                    cfg['max_writes'], words=cfg['words'], wl_shapes=cfg.get('writelines_shapes', WL_SHAPES),
                    line_ops=cfg.get('line_by_line_reads', True), max_sizes=cfg.get('max_sizes', MAX_SIZES))
        hist = [tuple(tuple(a) if isinstance(a, list) else a for a in op) for op in case['history']]
        spec.bulk = any(op[0] == 'write_bulk' for op in hist)
        with spec.seam() as ioutils:
            for i in range(len(hist)):
                viols, key, label = spec.step(ioutils, tuple(hist[:i]), hist[i])
                for v in viols:
                    msgs.append('step %d %r: %s expected=%r observed=%r %r' % (i, hist[i], v[0], v[2], v[3], v[4]))
                if key is None:
                    break
    return msgs

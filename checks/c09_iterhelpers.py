"""C09 - chunking, windowing, splitting and grouping helpers conserve elements and order.

Engine E2 (mc.inputs): every sequence up to a length bound over a small alphabet, in every presentation
(list, tuple, one-shot generator, str, bytes) and with every small valid parameter, is run through the real
boltons.iterutils helpers and compared with an independent oracle:

  chunked / chunked_iter      slice arithmetic: concatenation, chunk sizes, padding, count prefix
  windowed / pairwise (+iter) the contiguous slices s[i:i+size] (padded variant: one per element)
  split / strip / lstrip / rstrip (+iter)
                              str.split / str.strip on the corresponding character string
                              (SEP -> ' ' for sep=None, SEP -> ',' otherwise), mapped back to elements
  unique / redundant / bucketize / partition
                              first occurrences, collections.Counter, "elements with that key, in order"
  chunk_ranges                the clauses of the statement as arithmetic predicates

Extensions beyond the basic space (all within the statement's "every input sequence / all valid parameters"):
  * presentations that are neither sequences nor generators: dict values views, deques and list iterators (any
    sequence) for every helper, and dicts, OrderedDicts, key views, sets and frozensets (sequences of distinct hashable items; the
    expected order is the iteration order of that very object) for the keyed helpers;
  * elements that are not hashable (a list and a dict) for split / strip with a single separator value or a callable;
  * chunk_ranges with sizes / offsets far beyond 2**53 (directed grid around powers of two, a handful of chunks each;
    coverage is decided by interval arithmetic) - a finite directed grid, NOT an exhaustive space;
  * elements that are EQUAL to the separator / strip value / an earlier element without being the same object (every
    occurrence in the source is a freshly built object, ints and equal floats alternating; also the falsy pair 0 / 0.0):
    "the corresponding character" and "the same key" are decided by ==, never by identity;
  * unique / redundant with key = the name of an attribute that some elements do not have (documented for unique_iter:
    "falling back on identity when the attribute is not present"; redundant is documented as the complement of unique);
  * chunk_ranges called with its optional arguments omitted (input_offset 0, overlap_size 0, align False).
  * sources that are iterable only through __getitem__ (old sequence protocol) or only through __iter__ (unsized);
  * sep given as other shapes of "an iterable of separators": tuple, dict, one-shot iterator / generator / map, an
    object iterable through __getitem__ only;
  * results are compared element by element with the input elements at the expected positions (same object, or equal
    AND of the same type): split / strip / unique / bucketize / partition hand back the input's elements, not
    stand-ins that merely compare equal (1 for 1.0, the strip value for an element that is == to it);
  * a strip value that is == to a whole class of elements (the analogue of whitespace for str.strip()).
  * a strip value that is itself a container (tuple, list, frozenset, range, dict, bytearray ...): still ONE value;
  * items that compare (and hash) equal although their keys differ (1 / True / 1.0 keyed by type, records whose == ignores
    the key attribute): unique / redundant / bucketize are about keys;
  * bulk inputs (hundreds to ~130 000 elements, lengths and sizes around powers of two and around every integer constant
    of the module under test) for every helper - a finite directed grid, NOT an exhaustive space.

Only parameters the statement calls valid are explored (size >= 1, count >= 1, 0 <= overlap < chunk_size,
maxsplit None or >= 0, bool-valued keys for partition ...).
"""
import collections
import fractions
import itertools
import signal
from collections import Counter

from mc import core, inputs

PROPERTY = 'C09'
LEVEL = 'exploration'

LIMIT = 64            # step limit when draining an iterator form (legitimate outputs have <= ~12 items)
CASE_CPU_S = 5.0      # CPU budget (user time of the worker) of one case; a normal case takes microseconds
MAX_HANGS = 1         # a shard stops after this many exhausted budgets / runaway iterators


class Budget(BaseException):
    pass


def _on_timer(signum, frame):
    raise Budget()


def _arm():
    signal.signal(signal.SIGVTALRM, _on_timer)


def iu():
    # every evaluation is the second call with the same arguments (see inputs.second_call): results must not depend
    # on earlier calls or on what the caller did with an earlier result
    from boltons import iterutils
    return inputs.SecondCallModule(iterutils)


def call(f, *a, **k):
    """Value of f(*a, **k), or the string 'raised <Type>'."""
    try:
        return f(*a, **k)
    except Exception as e:     # noqa - any exception of the code under test is an observation
        return 'raised %s' % type(e).__name__


def drain(make_iter):
    """First LIMIT+1 items of a freshly made iterator (or 'raised X')."""
    def go():
        return list(itertools.islice(make_iter(), LIMIT + 1))
    return call(go)


def runaway(x):
    return isinstance(x, list) and len(x) > LIMIT


def fresh(x, j=0):
    """An object equal to x that is not x (where the type allows it): what parsing, arithmetic or I/O hand to a caller.
    Ints alternate (by position j) between a newly built int and the equal float."""
    if isinstance(x, bool) or x is None:
        return x
    if isinstance(x, int):
        return float(x) if j % 2 else int(str(x))
    if isinstance(x, float):
        return float(repr(x))
    if isinstance(x, str):
        return ''.join(list(x))
    if isinstance(x, tuple):
        return tuple(list(x))
    if isinstance(x, fractions.Fraction):
        return fractions.Fraction(x.numerator, x.denominator)
    return x


class LegacySeq:
    """A finite sequence that is iterable only through the old sequence protocol (__getitem__ + IndexError, __len__,
    no __iter__): for / list() / itertools accept it, isinstance(x, collections.abc.Iterable) does not."""

    def __init__(self, xs):
        self._xs = list(xs)

    def __getitem__(self, i):
        return self._xs[i]

    def __len__(self):
        return len(self._xs)

    def __repr__(self):
        return 'LegacySeq(%r)' % (self._xs,)


class IterOnly:
    """A re-iterable collection that offers __iter__ and nothing else (no length, no indexing)."""

    def __init__(self, xs):
        self._xs = list(xs)

    def __iter__(self):
        return iter(list(self._xs))

    def __repr__(self):
        return 'IterOnly(%r)' % (self._xs,)


class EqClass:
    """A strip value / separator that is == to every member of a class of elements (what whitespace is to str.strip())."""

    def __init__(self, members):
        self._members = tuple(members)

    def __eq__(self, other):
        return isinstance(other, str) and other in self._members

    __hash__ = None

    def __repr__(self):
        return 'EqClass%r' % (self._members,)


def same(x, y):
    """x is the element y as far as a caller can tell without `is`: the same object, or equal and of the same type."""
    return x is y or (type(x) is type(y) and x == y)


def same_seq(xs, ys):
    return len(xs) == len(ys) and all(same(x, y) for x, y in zip(xs, ys))


def src_elems(elems, seq, copy=False):
    """The elements of the source make_src builds, position by position (fresh() is deterministic in value and type)."""
    return [fresh(elems[i], j) if copy else elems[i] for j, i in enumerate(seq)]


def make_src(elems, seq, form, copy=False):
    xs = [elems[i] for i in seq]
    if copy:
        xs = [fresh(x, j) for j, x in enumerate(xs)]
    if form == 'list':
        return xs
    if form == 'tuple':
        return tuple(xs)
    if form == 'gen':
        return (x for x in xs)
    if form == 'iter':                         # a one-shot iterator that is not a generator (and has a length hint)
        return iter(xs)
    if form == 'str':
        return ''.join(xs)
    if form == 'bytes':
        return bytes(xs)
    if form == 'values':                       # re-iterable, sized, neither a sequence nor a Set/Mapping
        return dict(enumerate(xs)).values()
    if form == 'deque':
        return collections.deque(xs)
    if form == 'legacy':                       # iterable through __getitem__ only
        return LegacySeq(xs)
    if form == 'iteronly':                     # iterable through __iter__ only, not sized
        return IterOnly(xs)
    # the remaining presentations need distinct hashable items
    if form == 'dict':
        return dict.fromkeys(xs)
    if form == 'odict':
        return collections.OrderedDict.fromkeys(xs)
    if form == 'keys':
        return dict.fromkeys(xs).keys()
    if form == 'set':
        return set(xs)
    if form == 'frozenset':
        return frozenset(xs)
    raise AssertionError(form)


def show(x):
    return core.jsonable(x)


# ======================================================================================================
# chunked / chunked_iter

def pos_elems(form, sepval='s', kind=None):
    if form == 'str':
        return (',', 'a', 'b')
    if form == 'bytes':
        return (44, 97, 98)
    if kind == 'unhashable':       # rows of a table, parsed records ...: the non-separator elements cannot be hashed
        return (sepval, ['a'], {'b': 1})
    if kind == 'equal':            # every occurrence in the source is a fresh object equal to these (see fresh())
        return (EQUAL_SEP, ('a', 1), 'bee')
    if kind == 'falsy':            # a separator that is falsy, occurring as 0 and as 0.0
        return (0, ('a', 1), 'bee')
    if kind in CONTAINER_KINDS:    # rows, coordinates, sets: the strip value is itself a container, yet ONE value
        return CONTAINER_KINDS[kind]
    if kind in TOKEN_KINDS:        # tokens of a lexer / lines of a protocol: the separator is itself a str / bytes object
        return TOKEN_KINDS[kind]
    return (sepval, 'a', 'b')


EQUAL_SEP = 10 ** 5 + 3           # beyond CPython's cache of small ints: int(str(EQUAL_SEP)) is a new object each time
COPY_KINDS = ('equal', 'falsy')   # element kinds whose source is built from fresh copies
# elements that are whole str / bytes tokens (several characters, one character, none); the first is the separator /
# strip value: a single str or bytes object is ONE separator value, however many characters it has
TOKEN_KINDS = {
    'bytestok':   (b'\r\n', b'a', b''),
    'strtok':     ('\r\n', 'ab', ''),
    'emptybytes': (b'', b'a', b'bb'),
    'emptystr':   ('', 'a', 'bb'),
    'mixedtok':   (b'--', '--', b'-'),     # the str that spells the same and a byte of the separator are not separators
}
# elements that are themselves containers; the first is the strip value.  "Stripped items will match the value of
# the argument strip_value": one value compared with ==, never a collection of values (that is split's sep)
CONTAINER_KINDS = {
    'tupleval':   ((0, 0), (1, 1), 'b'),
    'nestedval':  ((0, (0,)), 0, (0,)),        # the members of the strip value occur as elements: they stay
    'emptytuple': ((), (0,), 0),
    'listval':    ([0], [1], 0),
    'fsetval':    (frozenset({0}), frozenset({1}), 0),
    'rangeval':   (range(2), range(3), 1),
    'dictval':    ({'k': 0}, {'k': 1}, 'k'),
    'bytearrval': (bytearray(b'ab'), bytearray(b'a'), 97),
}


def fill_value(name, form):
    if name == 'none':
        return None
    return 122 if form == 'bytes' else 'z'


def norm_chunk(chunk, form):
    """A chunk as a list of elements; None if it has not the type the input form calls for
    (concatenating the chunks must give back a str for a str, bytes for bytes)."""
    if form == 'str':
        return list(chunk) if isinstance(chunk, str) else None
    if form == 'bytes':
        return list(chunk) if isinstance(chunk, bytes) else None
    return list(chunk) if isinstance(chunk, (list, tuple)) else None


def ev_chunked(c):
    seq, form, size, fill, count = c['seq'], c['form'], c['size'], c['fill'], c['count']
    elems = pos_elems(form)
    xs = [elems[i] for i in seq]
    kw = {} if fill == 'unset' else {'fill': fill_value(fill, form)}
    shape = ','.join(s for s in ('fill' if kw else '', 'count' if count is not None else '') if s)
    shape = '(%s)' % shape if shape else ''
    out = []

    # oracle: the statement determines the chunk list uniquely
    nfull, rest = divmod(len(xs), size)
    pad = [kw['fill']] * (size - rest) if (kw and rest) else []
    want_concat = xs + pad
    want_sizes = [size] * nfull + ([size if kw else rest] if rest else [])
    if count is not None:
        want_sizes = want_sizes[:count]
        want_concat = want_concat[:sum(want_sizes)]

    def judge(fn, res):
        if not isinstance(res, list):
            return [('C09|fn:%s|result%s' % (fn, shape), {'sizes': want_sizes, 'concatenation': want_concat}, show(res))]
        chunks = [norm_chunk(ch, form) for ch in res]
        if any(ch is None for ch in chunks):
            return [('C09|fn:%s|chunk-type%s' % (fn, shape), 'chunks of type %s' % ('list' if form not in ('str', 'bytes') else form),
                     show(res))]
        concat = [x for ch in chunks for x in ch]
        if concat != want_concat:
            return [('C09|fn:%s|concatenation%s' % (fn, shape), show(want_concat), show(res))]
        if [len(ch) for ch in chunks] != want_sizes:
            return [('C09|fn:%s|chunk-sizes%s' % (fn, shape), want_sizes, show(res))]
        return []

    if count is None:
        it = drain(lambda: iu().chunked_iter(make_src(elems, seq, form), size, **kw))
        if runaway(it):
            return [('C09|fn:chunked_iter|terminates', 'at most %d chunks' % len(want_sizes), 'more than %d chunks' % LIMIT)]
        lst = call(iu().chunked, make_src(elems, seq, form), size, **kw)
        out += judge('chunked', lst)
        if not out and it != lst:
            out.append(('C09|fn:chunked_iter|same-items-as-list-form%s' % shape, show(lst), show(it)))
    else:
        lst = call(iu().chunked, make_src(elems, seq, form), size, count, **kw)
        out += judge('chunked', lst)
    return out


# ======================================================================================================
# windowed / pairwise

def ev_windowed(c):
    seq, form, fill = c['seq'], c['form'], c['fill']
    pair = c['fn'] == 'pairwise'
    size = 2 if pair else c['size']
    elems = pos_elems(form)
    xs = [elems[i] for i in seq]
    has_fill = fill != 'unset'
    fv = None if fill == 'none' else 'z'
    if has_fill:
        want = [tuple(xs[i:i + size]) + (fv,) * (size - len(xs[i:i + size])) for i in range(len(xs))]
    else:
        want = [tuple(xs[i:i + size]) for i in range(len(xs) - size + 1)]
    I = iu()
    if pair:
        kw = {'end': fv} if has_fill else {}
        f_it = lambda: I.pairwise_iter(make_src(elems, seq, form), **kw)          # noqa
        f_ls = lambda: I.pairwise(make_src(elems, seq, form), **kw)               # noqa
        name, what = 'pairwise', 'pairs' + ('(end)' if has_fill else '')
    else:
        kw = {'fill': fv} if has_fill else {}
        f_it = lambda: I.windowed_iter(make_src(elems, seq, form), size, **kw)    # noqa
        f_ls = lambda: I.windowed(make_src(elems, seq, form), size, **kw)         # noqa
        name, what = 'windowed', 'windows' + ('(fill)' if has_fill else '')
    it = drain(f_it)
    if runaway(it):
        return [('C09|fn:%s_iter|terminates' % name, 'at most %d windows' % len(want), 'more than %d' % LIMIT)]
    lst = call(f_ls)
    got = lst
    if isinstance(lst, list) and all(isinstance(w, (tuple, list)) for w in lst):
        got = [tuple(w) for w in lst]
    if got != want:
        return [('C09|fn:%s|%s' % (name, what), show(want), show(lst))]
    if it != lst:
        return [('C09|fn:%s_iter|same-items-as-list-form' % name, show(lst), show(it))]
    return []


# ======================================================================================================
# split / split_iter

# variant -> (separator element for list-like forms, grouping like str.split(None)?)
SPLIT_VARIANTS = {
    'default':  (None, True),      # sep omitted
    'None':     (None, True),      # sep=None passed explicitly
    'value':    ('S', False),
    'list':     ('S', False),      # sep=['S']
    'set':      ('S', False),      # sep={'S', 'q'}
    'callable': ('S', False),      # sep=lambda x: x == 'S'
    'listNone': (None, False),     # sep=[None]  (the documented way to switch grouping off)
    # further shapes of "an iterable of separators"
    'tuple':    ('S', False),      # sep=('S',)
    'iter':     ('S', False),      # sep=iter(['S'])           a one-shot iterator
    'genexp':   ('S', False),      # sep=(x for x in ['S', 'q'])  a one-shot generator
    'legacy':   ('S', False),      # sep=LegacySeq(['S', 'q']) iterable through __getitem__ only
    'dict':     ('S', False),      # sep={'S': 1}              its keys
}
NEW_SEP_VARIANTS = ('tuple', 'iter', 'genexp', 'legacy', 'dict')


def split_sep_arg(variant, sepval):
    if variant == 'None':
        return None
    if variant == 'value':
        return sepval
    if variant == 'list':
        return [sepval]
    if variant == 'set':
        return {sepval, 'q'}
    if variant == 'callable':
        return lambda x: x == sepval
    if variant == 'listNone':
        return [None]
    if variant == 'tuple':
        return (sepval,)
    if variant == 'iter':
        return iter([sepval])
    if variant == 'genexp':
        return (x for x in [sepval, 'q'])
    if variant == 'legacy':
        return LegacySeq([sepval, 'q'])
    if variant == 'dict':
        return {sepval: 1}
    raise AssertionError(variant)


def ev_split(c):
    seq, form, variant, ms = c['seq'], c['form'], c['sep'], c['maxsplit']
    sepval, grouping = SPLIT_VARIANTS[variant]
    elems = pos_elems(form, sepval, c.get('elems'))
    chars = (' ' if grouping else ',', 'a', 'b')
    def kw():        # built anew for every call: the separator collection may be a one-shot iterator
        k = {}
        if variant != 'default':
            k['sep'] = split_sep_arg(variant, elems[0])
        if ms != 'unset':
            k['maxsplit'] = ms
        return k
    copy = c.get('elems') in COPY_KINDS
    text = ''.join(chars[i] for i in seq)
    parts = text.split(None if grouping else ',', -1 if ms in ('unset', None) else ms)
    want = [[elems[chars.index(ch)] for ch in p] for p in parts]
    # the same groups as source elements, position by position (a separator inside an unsplit remainder, an element
    # that is merely == to another one: each is the element of the input at that position)
    src, want_el, pos = src_elems(elems, seq, copy), [], 0
    for p in parts:
        if grouping:
            pos = text.index(p, pos)
        want_el.append(src[pos:pos + len(p)])
        pos += len(p) + (0 if grouping else 1)
    if [''.join(chars[elems.index(x)] for x in w) for w in want_el] != parts:
        raise AssertionError('oracle: positions of the str.split parts')
    sepshape = 'sep=None' if grouping else 'sep=token' if c.get('elems') in TOKEN_KINDS else 'sep=given'
    msshape = '' if ms in ('unset', None) else ',maxsplit'
    it = drain(lambda: iu().split_iter(make_src(elems, seq, form, copy), **kw()))
    if runaway(it):
        return [('C09|fn:split_iter|terminates', 'at most %d groups' % len(want), 'more than %d' % LIMIT)]
    lst = call(iu().split, make_src(elems, seq, form, copy), **kw())
    if not (isinstance(lst, list) and all(isinstance(g, (list, tuple)) and all(any(x is e or x == e for e in elems) for x in g)
                                          for g in lst)):
        return [('C09|fn:split|groups-are-lists-of-input-elements(%s)'
                 % ('maxsplit=0' if ms == 0 else sepshape + msshape), show(want), show(lst))]
    if [list(g) for g in lst] != want:
        return [('C09|fn:split|result(%s%s)' % (sepshape, msshape), show(want), show(lst))]
    if not (len(lst) == len(want_el) and all(same_seq(list(g), w) for g, w in zip(lst, want_el))):
        return [('C09|fn:split|groups-hold-the-input-elements-themselves(%s%s)' % (sepshape, msshape),
                 show([[repr(x) for x in w] for w in want_el]), show([[repr(x) for x in g] for g in lst]))]
    if it != lst:
        return [('C09|fn:split_iter|same-items-as-list-form', show(lst), show(it))]
    return []


# two different separators at once (sep = a set / a callable accepting both); both map to ','
def ev_split2(c):
    seq, form, variant, ms = c['seq'], c['form'], c['sep'], c['maxsplit']
    elems = ('S', 'T', 'a', 'b')
    chars = (',', ',', 'a', 'b')
    def kw():        # built anew for every call: the separator collection may be a one-shot iterator
        sep = {'set2': lambda: {'S', 'T'}, 'callable2': lambda: (lambda x: x in ('S', 'T')),
               'iter2': lambda: iter(['S', 'T']), 'map2': lambda: map(str.upper, 'st'),
               'legacy2': lambda: LegacySeq(['S', 'T'])}[variant]()
        k = {'sep': sep}
        if ms != 'unset':
            k['maxsplit'] = ms
        return k
    # the separators inside an unsplit remainder keep their identity: compare position-wise
    text = ''.join(chars[i] for i in seq)
    parts = text.split(',', -1 if ms in ('unset', None) else ms)
    want, pos = [], 0
    for p in parts:
        want.append([elems[seq[pos + j]] for j in range(len(p))])
        pos += len(p) + 1
    msshape = '' if ms in ('unset', None) else ',maxsplit'
    it = drain(lambda: iu().split_iter(make_src(elems, seq, form), **kw()))
    if runaway(it):
        return [('C09|fn:split_iter|terminates', 'at most %d groups' % len(want), 'more than %d' % LIMIT)]
    lst = call(iu().split, make_src(elems, seq, form), **kw())
    if not (isinstance(lst, list) and all(isinstance(g, (list, tuple)) and all(x in elems for x in g) for g in lst)):
        return [('C09|fn:split|groups-are-lists-of-input-elements(%s)'
                 % ('maxsplit=0' if ms == 0 else 'sep=given' + msshape), show(want), show(lst))]
    if [list(g) for g in lst] != want:
        return [('C09|fn:split|result(sep=given%s)' % msshape, show(want), show(lst))]
    if it != lst:
        return [('C09|fn:split_iter|same-items-as-list-form', show(lst), show(it))]
    return []


# ======================================================================================================
# strip / lstrip / rstrip

STRIP_VARIANTS = {
    'default': None,       # strip_value omitted, separator element None
    'None': None,          # strip_value=None explicitly
    'value': 'S',
}


def ev_strip(c):
    fn, seq, form, variant = c['fn'], c['seq'], c['form'], c['strip_value']
    kind = c.get('elems')
    if kind == 'eqclass':
        # the strip value is == to a class of elements, as whitespace is for str.strip(): the oracle is str.strip()
        # without argument on the very same characters
        elems = chars = (' ', '\t', 'a')
        args = (EqClass(elems[:2]),)
        text = ''.join(chars[i] for i in seq)
        stripped = getattr(text, fn)()
    else:
        elems = pos_elems(form, STRIP_VARIANTS[variant], kind)
        chars = (' ' if variant != 'value' else ',', 'a', 'b')
        args = () if variant == 'default' else (elems[0],)
        text = ''.join(chars[i] for i in seq)
        stripped = getattr(text, fn)(chars[0])
        if variant != 'value' and stripped != getattr(text, fn)():
            raise AssertionError('oracle: strip() and strip(" ") differ')
    want = [elems[chars.index(ch)] for ch in stripped]
    copy = kind in COPY_KINDS
    # the same result as elements of the source, position by position
    lo = 0 if fn == 'rstrip' else len(text) - len(text.lstrip(*((chars[0],) if kind != 'eqclass' else ())))
    want_el = src_elems(elems, seq, copy)[lo:lo + len(stripped)]
    if text[lo:lo + len(stripped)] != stripped:
        raise AssertionError('oracle: position of the stripped text')
    I = iu()
    it = drain(lambda: getattr(I, fn + '_iter')(make_src(elems, seq, form, copy), *args))
    if runaway(it):
        return [('C09|fn:%s_iter|terminates' % fn, 'at most %d items' % len(want), 'more than %d' % LIMIT)]
    lst = call(getattr(I, fn), make_src(elems, seq, form, copy), *args)
    got = list(lst) if isinstance(lst, (list, tuple)) else lst
    if got != want:
        return [('C09|fn:%s|result' % fn, show(want), show(lst))]
    if not same_seq(got, want_el):
        return [('C09|fn:%s|result-holds-the-input-elements-themselves' % fn, show([repr(x) for x in want_el]),
                 show([repr(x) for x in got]))]
    if it != lst:
        return [('C09|fn:%s_iter|same-items-as-list-form' % fn, show(lst), show(it))]
    return []


# ======================================================================================================
# unique / redundant / bucketize / partition

MISSING = ('<no such attribute>',)


class Obj:
    __slots__ = ('k', 'flag', 'name')

    def __init__(self, k, flag, name):
        self.flag, self.name = flag, name
        if k is not MISSING:         # an unset slot: getattr(obj, 'k') raises AttributeError
            self.k = k

    def __repr__(self):
        return self.name

    def __hash__(self):              # identity equality, but a hash (hence a set order) that is the same in every run
        return hash(self.name)


class Ver:
    """A record whose == and hash cover only part of its state (the number): two records may be equal and still have
    different values of the attribute that serves as the key."""

    def __init__(self, num, stage):
        self.num, self.stage = num, stage

    def __eq__(self, other):
        return isinstance(other, Ver) and self.num == other.num

    def __hash__(self):
        return hash(self.num)

    def __repr__(self):
        return 'Ver(%d,%s)' % (self.num, self.stage)


# universes whose items may compare equal (and hash equal) although their keys differ: "the first occurrence of each
# KEY" / "in exactly one bucket" are about keys, whatever == says about the items
EQ_UNIVERSES = ('eqmix', 'eqvers')


def universe(name, form):
    """-> (items, keys) : the item objects and the key value of each."""
    if name == 'plain':
        if form == 'bytes':
            return (97, 98, 99), (97, 98, 99)
        return ('a', 'b', 'c'), ('a', 'b', 'c')
    if name == 'words':     # distinct hashable items whose keys (len) collide
        return ('a', 'bb', 'cc', 'd', 'eee'), (1, 2, 2, 1, 3)
    if name == 'nones':     # falsy scalars, None included: values that ad-hoc "not seen yet" markers collide with
        return (None, 0, ''), (None, 0, '')
    ks = ('A', 'A', 'B', 'B', 'C')
    if name == 'pairs':
        return tuple((k, i) for i, k in enumerate(ks)), ks
    if name == 'lists':
        return tuple([k, i] for i, k in enumerate(ks)), ks
    if name == 'objs':
        return tuple(Obj(k, None, '%s%d' % (k, i)) for i, k in enumerate(ks)), ks
    if name == 'truth':
        return ('', 'x', 0, 5), (False, True, False, True)
    if name == 'strs':      # key: is it a string
        return ('', 'x', 0, 5), (True, True, False, False)
    if name == 'partial':   # records some of which lack the key attribute: such an element is its own key; one has k=None
        items = (Obj('A', None, 'A0'), Obj('A', None, 'A1'), Obj(MISSING, None, 'm2'), Obj(MISSING, None, 'm3'),
                 Obj(None, None, 'n4'))
        return items, ('A', 'A', items[2], items[3], None)
    if name == 'fracs':     # plain values: ints and Fractions have .denominator, strings have not
        return (3, 5, fractions.Fraction(1, 2), 'x', 'y'), (1, 1, 2, 'x', 'y')
    if name == 'fresh':     # every occurrence in the source is a new object equal to one of these (see fresh())
        return (EQUAL_SEP, ('p', 7), 'long-string'), (EQUAL_SEP, ('p', 7), 'long-string')
    if name == 'eqmix':     # 1 == True == 1.0 (one hash), keyed by type / by repr
        return (1, True, 1.0, 0), (int, bool, float, int)
    if name == 'eqvers':
        st = ('rc', 'final', 'rc', 'final')
        return tuple(Ver(1 + i // 2, s) for i, s in enumerate(st)), st
    if name == 'flags':
        fl = (True, True, False, False, True)
        return tuple(Obj(None, f, 'o%d' % i) for i, f in enumerate(fl)), fl
    raise AssertionError(name)


def key_arg(uni, kind, seq, keys):
    if kind in ('none', 'default'):
        return None
    if kind == 'fn':
        if uni in ('pairs', 'lists'):
            return lambda x: x[0]
        if uni == 'objs':
            return lambda x: x.k
        if uni == 'flags':
            return lambda x: x.flag
        if uni == 'strs':
            return lambda x: isinstance(x, str)
        if uni == 'words':
            return len
        if uni == 'eqmix':
            return type
        if uni == 'eqvers':
            return lambda x: x.stage
        return lambda x: x
    if kind == 'attr':
        return {'objs': 'k', 'eqvers': 'stage'}.get(uni, 'flag')
    if kind == 'attr-or-self':     # the name of an attribute that not every element has
        return {'partial': 'k', 'fracs': 'denominator'}[uni]
    if kind == 'list':
        return [keys[i] for i in seq]
    raise AssertionError(kind)


def labeller(items):
    def lab(x):
        for i, it in enumerate(items):
            if x is it:
                return i
        for i, it in enumerate(items):
            if type(x) is type(it) and x == it:
                return i
        for i, it in enumerate(items):     # an equal object of another type (the float standing for an int)
            if x == it:
                return i
        return '?%r' % (x,)
    return lab


def ev_keyed(c):
    fn, uni, kind, seq, form = c['fn'], c['u'], c['key'], c['seq'], c['form']
    items, keys = universe(uni, form)
    lab = labeller(items)
    karg = key_arg(uni, kind, seq, keys)
    kw = {} if kind in ('none', 'default') else {'key': karg}
    I = iu()
    shape = '(key=%s)' % kind
    copy = uni == 'fresh'

    def labs(xs):
        return [lab(x) for x in xs]

    if form in CONT_FORMS:
        # a re-iterable container: one object serves every call; the input sequence is what iterating it gives
        # (for sets: whatever order this very object has)
        obj = make_src(items, seq, form, copy)
        src_list = list(obj)
        seq = labs(src_list)
        if not all(isinstance(i, int) for i in seq):
            raise AssertionError('harness: container presentation does not iterate over the input items')
        src = lambda: obj                            # noqa
    else:
        src = lambda: make_src(items, seq, form, copy)     # noqa
        src_list = src_elems(items, seq, copy)
    seqkeys = [keys[i] for i in seq]

    def themselves(name, groups, positions):
        """Every result list holds the very elements of the input at the expected positions (not merely == ones)."""
        for g, ps in zip(groups, positions):
            if not same_seq(list(g), [src_list[p] for p in ps]):
                return [('C09|fn:%s|result-holds-the-input-elements-themselves%s' % (name, shape),
                         show([repr(src_list[p]) for p in ps]), show([repr(x) for x in g]))]
        return []

    if fn == 'unique':
        want, seen, want_pos = [], [], []
        for p, i in enumerate(seq):
            if keys[i] not in seen:
                seen.append(keys[i])
                want.append(i)
                want_pos.append(p)
        it = drain(lambda: I.unique_iter(src(), **kw))
        if runaway(it):
            return [('C09|fn:unique_iter|terminates', 'at most %d items' % len(want), 'more than %d' % LIMIT)]
        lst = call(I.unique, src(), **kw)
        got = labs(lst) if isinstance(lst, (list, tuple)) else lst
        if got != want:
            return [('C09|fn:unique|first-occurrences%s' % shape, want, show(got))]
        out = themselves('unique', [lst], [want_pos])
        if out:
            return out
        if not (isinstance(it, list) and labs(it) == got):
            return [('C09|fn:unique_iter|same-items-as-list-form', show(got), show(it))]
        return themselves('unique_iter', [it], [want_pos])

    if fn == 'redundant':
        groups = c['groups']
        cnt = Counter(seqkeys)
        want = sorted((k for k in cnt if cnt[k] > 1), key=repr)
        res = call(I.redundant, src(), groups=True, **kw) if groups else call(I.redundant, src(), **kw)
        got = res
        if isinstance(res, list):
            try:
                if groups:
                    got = []
                    for g in res:
                        ks = {keys[lab(x)] for x in g}
                        got.append(ks.pop() if len(ks) == 1 else ('mixed-or-empty-group', show(labs(g))))
                else:
                    got = [keys[lab(x)] for x in res]
                got = sorted(got, key=repr)
            except (TypeError, IndexError):      # an item that is not an input element
                got = ('not input elements', show(res))
        if got != want:
            return [('C09|fn:redundant|keys-seen-more-than-once(%s%s)' % ('groups,' if groups else '', shape[1:-1]),
                     show(want), show(labs(res) if isinstance(res, list) and not groups else res))]
        return []

    if fn == 'bucketize':
        want = {k: [i for i in seq if keys[i] == k] for k in set(seqkeys)}
        res = call(I.bucketize, src(), **kw)
        got = res
        if isinstance(res, dict) and all(isinstance(v, (list, tuple)) for v in res.values()):
            got = {k: labs(v) for k, v in res.items()}
        if got != want:
            return [('C09|fn:bucketize|buckets%s' % shape, show(want), show(got))]
        ks = list(res)
        out = themselves('bucketize', [res[k] for k in ks], [[p for p, i in enumerate(seq) if keys[i] == k] for k in ks])
        if out:
            return out
        # the two optional arguments, alone and combined with every key form: value_transform receives the element
        # itself (never the (key, element) pair of the key=list form), key_filter drops whole buckets and nothing else
        class Boxed:
            def __init__(self, inner):
                self.inner = inner
        first = seqkeys[0] if seqkeys else None
        for vt, kf in ((True, False), (False, True), (True, True)):
            kw2 = dict(kw)
            if vt:
                kw2['value_transform'] = Boxed
            if kf:
                kw2['key_filter'] = lambda k: not (k == first)
            r2 = call(I.bucketize, src(), **kw2)
            want2 = {k: v for k, v in want.items() if not (kf and k == first)}
            tag = 'C09|fn:bucketize|buckets(%s,%s%s)' % (shape[1:-1], 'value_transform' if vt else '',
                                                          ('+' if vt else '') + 'key_filter' if kf else '')
            if not (isinstance(r2, dict) and all(isinstance(v, list) for v in r2.values())):
                return [(tag, show(want2), show(r2))]
            if vt:
                if not all(type(x) is Boxed for v in r2.values() for x in v):
                    return [(tag + '|transformed-values', 'every bucket item is value_transform(element)', show(r2))]
                r2 = {k: [x.inner for x in v] for k, v in r2.items()}
            got2 = {k: labs(v) for k, v in r2.items()}
            if got2 != want2:
                return [(tag, show(want2), show(got2))]
            ks2 = list(r2)
            out = themselves('bucketize', [r2[k] for k in ks2],
                             [[p for p, i in enumerate(seq) if keys[i] == k] for k in ks2])
            if out:
                return out
        return []

    if fn == 'partition':
        want = ([i for i in seq if keys[i] is True], [i for i in seq if keys[i] is False])
        res = call(I.partition, src(), **kw)
        got = res
        if isinstance(res, tuple) and len(res) == 2 and all(isinstance(v, (list, tuple)) for v in res):
            got = (labs(res[0]), labs(res[1]))
        if got != want:
            return [('C09|fn:partition|truthy-falsy-lists%s' % shape, show(want), show(got))]
        return themselves('partition', res, [[p for p, i in enumerate(seq) if keys[i] is b] for b in (True, False)])
    raise AssertionError(fn)


# ======================================================================================================
# chunk_ranges

UNDECIDED = 'C09|undecided'      # not a violation: the case could not be decided within the step limit
SMALL_RANGE = 4096               # up to this input_size coverage is decided index by index, beyond it by an interval sweep
HUGE_CAP = 256                   # step limit for huge inputs (the grid needs at most ~8 ranges per case)


def covers(res, lo, hi):
    """Is every index of [lo, hi) inside some (begin, end) of res?  Interval sweep, the ranges in any order."""
    reach = lo
    for b, e in sorted(res):
        if reach >= hi or b > reach:
            break
        reach = max(reach, e)
    return reach >= hi


def ev_ranges(c):
    n, size, off, ov, align = c['input_size'], c['chunk_size'], c['input_offset'], c['overlap_size'], c['align']
    sfx = '(align)' if align else ''
    huge = n > SMALL_RANGE
    cap = HUGE_CAP if huge else n + 4

    def go():
        return list(itertools.islice(iu().chunk_ranges(n, size, input_offset=off, overlap_size=ov, align=align), cap + 1))
    out = judge_ranges(c, call(go), cap, sfx)
    if off == 0 and ov == 0 and not align and not huge and not out:
        # the optional arguments left out: the same clauses with input_offset 0, overlap_size 0, align False
        def go2():
            return list(itertools.islice(iu().chunk_ranges(n, size), cap + 1))
        out = judge_ranges(c, call(go2), cap, '(optional-arguments-omitted)')
    return out


def judge_ranges(c, res, cap, sfx):
    n, size, off, ov, align = c['input_size'], c['chunk_size'], c['input_offset'], c['overlap_size'], c['align']
    stop, step = off + n, size - ov
    huge = n > SMALL_RANGE
    if isinstance(res, list) and len(res) > cap:
        if huge:     # the statement does not bound the number of ranges and a huge input cannot be drained: no verdict
            return [(UNDECIDED, None, 'more than %d ranges' % cap)]
        return [('C09|fn:chunk_ranges|terminates%s' % sfx, 'at most %d ranges' % (n + 1), 'more than %d' % cap)]
    if not (isinstance(res, list) and all(isinstance(r, (tuple, list)) and len(r) == 2 and
                                          all(isinstance(v, int) for v in r) for r in res)):
        return [('C09|fn:chunk_ranges|yields-(begin,end)-pairs%s' % sfx, '(begin, end) int pairs', show(res))]
    out = []

    def bad(what, want):
        out.append(('C09|fn:chunk_ranges|%s%s' % (what, sfx), want, show(res)))
    if any(e - b > size for b, e in res):
        bad('no-longer-than-chunk_size', 'every end - begin <= %d' % size)
    if res and res[0][0] != off:
        bad('starts-at-input_offset', 'first begin == %d' % off)
    if res and res[-1][1] != stop:
        bad('ends-at-offset+size', 'last end == %d' % stop)
    if any(res[i][0] != res[i - 1][1] - ov for i in range(1, len(res))):
        bad('begin=previous-end-overlap', 'begin[i] == end[i-1] - %d' % ov)
    if align and any(res[i][0] % step for i in range(1, len(res))):
        bad('aligned-begins', 'begin[i] %% %d == 0 for i >= 1' % step)
    if huge:
        all_covered = covers(res, off, stop)
    else:
        covered = set()
        for b, e in res:
            covered.update(range(b, e))
        all_covered = set(range(off, stop)) <= covered
        if all_covered != covers(res, off, stop):
            raise AssertionError('oracle: interval sweep and index-by-index coverage disagree')
    if not all_covered:
        bad('covers-every-index', 'every index in [%d, %d)' % (off, stop))
    return out


# ======================================================================================================
# bulk inputs: lengths around typical block / buffer thresholds (a directed grid, NOT an exhaustive space)

def module_thresholds():
    """Integer constants of the module under test (block sizes, buffer sizes ...), found by introspection."""
    from boltons import iterutils
    return sorted({v for v in vars(iterutils).values() if type(v) is int and 2 <= v <= 1 << 17})


def bulk_lengths(tier, big=False):
    ks = (8, 10, 12, 13) if tier == 'quick' else (8, 9, 10, 11, 12, 13, 14, 15)
    base = {2 ** k for k in ks} | set(module_thresholds())
    if big:
        base = {2 ** 16} if tier == 'quick' else {2 ** 16, 2 ** 17}
    return sorted({b + d for b in base for d in (-1, 0, 1)} | {2 * b + 1 for b in base} | ({100003} if big else {10000}))


def bulk_sizes(tier):
    base = {256, 4096} | set(module_thresholds())
    return sorted({1, 2, 3, 7, 10, 100, 1000} | {b + d for b in base for d in (-1, 0, 1)})


def bulk_src(n, form, sep_every=0, lead=0, trail=0, sepval=None):
    """Element i of the bulk source is i (a character / byte derived from i for str / bytes); every sep_every-th one and
    the first `lead` / last `trail` ones are the separator."""
    if form == 'str':
        return ''.join(chr(0x100 + i % 1021) for i in range(n))
    if form == 'bytes':
        return bytes(i % 251 for i in range(n))
    xs = [sepval if (i < lead or i >= n - trail or (sep_every and i % sep_every == 0)) else i for i in range(n)]
    return xs


def bulk_present(xs, form):
    return {'gen': lambda: (x for x in xs), 'iter': lambda: iter(xs), 'tuple': lambda: tuple(xs),
            'deque': lambda: collections.deque(xs)}.get(form, lambda: xs)()


def first_diff(got, want):
    if not isinstance(got, list):
        return show(got)
    for i, (g, w) in enumerate(zip(got, want)):
        if g != w:
            return {'first difference at item': i, 'expected item': show(w), 'observed item': show(g),
                    'items expected': len(want), 'items observed': len(got)}
    return {'items expected': len(want), 'items observed': len(got), 'common prefix': min(len(got), len(want))}


def ev_bulk(c):
    fn, n, form = c['fn'], c['n'], c['form']
    I = iu()
    cap = 2 * n + 100
    norm = lambda r: r            # noqa
    it_name = fn + '_iter'
    if fn == 'chunked':
        size, fill = c['size'], c['fill']
        xs = bulk_src(n, form)
        kw = {} if fill == 'unset' else {'fill': fill_value(fill, form)}
        tail = xs[n - n % size:] if n % size else None
        want = [xs[i:i + size] for i in range(0, n - n % size, size)]
        if tail is not None:
            pad = (size - len(tail)) if kw else 0
            want.append(tail + ('z' * pad if form == 'str' else bytes([122]) * pad if form == 'bytes' else [kw.get('fill')] * pad))
        if form not in ('str', 'bytes'):
            norm = lambda r: [list(ch) if isinstance(ch, (list, tuple)) else ch for ch in r] if isinstance(r, list) else r   # noqa
        mk = lambda f: f(bulk_present(xs, form), size, **kw)      # noqa
        what = 'chunks(bulk%s)' % (',fill' if kw else '')
    elif fn in ('windowed', 'pairwise'):
        size, fill = (2 if fn == 'pairwise' else c['size']), c['fill']
        xs = bulk_src(n, form)
        if fill == 'unset':
            want, kw = [tuple(xs[i:i + size]) for i in range(n - size + 1)], {}
        else:
            want = [tuple(xs[i:i + size]) + (None,) * (i + size - n) for i in range(n)]
            kw = {'end' if fn == 'pairwise' else 'fill': None}
        norm = lambda r: [tuple(w) if isinstance(w, (list, tuple)) else w for w in r] if isinstance(r, list) else r   # noqa
        mk = (lambda f: f(bulk_present(xs, form), **kw)) if fn == 'pairwise' else (lambda f: f(bulk_present(xs, form), size, **kw))  # noqa
        what = 'windows(bulk%s)' % (',fill' if kw else '')
    elif fn == 'split':
        sepval = None if c['sep'] == 'None' else 'S'
        xs = bulk_src(n, form, sep_every=c['every'], lead=2, trail=2, sepval=sepval)
        want, cur = [], []
        for x in xs + [sepval]:
            if x is sepval:
                if cur or sepval is not None:     # sep=None groups runs of separators (str.split()), a given one does not
                    want.append(cur)
                cur = []
            else:
                cur.append(x)
        kw = {} if c['sep'] == 'None' else {'sep': sepval}
        norm = lambda r: [list(g) if isinstance(g, (list, tuple)) else g for g in r] if isinstance(r, list) else r   # noqa
        mk = lambda f: f(bulk_present(xs, form), **kw)      # noqa
        what = 'result(bulk,sep=%s)' % ('None' if sepval is None else 'given')
    elif fn in ('strip', 'lstrip', 'rstrip'):
        lead, trail = c['lead'], c['trail']
        xs = bulk_src(n, form, sep_every=c['every'], lead=lead, trail=trail)
        lo = next((i for i, x in enumerate(xs) if x is not None), n) if fn != 'rstrip' else 0
        hi = next((i + 1 for i in range(n - 1, -1, -1) if xs[i] is not None), 0) if fn != 'lstrip' else n
        want = xs[lo:max(lo, hi)]
        mk = lambda f: f(bulk_present(xs, form))      # noqa
        what = 'result(bulk)'
    else:      # unique / redundant / bucketize / partition over n items with d distinct keys
        d = c['keys']
        xs = bulk_src(n, form)
        key = (lambda x: x % d)
        it_name = 'unique_iter' if fn == 'unique' else None
        if fn == 'unique':
            want = xs[:min(n, d)]
        elif fn == 'redundant':
            want = sorted(k for k in range(min(n, d)) if k + d < n)
            norm = lambda r: sorted(key(x) for x in r) if isinstance(r, list) and all(isinstance(x, int) for x in r) else r   # noqa
        elif fn == 'bucketize':
            want = {k: xs[k::d] for k in range(min(n, d))}
            norm = lambda r: ({k: list(v) if isinstance(v, (list, tuple)) else v for k, v in r.items()}   # noqa
                              if isinstance(r, dict) else r)
        else:
            key = (lambda x: x % d == 0)
            want = [xs[0::d], [x for x in xs if x % d]]
            norm = lambda r: [list(v) if isinstance(v, (list, tuple)) else v for v in r] if isinstance(r, tuple) else r   # noqa
        mk = lambda f: f(bulk_present(xs, form), key=key)      # noqa
        what = 'result(bulk)'
    lst = norm(call(lambda: mk(getattr(I, fn))))
    if lst != want:
        return [('C09|fn:%s|%s' % (fn, what), {'items expected': len(want)}, first_diff(lst, want) if isinstance(want, list) else
                 ('buckets differ', len(lst) if isinstance(lst, dict) else show(lst)))]
    if it_name:
        it = call(lambda: list(itertools.islice(mk(getattr(I, it_name)), cap)))
        if isinstance(it, list) and len(it) >= cap:
            return [('C09|fn:%s|terminates' % it_name, '%d items' % len(want), 'more than %d' % cap)]
        if norm(it) != want:
            return [('C09|fn:%s|same-items-as-list-form(bulk)' % it_name, {'items expected': len(want)}, first_diff(norm(it), want))]
    return []


def gen_bulk(B, arg):
    fn = arg[0]
    tier = B['tier']
    if fn == 'chunked':
        _, form, fill, big = arg
        for n in bulk_lengths(tier, big):
            for size in ((3, 1000) if big else bulk_sizes(tier)):
                yield {'fn': fn, 'ev': 'bulk', 'n': n, 'form': form, 'size': size, 'fill': fill}, n > size
        return
    _, form = arg
    for n in bulk_lengths(tier):
        if fn in ('windowed', 'pairwise'):
            for size in ((2,) if fn == 'pairwise' else (2, 3, 257)):
                for fill in ('unset', 'none'):
                    yield {'fn': fn, 'ev': 'bulk', 'n': n, 'form': form, 'size': size, 'fill': fill}, n > size
        elif fn == 'split':
            for sep in ('None', 'value'):
                for every in (0, 2, 7, 1000):
                    yield {'fn': fn, 'ev': 'bulk', 'n': n, 'form': form, 'sep': sep, 'every': every}, True
        elif fn in ('strip', 'lstrip', 'rstrip'):
            for lead, trail in ((0, 0), (1, 1), (n // 3, n // 3), (n // 3, 0), (0, n // 3), (n, 0)):
                yield {'fn': fn, 'ev': 'bulk', 'n': n, 'form': form, 'every': 5, 'lead': lead, 'trail': trail}, True
        else:
            for d in (3, n // 2 + 1, n):
                yield {'fn': fn, 'ev': 'bulk', 'n': n, 'form': form, 'keys': d}, d < n


def bulk_shards(B):
    out = [('chunked', f, fill, False) for f in ('list', 'gen', 'str', 'bytes') for fill in ('unset', 'z')]
    out += [('chunked', f, fill, True) for f in ('list', 'gen') for fill in ('unset', 'z')]
    out += [(fn, f) for fn in ('windowed', 'pairwise', 'split', 'strip', 'lstrip', 'rstrip', 'unique', 'redundant',
                               'bucketize', 'partition') for f in ('list', 'gen')]
    return out


BULK_PART = 'bulk inputs (directed grid)'

EV = {'bulk': ev_bulk, 'chunked': ev_chunked, 'windowed': ev_windowed, 'pairwise': ev_windowed, 'split': ev_split, 'split2': ev_split2,
      'strip': ev_strip, 'lstrip': ev_strip, 'rstrip': ev_strip, 'unique': ev_keyed, 'redundant': ev_keyed,
      'bucketize': ev_keyed, 'partition': ev_keyed, 'chunk_ranges': ev_ranges}


def evaluate(case):
    """Run one case under the CPU budget -> list of (sig, expected, observed)."""
    ev = EV[case.get('ev', case['fn'])]
    signal.setitimer(signal.ITIMER_VIRTUAL, CASE_CPU_S)
    try:
        return ev(case)
    except Budget:
        return [('C09|fn:%s|terminates' % case['fn'], 'returns', 'no result after %g s of CPU time' % CASE_CPU_S)]
    finally:
        signal.setitimer(signal.ITIMER_VIRTUAL, 0)


# ======================================================================================================
# enumeration

def bounds(tier):
    if tier == 'quick':
        return {'L': 7, 'Ls': 7, 'Lkey': 5, 'L2': 5, 'max_size': 9, 'counts': (None, 1, 2, 9), 'maxsplits': ('unset', None, 0, 1, 2, 3, 9),
                'ranges': {'input_size': 20, 'chunk_size': 8, 'input_offset': 12},
                'huge_sizes': huge_chunk_sizes(tier), 'huge_chunks': 4}
    return {'L': 8, 'Ls': 9, 'Lkey': 6, 'L2': 6, 'max_size': 10, 'counts': (None, 1, 2, 3, 10),
            'maxsplits': ('unset', None, 0, 1, 2, 3, 4, 5, 10),
            'ranges': {'input_size': 48, 'chunk_size': 12, 'input_offset': 25},
            'huge_sizes': huge_chunk_sizes(tier), 'huge_chunks': 6}


FORMS5 = ('list', 'tuple', 'gen', 'str', 'bytes')
FORMS3 = ('list', 'tuple', 'gen')
CONT_ANY = ('values', 'deque', 'legacy', 'iteronly')                                  # present any sequence
CONT_DISTINCT = ('dict', 'odict', 'keys', 'set', 'frozenset')    # present sequences of distinct hashable items
CONT_FORMS = CONT_ANY + CONT_DISTINCT
SHORT_FORMS = CONT_ANY + ('iter',)                               # further presentations of any sequence, shorter bound
SHORTER = 2           # container presentations of arbitrary sequences are enumerated to a length this much shorter


def maxlen_for(form, maxlen):
    return maxlen - SHORTER if form in SHORT_FORMS else maxlen


def seqs(nsym, maxlen):
    """All sequences (as lists) over range(nsym), shortest first."""
    return (list(s) for s in inputs.strings(range(nsym), maxlen))


# Every generator enumerates one shard: the sequences shortest first (so the first failing case of a signature
# is a shortest one), the shard argument fixes presentation and one parameter.

def gen_chunked(B, arg):
    form, size = arg
    fills = ('unset', 'z') if form in ('str', 'bytes') else ('unset', 'none', 'z')
    for seq in seqs(3, maxlen_for(form, B['L'])):
        nt = len(seq) >= 2
        for fill in fills:
            for count in B['counts']:
                yield {'fn': 'chunked', 'seq': seq, 'form': form, 'size': size, 'fill': fill, 'count': count}, nt


def gen_windowed(B, arg):
    form, size = arg
    for seq in seqs(3, maxlen_for(form, B['L'])):
        nt = len(seq) >= 2
        for fill in ('unset', 'none', 'z'):
            if size == 'pairwise':
                yield {'fn': 'pairwise', 'seq': seq, 'form': form, 'fill': fill}, nt
            else:
                yield {'fn': 'windowed', 'seq': seq, 'form': form, 'size': size, 'fill': fill}, nt


def split_shards(B):
    out = []
    for v in SPLIT_VARIANTS:
        forms = FORMS3 if SPLIT_VARIANTS[v][0] is None else FORMS5
        if v in NEW_SEP_VARIANTS:      # the shape of the separator collection matters, not the presentation of the source
            forms = ('list', 'gen', 'str', 'bytes') if v in ('iter', 'legacy') else ('list', 'bytes')
        for f in forms:
            if f == 'bytes' and v == 'set':
                continue           # {44, 'q'}: nothing new
            out.append((v, f))
    out += [(v, f) for v in SPLIT_VARIANTS for f in SHORT_FORMS if v not in NEW_SEP_VARIANTS]
    # unhashable elements: a single separator value is compared with ==, a callable does what it likes; a collection
    # of separators is looked up by hash and therefore not applicable
    out += [(v, f, 'unhashable') for v in ('default', 'None', 'value', 'callable') for f in ('list', 'gen')]
    # separators in the source that are equal to the given one without being the same object
    out += [(v, f, k) for k in COPY_KINDS for v in ('value', 'list', 'set') for f in ('list', 'gen')]
    # str / bytes tokens as elements, one of them given as the separator (alone, in a collection, to a callable)
    out += [(v, f, k) for k in TOKEN_KINDS for v in ('value', 'list', 'set', 'callable', 'tuple')
            for f in (('list', 'gen') if v == 'value' else ('list',))]
    return out


def gen_split(B, vf):
    v, form = vf[:2]
    extra = {'elems': vf[2]} if len(vf) > 2 else {}
    short = extra or form in SHORT_FORMS or (v in NEW_SEP_VARIANTS and (v, form) not in (('iter', 'list'), ('legacy', 'list')))
    for seq in seqs(3, B['Ls'] - SHORTER if short else B['Ls']):
        nt = 0 in seq and len(set(seq)) > 1
        for ms in B['maxsplits']:
            yield dict({'fn': 'split', 'seq': seq, 'form': form, 'sep': v, 'maxsplit': ms}, **extra), nt


def gen_split2(B, vf):
    v, form = vf
    for seq in seqs(4, B['L2']):
        nt = (0 in seq or 1 in seq) and (2 in seq or 3 in seq)
        for ms in B['maxsplits']:
            yield {'fn': 'split', 'ev': 'split2', 'seq': seq, 'form': form, 'sep': v, 'maxsplit': ms}, nt


def gen_strip(B, arg):
    form, fn = arg[:2]
    extra = {'elems': arg[2]} if len(arg) > 2 else {}
    variants = ('value',) if (form in ('str', 'bytes') or extra.get('elems') in COPY_KINDS + ('eqclass',) + tuple(TOKEN_KINDS) + tuple(CONTAINER_KINDS)) \
        else ('default', 'None', 'value')
    for seq in seqs(3, B['Ls'] - SHORTER if (extra or form in SHORT_FORMS) else B['Ls']):
        nt = 0 in seq and len(set(seq)) > 1
        for v in variants:
            yield dict({'fn': fn, 'seq': seq, 'form': form, 'strip_value': v}, **extra), nt


# (function, universe, key kind, forms)
KEYED = (
    [('unique', 'plain', 'none', FORMS5), ('unique', 'plain', 'fn', FORMS5),
     ('redundant', 'plain', 'none', FORMS5), ('redundant', 'plain', 'fn', FORMS5),
     ('bucketize', 'plain', 'fn', FORMS5), ('bucketize', 'plain', 'list', ('list', 'tuple', 'str', 'bytes'))]
    + [(f, u, 'fn', forms) for f in ('unique', 'redundant', 'bucketize')
       for u, forms in (('pairs', FORMS3), ('lists', FORMS3), ('objs', FORMS3))]
    + [(f, 'objs', 'attr', FORMS3) for f in ('unique', 'redundant', 'bucketize')]
    + [(f, 'nones', k, FORMS3) for f in ('unique', 'redundant', 'bucketize') for k in ('none', 'fn')
       if not (f == 'bucketize' and k == 'none')]
    + [('bucketize', 'pairs', 'list', ('list', 'tuple')), ('bucketize', 'lists', 'list', ('list', 'tuple')),
       ('bucketize', 'truth', 'default', FORMS3), ('bucketize', 'strs', 'fn', FORMS3),
       ('bucketize', 'flags', 'attr', FORMS3), ('bucketize', 'flags', 'fn', FORMS3),
       ('partition', 'truth', 'default', FORMS3), ('partition', 'strs', 'fn', FORMS3),
       ('partition', 'flags', 'attr', FORMS3), ('partition', 'flags', 'fn', FORMS3)]
    + [(f, 'words', 'fn', FORMS3) for f in ('unique', 'redundant', 'bucketize')]
    # the key names an attribute that some elements lack (unique: documented identity fall-back; redundant: "the
    # complement of unique").  bucketize / partition document no fall-back: not explored.
    + [(f, u, 'attr-or-self', FORMS3) for f in ('unique', 'redundant') for u in ('partial', 'fracs')]
    # equal-but-not-identical occurrences
    + [('unique', 'fresh', 'none', FORMS3), ('redundant', 'fresh', 'none', FORMS3), ('bucketize', 'fresh', 'fn', FORMS3)]
)
# every spec whose key is not a parallel list is also run over the container presentations (dict-like and set-like
# ones only where the items are hashable)
KEYED = [(f, u, k, forms + ((SHORT_FORMS + (CONT_DISTINCT if u != 'lists' else ())) if k != 'list' else ()))
         for f, u, k, forms in KEYED]
# items that are == without having the same key (no set / dict presentations: those would merge them)
KEYED += ([(f, 'eqmix', 'fn', FORMS3) for f in ('unique', 'redundant', 'bucketize')]
          + [(f, 'eqvers', k, FORMS3 if k == 'attr' else ('list', 'gen')) for f in ('unique', 'redundant', 'bucketize')
             for k in ('attr', 'fn')])


def gen_keyed(B, spec):
    fn, uni, kind, forms = spec
    nsym = len(universe(uni, 'list')[0])
    keys = universe(uni, 'list')[1]
    maxlen = B['L'] if nsym == 3 else B['Lkey']
    for seq in seqs(nsym, maxlen):
        ks = [keys[i] for i in seq]
        nt = len(set(ks)) < len(ks)
        distinct = len(set(seq)) == len(seq)
        for form in forms:
            if (form in CONT_DISTINCT and not distinct) or len(seq) > maxlen_for(form, maxlen):
                continue
            if fn == 'redundant':
                for groups in (False, True):
                    yield {'fn': fn, 'u': uni, 'key': kind, 'seq': seq, 'form': form, 'groups': groups}, nt
            else:
                yield {'fn': fn, 'u': uni, 'key': kind, 'seq': seq, 'form': form}, nt


def gen_ranges(B, arg):
    align, size = arg
    R = B['ranges']
    for n in range(R['input_size'] + 1):
        for off in range(R['input_offset'] + 1):
            for ov in range(size):
                yield {'fn': 'chunk_ranges', 'input_size': n, 'chunk_size': size, 'input_offset': off,
                       'overlap_size': ov, 'align': align}, n > size


def huge_chunk_sizes(tier):
    """Chunk sizes around powers of two on both sides of what a C long / a double can hold, and a decimal one."""
    ks = (31, 53, 58, 64) if tier == 'quick' else (31, 32, 52, 53, 54, 58, 62, 63, 64, 80, 100)
    vals = {2 ** k + d for k in ks for d in (-1, 0, 1)} | {10 ** 17}
    if tier != 'quick':
        vals |= {10 ** 18, 3 * 2 ** 60 + 5, 10 ** 30 + 7}
    return sorted(vals)


def gen_ranges_huge(B, arg):
    """Directed grid: a huge chunk_size, an input of a handful of chunks (so the result can be drained)."""
    align, size = arg
    for ov in sorted({0, 1, size // 2, size - 1}):
        step = size - ov
        ns = {1, size - 1, size, size + 1}
        for m in range(1, B['huge_chunks'] + 1):
            ns |= {size + m * step + r for r in (0, 1, step - 1) if 0 <= r < step}
        offs = sorted({0, 1, step - 1, step, 3 * step + 5, 2 ** 53 + 1, 2 * size + 1})
        for n in sorted(ns):
            for off in offs:
                yield {'fn': 'chunk_ranges', 'input_size': n, 'chunk_size': size, 'input_offset': off,
                       'overlap_size': ov, 'align': align}, n > size


HUGE_PART = 'chunk_ranges(huge sizes, directed grid)'

# part -> (case generator of one shard, shard arguments)
PARTS = {
    'chunked': (gen_chunked, lambda B: [(f, n) for n in range(1, B['max_size'] + 1) for f in FORMS5 + SHORT_FORMS]),
    'windowed+pairwise': (gen_windowed, lambda B: [(f, n) for n in ['pairwise'] + list(range(1, B['max_size'] + 1))
                                                   for f in FORMS5 + SHORT_FORMS]),
    'split': (gen_split, split_shards),
    'split(two separators)': (gen_split2, lambda B: [('set2', 'list'), ('callable2', 'list'), ('set2', 'gen'),
                                                      ('callable2', 'tuple'),
                                                      ('iter2', 'list'), ('map2', 'gen'), ('legacy2', 'list')]),
    'strip+lstrip+rstrip': (gen_strip, lambda B: [(f, fn) for fn in ('strip', 'lstrip', 'rstrip') for f in FORMS5 + SHORT_FORMS]
                            + [(f, fn, k) for k in ('unhashable',) + COPY_KINDS + tuple(TOKEN_KINDS) + tuple(CONTAINER_KINDS)
                               for fn in ('strip', 'lstrip', 'rstrip') for f in ('list', 'gen')]
                            + [(f, fn, 'eqclass') for fn in ('strip', 'lstrip', 'rstrip') for f in ('str', 'list', 'gen')]),
    'unique+redundant+bucketize+partition': (gen_keyed, lambda B: KEYED),
    'chunk_ranges': (gen_ranges, lambda B: [(al, n) for n in range(1, B['ranges']['chunk_size'] + 1)
                                            for al in (False, True)]),
    HUGE_PART: (gen_ranges_huge, lambda B: [(al, n) for n in B['huge_sizes'] for al in (False, True)]),
    BULK_PART: (gen_bulk, bulk_shards),
}

RULES = {
    'chunked': 'input has at least 2 elements',
    'windowed+pairwise': 'input has at least 2 elements',
    'split': 'input contains at least one separator and at least one non-separator',
    'split(two separators)': 'input contains at least one separator and at least one non-separator',
    'strip+lstrip+rstrip': 'input contains at least one strip value and at least one other element',
    'unique+redundant+bucketize+partition': 'some key occurs at least twice in the input',
    'chunk_ranges': 'input_size > chunk_size (more than one range is needed)',
    HUGE_PART: 'input_size > chunk_size (more than one range is needed)',
    BULK_PART: 'more elements than size / more elements than keys / (split, strip) always',
}


def run(ctx):
    B = dict(bounds(ctx.tier), tier=ctx.tier)

    for part, (gen, shard_args) in PARTS.items():
        has_seq = not (part.startswith('chunk_ranges') or part == BULK_PART)

        def shard(arg, gen=gen, has_seq=has_seq):
            _arm()
            t = inputs.Tally()
            hangs = 0
            try:
                for case, nt in gen(B, arg):
                    smp = None
                    if nt and len(t.samples) < 3 and (not has_seq or (len(case['seq']) >= 4 and len(set(case['seq'])) >= 3)):
                        smp = case
                    t.count(nontrivial=nt, sample=smp)
                    for sig, exp, obs in evaluate(case):
                        if sig == UNDECIDED:
                            t.add('undecided', 1)
                            continue
                        t.bad(sig, case, exp, obs)
                        if sig.endswith('|terminates'):
                            hangs += 1
                    if hangs >= MAX_HANGS:
                        t.add('stopped_after_hangs', 1)
                        break
            except Budget:       # a stray timer signal outside evaluate()
                t.bad('C09|harness:budget|stray-timer', {'fn': 'harness', 'shard': show(arg)}, None, None)
            return t

        # shard order: simplest presentation / smallest parameter first
        total = inputs.run_shards(ctx, shard, shard_args(B), part=part, rule=RULES[part])
        if total.extra.get('stopped_after_hangs') or total.extra.get('undecided'):
            ctx.coverage.setdefault('capped', []).append(part)

    cov = ctx.coverage
    cov['rule'] = ('a case (function, input sequence, presentation, parameters) is non-trivial when: '
                   + '; '.join('%s: %s' % kv for kv in RULES.items()))
    cov['exhaustive'] = not cov.get('capped')
    cov['exhaustive_means'] = ('every case of the bounded spaces listed under bounds was executed; the part "%s" is a '
                               'finite directed grid of huge parameters (every grid point executed), not an exhaustive '
                               'space, and is excluded from this claim' % HUGE_PART)
    cov['directed_supplement'] = {
        'part': HUGE_PART, 'exhaustive': False,
        'what': 'chunk_size in %s; overlap_size in {0, 1, chunk_size//2, chunk_size-1}; input_size in {1, chunk_size-1, '
                'chunk_size, chunk_size+1} and chunk_size + m*step + r for m = 1..%d, r in {0, 1, step-1} '
                '(step = chunk_size - overlap_size); input_offset in {0, 1, step-1, step, 3*step+5, 2**53+1, '
                '2*chunk_size+1}; align False/True; coverage decided by an interval sweep'
                % ([str(v) for v in B['huge_sizes']], B['huge_chunks'])}
    cov['exhaustive_means'] += '; the part "%s" likewise is a finite directed grid (every grid point executed)' % BULK_PART
    cov['directed_supplement_bulk'] = {
        'part': BULK_PART, 'exhaustive': False,
        'what': 'sources of n consecutive integers (str / bytes: characters derived from them), n in %s (powers of two and '
                'every integer constant of boltons.iterutils -1/+0/+1 and doubled+1); chunked/chunked_iter with size in %s, '
                'fill unset / given, list, generator, str, bytes (n in %s: sizes 3 and 1000, list and generator); windowed '
                '(size 2, 3, 257) / pairwise without and with fill; split (sep omitted / a value, a separator every 2nd, 7th, '
                '1000th element or only at the ends); strip, lstrip, rstrip (runs of 0, 1, n//3, n strip values at the '
                'ends); unique, redundant, bucketize, partition with 3, n//2+1, n distinct keys; list and generator'
                % (bulk_lengths(ctx.tier), bulk_sizes(ctx.tier), bulk_lengths(ctx.tier, True))}
    cov['bounds'] = {
        'chunked, windowed, pairwise, unique/redundant/bucketize with key None/identity':
            'every sequence of length 0..%d over 3 symbols {SEP, a, b}' % B['L'],
        'split, strip, lstrip, rstrip': 'every sequence of length 0..%d over 3 symbols {SEP, a, b}' % B['Ls'],
        'presentations': 'list, tuple, one-shot generator, str, bytes (str/bytes where the elements are characters); '
                         'dict values view, deque, a __getitem__-only sequence, an __iter__-only iterable and list iterator (iter(list)) up to a length %d shorter; keyed helpers also over dict, OrderedDict, '
                         'dict keys view, set, frozenset holding every sequence of distinct hashable items' % SHORTER,
        'unhashable elements': 'split (sep omitted / None / a single value / a callable) and strip, lstrip, rstrip over '
                               '{SEP, a list, a dict}, list and generator, length 0..%d' % (B['Ls'] - SHORTER),
        'size': '1..%d' % B['max_size'], 'count': list(B['counts']), 'fill': ['unset', None, 'z'],
        'equal-but-not-identical elements': 'split (sep a value / a list / a set) and strip, lstrip, rstrip over {SEP, a tuple, '
                                            'a string} with SEP = %d and SEP = 0, every occurrence in the source a freshly '
                                            'built object (ints alternating with the equal float), list and generator, length '
                                            '0..%d; unique, redundant, bucketize over such sources, length 0..%d'
                                            % (EQUAL_SEP, B['Ls'] - SHORTER, B['L']),
        'str / bytes tokens as elements': 'split (sep a single token / a list / a set / a tuple of tokens / a callable) and '
                                          'strip, lstrip, rstrip (strip value a token) over %s (the first of each is the '
                                          'separator), list (sep a single token, strip: also generator), length 0..%d'
                                          % ('; '.join(repr(list(v)) for v in TOKEN_KINDS.values()), B['Ls'] - SHORTER),
        'attribute-name key with elements lacking the attribute': 'unique, redundant over 5 records (keys A, A, itself, itself, '
                                                                  'None) and over {3, 5, Fraction(1, 2), "x", "y"} with '
                                                                  'key="denominator", length 0..%d' % B['Lkey'],
        'sep': sorted(SPLIT_VARIANTS) + ['set of two separators', 'callable accepting two separators',
                                         'one-shot iterator / map / __getitem__-only sequence of two separators'],
        'sep collection shapes tuple, iter, genexp, legacy, dict': 'sources list and bytes (iter, legacy: also generator and '
                                                                   'str), length 0..%d; iter and legacy with a list source '
                                                                   '0..%d' % (B['Ls'] - SHORTER, B['Ls']),
        'strip value equal to a class of elements': 'strip, lstrip, rstrip over {" ", "\\t", "a"} (str, list, generator), '
                                                    'strip value == " " and == "\\t", oracle str.strip() without argument, '
                                                    'length 0..%d' % (B['Ls'] - SHORTER),
        'strip value that is itself a container': 'strip, lstrip, rstrip over %s (the first of each is the strip value), '
                                                  'list and generator, length 0..%d'
                                                  % ('; '.join(repr(list(v)) for v in CONTAINER_KINDS.values()), B['Ls'] - SHORTER),
        'items that are == but have different keys': 'unique, redundant, bucketize over {1, True, 1.0, 0} with key=type and over '
                                                     'records whose == / hash ignore the key attribute (key = attribute name / '
                                                     'callable), list, tuple, generator, length 0..%d' % B['Lkey'],
        'maxsplit': list(B['maxsplits']),
        'two-separator split': 'every sequence of length 0..%d over 4 symbols {S, T, a, b}' % B['L2'],
        'keyed helpers': 'every sequence of length 0..%d over 5 items with keys A,A,B,B,C (tuples, unhashable lists, objects; '
                         'words keyed by len); '
                         'key = callable / attribute name / list of keys / default bool; partition keys are bool-valued' % B['Lkey'],
        'chunk_ranges': 'input_size 0..%(input_size)d x chunk_size 1..%(chunk_size)d x input_offset 0..%(input_offset)d x '
                        'overlap 0..chunk_size-1 x align; with offset 0, overlap 0, align False also called with the '
                        'optional arguments omitted' % B['ranges'],
    }
    ctx.assumptions += [
        'valid parameters only: size/chunk_size >= 1, count >= 1, maxsplit None or >= 0, 0 <= overlap_size < chunk_size, '
        'fill a character (str input) / an int (bytes input), partition keys return True or False',
        'split is compared with str.split under SEP -> " " for sep=None and SEP -> "," for any given separator '
        '(value, collection, callable); two different separators both map to ","',
        'redundant: only the set of reported keys (one entry or group per key) is demanded, not their order nor which '
        'occurrence is returned; groups=True: each group holds items of one key',
        'chunk_ranges: only the clauses of the statement (length bound, first begin, last end, overlap chaining, aligned '
        'begins, coverage); ranges are not required to be maximal; nothing is demanded of an empty result for input_size 0',
        'an element corresponds to the separator character / has the same key when it is == to it (ints and equal floats '
        'included), whether or not it is the same object',
        'key = attribute name and an element without that attribute: the element is its own key for unique (documented) '
        'and redundant (documented as the complement of unique); bucketize / partition document nothing and are not '
        'explored on such inputs',
        'split / strip / unique / bucketize / partition: a result element must be the input element at the expected position '
        'as far as ==, type() and `is` can tell (the same object, or an equal object of the same type)',
        'window / chunk container types are not compared except that chunks of a str are str and chunks of bytes are bytes '
        '(their concatenation must give back the input)',
    ]


def replay(ctx, data):
    _arm()
    case = data['case']
    return ['%s expected=%r observed=%r' % (sig, exp, obs) for sig, exp, obs in evaluate(case) if sig != UNDECIDED]

"""C01 - dictutils.OrderedMultiDict behaves as an insertion-ordered list of (key, value) pairs.

Engine E1 (mc.histories): breadth-first search to a *fixpoint* over every history of public OMD operations on the
real object, with a cap of L pairs (mutators whose result would hold more than L pairs are disabled), keys {0,1,2}
x values {0,1}.  Every transition is compared with a reference model that is literally a Python list of pairs:

  * state oracle  - the operation's return value / exception class, the linked list walked forwards and backwards,
                    the dict storage (key -> list of values) and the per-key cell index must all equal the model;
                    a transition that fails is reported against that *operation* and not expanded;
  * read oracles  - the whole read battery (items/keys/values multi on/off, get/getlist/[]/in/len/iter/reversed,
                    todict, counts, inverted, sorted, sortedvalues, ==/!= against OMDs and plain mappings, repr,
                    non-aliasing of returned lists) in every state that passed the state oracle; a failing reader is
                    reported as `read:<name>` and the search continues.  The battery runs once per *canonical* state
                    (when the state is expanded): the canonical key holds the complete object (class, linked list,
                    dict storage, cell index with cell identity, instance attribute names), so every history reaching
                    the key reaches an object that answers all reads identically.

copy(), copy.copy, copy.deepcopy and pickle (every protocol) are state-replacing operations: the search continues on
the copy, after checking that the source is unchanged and that the two objects are independent.

A second, small search uses string keys so that the keyword-argument forms (OMD(a=1), update(E, a=1)) and
setdefault(k) without default (which inserts None) are covered without multiplying the main domain.

Arguments that fail while they are consumed (addlist / update / update_extend / |= with a one-shot iterator that raises
before its first item, after one, after two) are operations of the menu: the failure must reach the caller, the object
must equal the list of pairs after some prefix of the produced items, and the search continues from that state.

Operations that take an argument object the caller keeps (update / update_extend / |= / construction with an OMD, dict,
keys()-object or list of pairs; addlist with a list) are followed by an argument oracle: the call leaves the argument as
it was, and afterwards growing / shrinking / clearing the argument does not move the mapping, nor the other way round
(two OMDs are compared as complete objects).  Mappings derived by counts / inverted / sorted / sortedvalues are checked
the same way in the read battery.  A fourth search uses tuple keys and values (empty tuple, 2-tuple).

Result objects are the caller's own ("result-is-independent", in the read battery of every state): every read that hands
out an object - keys/values/items (multi on/off), getlist (key present / absent, with and without a default), get with a
default, todict (multi on/off, and the value lists inside), counts, inverted, sorted, sortedvalues - is called, the
result is changed in place (append, sort, reverse, del, clear, extend; item assignment and deletion; a returned mapping
is grown and emptied), and then the mapping itself, the same call again, every such read of the same mapping, of a
mapping built afterwards from the same pairs and of an empty mapping must equal the model.  Defaults are passed as fresh
mutable objects.  The list a mutator hands out (popall) is changed in place and the state oracle is repeated.

A directed part (run_cyclic, exhaustive over its own small space, not part of the BFS because such values are not
hashable state components) stores values that refer back to the mapping - the mapping itself, a list / tuple / dict
holding it, a child mapping with a parent reference, one list shared by several pairs - and compares, by object
identity, the joint object graph of (source, copy) and the reads of every mapping in it after copy(), copy.copy,
copy.deepcopy and pickle under every protocol with the same operation on plain lists of pairs.
"""
import copy as copymod
import os
import pickle
import shutil
import signal
import types

from mc import core, histories

PROPERTY = 'C01'
LEVEL = 'model_checking'

PREV, NEXT, KEY, VALUE = 0, 1, 2, 3
WALK_LIMIT = 64            # a sound list holds <= L (+ a few) cells; a walk that does not close is reported
STEP_CPU_S = 2.0           # CPU budget (user time of the worker) for one transition incl. its read battery (~1 ms)
PICKLE_PROTOCOLS = tuple(range(pickle.HIGHEST_PROTOCOL + 1))
COPY_OPS = ('copy', 'copy.copy', 'copy.deepcopy', 'pickle')
# update_extend(E, **kw) is not among the operation shapes the statement lists, and the unchanged tree drops kw there
# (proposed fix: fixes/C01-6-update-extend-kwargs.patch).  Once that is repaired, True adds the shape to the kwargs
# search (the keywords are appended after the items of E) and to the keyword-names part.
EXPLORE_UPDATE_EXTEND_KWARGS = True


class Budget(BaseException):
    pass


class _Used:
    """Stands for a successor object that the argument checks have used up; only its canonical key is left."""

    def __init__(self, key):
        self.key = key


def _on_timer(signum, frame):
    raise Budget()


class ArgumentFailure(Exception):
    """Raised by the harness' own argument iterables (never by the code under check)."""


def raising(items):
    """A one-shot iterator that produces items and then fails instead of stopping."""
    for i in items:
        yield i
    raise ArgumentFailure()


class KeysObj:
    """The smallest thing dict.update() treats as a mapping: keys() and __getitem__."""

    def __init__(self, pairs):
        self._d = dict(pairs)

    def keys(self):
        return list(self._d)

    def __getitem__(self, k):
        return self._d[k]


def resolve(clsname):
    mod, name = clsname.split('.')
    m = __import__('boltons.' + mod, fromlist=[name])
    return getattr(m, name)


def base_omd():
    from boltons import dictutils
    return dictutils.OrderedMultiDict


def detuple(x):
    if isinstance(x, (list, tuple)):
        return tuple(detuple(i) for i in x)
    return x


def plain(x):
    """Plain, picklable, address-free rendering of an observed value (type-strict for list/tuple/dict)."""
    if x is None or type(x) in (int, str, bool, float):
        return x
    if type(x) is list:
        return [plain(i) for i in x]
    if type(x) is tuple:
        return tuple(plain(i) for i in x)
    if type(x) is dict:
        return {plain(k): plain(v) for k, v in x.items()}
    return '<%s object>' % type(x).__name__


# ----------------------------------------------------------------------------------------------------
# reference model: a list of (key, value) pairs

def m_keys(P):
    out = []
    for k, _ in P:
        if k not in out:
            out.append(k)
    return out


def m_vals(P, k):
    return [v for kk, v in P if kk == k]


def m_has(P, k):
    return any(kk == k for kk, _ in P)


def m_without(P, ks):
    return [p for p in P if p[0] not in ks]


def m_visible(P):
    return {k: v for k, v in P}          # later pairs overwrite: the key's most recent pair


def m_lists(P):
    out = {}
    for k, v in P:
        out.setdefault(k, []).append(v)
    return out


def m_sortedvalues(P, reverse):
    per = {k: sorted(vs, reverse=reverse) for k, vs in m_lists(P).items()}
    pos = {k: 0 for k in per}
    out = []
    for k, _ in P:
        out.append((k, per[k][pos[k]]))
        pos[k] += 1
    return out


def model_apply(P, op):
    """All successor candidates the statement allows: list of (result, P2); result = ('ok', value) | ('exc', name)."""
    P = list(P)
    name = op[0]

    def ok(v, P2):
        return [(('ok', v), list(P2))]

    def exc(e):
        return [(('exc', e), P)]

    if name == 'new':
        P2 = [tuple(p) for p in op[2]]
        for k, v in op[3]:
            P2 = m_without(P2, (k,)) + [(k, v)]
        return ok(None, P2)
    if name == 'add':
        return ok(None, P + [(op[1], op[2])])
    if name == 'addlist':
        if op[1] == 'raising-generator':
            # the argument fails after producing op[3]: the failure reaches the caller, and the mapping is a list of
            # pairs to which some prefix of the produced values was appended (the statement does not say which)
            return [(('exc', 'ArgumentFailure'), P + [(op[2], v) for v in op[3][:n]]) for n in range(len(op[3]) + 1)]
        return ok(None, P + [(op[2], v) for v in op[3]])
    if name == 'set':
        return ok(None, m_without(P, (op[1],)) + [(op[1], op[2])])
    if name == 'del':
        if not m_has(P, op[1]):
            return exc('KeyError')
        return ok(None, m_without(P, (op[1],)))
    if name in ('update', 'ior', 'update_extend') and op[1] == 'raising-gen':
        # as above: the failure of the argument reaches the caller, some prefix of the produced pairs was applied
        cands = []
        for n in range(len(op[2]) + 1):
            sub = (name, 'pairs', op[2][:n]) + ((),) * (name == 'update')
            cands += [(('exc', 'ArgumentFailure'), P2) for _, P2 in model_apply(P, sub)]
        return cands
    if name in ('update', 'ior'):
        kw = op[3] if len(op) > 3 else ()
        if op[1] == 'self':
            P2 = P
        else:
            pairs = [tuple(p) for p in op[2]]
            P2 = m_without(P, [k for k, _ in pairs]) + pairs       # update replaces all of a key's pairs
        for k, v in kw:
            P2 = m_without(P2, (k,)) + [(k, v)]
        return ok(None, P2)
    if name == 'update_extend':
        if op[1] == 'self':
            # the statement does not say whether the object extends itself as a mapping (visible items) or as an
            # OMD (all pairs): both are accepted, all reads must then agree with the one chosen
            vis = m_visible(P)
            return ok(None, P + [(k, vis[k]) for k in m_keys(P)]) + ok(None, P + P)
        return ok(None, P + [tuple(p) for p in op[2]] + [tuple(p) for p in (op[3] if len(op) > 3 else ())])
    if name == 'setdefault':
        k = op[1]
        if m_has(P, k):
            return ok(m_vals(P, k)[-1], P)
        dv = op[2] if len(op) > 2 else None
        return ok(dv, P + [(k, dv)])
    if name == 'pop':
        k = op[1]
        if not m_has(P, k):
            return exc('KeyError') if len(op) == 2 else ok(op[2], P)
        return ok(m_vals(P, k)[-1], m_without(P, (k,)))
    if name == 'popall':
        k = op[1]
        if not m_has(P, k):
            return exc('KeyError') if len(op) == 2 else ok(op[2], P)
        return ok(m_vals(P, k), m_without(P, (k,)))
    if name == 'poplast':
        if len(op) == 1:
            if not P:
                return exc('KeyError')
            return ok(P[-1][1], P[:-1])
        k = op[1]
        if not m_has(P, k):
            return exc('KeyError') if len(op) == 2 else ok(op[2], P)
        i = max(j for j, p in enumerate(P) if p[0] == k)
        return ok(P[i][1], P[:i] + P[i + 1:])
    if name == 'poplast_default':
        if not P:
            return ok(op[1], P)
        return ok(P[-1][1], P[:-1])
    if name == 'popitem':
        if not P:
            return exc('KeyError')
        # under-specified (DESIGN 5.1): the last pair, or some present key with all its pairs
        cands = ok(P[-1], P[:-1])
        vis = m_visible(P)
        for k in m_keys(P):
            cands += ok((k, vis[k]), m_without(P, (k,)))
        return cands
    if name == 'clear':
        return ok(None, [])
    if name in COPY_OPS:
        return ok(None, P)
    raise AssertionError(op)


# ----------------------------------------------------------------------------------------------------
# implementation side

def _operand(shape, pairs, cls, self_obj=None):
    pairs = [tuple(p) for p in pairs]
    if shape == 'dict':
        return dict(pairs)
    if shape == 'proxy':
        return types.MappingProxyType(dict(pairs))
    if shape == 'keysobj':
        return KeysObj(pairs)
    if shape in ('omd', 'same'):
        o = (base_omd() if shape == 'omd' else cls)()
        for k, v in pairs:
            o.add(k, v)
        return o
    if shape == 'pairs':
        return pairs
    if shape == 'listpairs':
        return [list(p) for p in pairs]
    if shape == 'gen':
        return (p for p in pairs)
    if shape == 'raising-gen':
        return raising(pairs)
    if shape == 'self':
        return self_obj
    raise AssertionError(shape)


def _values_arg(shape, vals):
    vals = list(vals)
    if shape in ('list', 'empty-list'):
        return vals
    if shape in ('tuple', 'empty-tuple'):
        return tuple(vals)
    if shape in ('iterator', 'empty-iterator'):
        return iter(vals)
    if shape == 'generator':
        return (v for v in vals)
    if shape == 'raising-generator':
        return raising(vals)
    if shape == 'range':
        assert vals == list(range(len(vals)))
        return range(len(vals))
    raise AssertionError(shape)


# Arguments the caller still holds after the call (the other shapes are consumed / read-only views)
ARG_KEPT = ('omd', 'same', 'dict', 'keysobj', 'pairs', 'listpairs')


def arg_snap(shape, a):
    """Address-free form of an argument object (for OMDs the complete object)."""
    try:
        if shape in ('omd', 'same'):
            return canon(a)
        if shape == 'keysobj':
            return plain(list(a._d.items()))
        if shape == 'dict':
            return plain(list(a.items()))
        return plain(a)
    except Exception as e:
        return '<argument unreadable: %s>' % type(e).__name__


def _quiet(fn, *a):
    try:
        fn(*a)
    except Exception:
        pass


def omd_mutations(o):
    """Groups of in-place operations on an OMD (each group is followed by one comparison of the *other* object)."""
    def keys():
        try:
            return list(dict.keys(o))
        except Exception:
            return []

    def grow():
        for k in keys():
            _quiet(o.add, k, 'x')
            _quiet(o.addlist, k, ['y'])
        _quiet(o.update_extend, [(k, 'w') for k in keys()])

    def shrink():
        for k in keys():
            _quiet(o.poplast, k)
            _quiet(o.poplast, k)
            _quiet(o.poplast, k)
        _quiet(o.popitem)
        for k in keys():
            _quiet(o.__setitem__, k, 'z')
        _quiet(o.clear)
    return grow, shrink


def plain_mutations(shape, a):
    def grow():
        if shape in ('dict', 'keysobj'):
            t = a if shape == 'dict' else a._d
            for k in list(t):
                t[k] = 'x'
            t['zz'] = 'x'
        elif shape == 'listpairs':
            for p in a:
                p[1] = 'x'
            a.append(['zz', 'x'])
        elif shape == 'pairs':
            a.append(('zz', 'x'))
        else:
            a.append('x')

    def shrink():
        (a._d if shape == 'keysobj' else a).clear()
    return grow, shrink


def guard_call(fn):
    try:
        return plain(fn())
    except Exception as e:
        return 'raised ' + type(e).__name__


def scribble(r):
    """The in-place changes a caller may make to a result object it was handed (none for immutable results); the
    object is left in a form no read of the explored mappings can give ('Z' is neither a key nor a value)."""
    if type(r) is list:
        for f in (lambda: r.append('Z'), lambda: r.sort(key=repr), r.reverse, lambda: r.__delitem__(0), r.clear,
                  lambda: r.extend(('Z', 'Z'))):
            _quiet(f)
    elif type(r) is dict:
        for v in list(r.values()):
            if type(v) is list:
                scribble(v)
        for k in list(r)[:1]:
            _quiet(r.__delitem__, k)
        for k in list(r) + ['zz']:
            r[k] = 'Z'
    elif isinstance(r, dict):                              # a mapping of the class under test
        for mutate in omd_mutations(r):
            _quiet(mutate)
        _quiet(r.add, 'zz', 'Z')


def copy_fn(op):
    name = op[0]
    if name == 'copy':
        return lambda d: d.copy()
    if name == 'copy.copy':
        return copymod.copy
    if name == 'copy.deepcopy':
        return copymod.deepcopy
    if name == 'pickle':
        return lambda d: pickle.loads(pickle.dumps(d, op[1]))
    raise AssertionError(op)


def impl_apply(d, op, cls, keep=None):
    """Apply op to the real object.  Returns (result, successor object).  keep (a list) receives
    (shape, argument object, its snapshot before the call) when the operation takes an argument the caller still holds."""
    name = op[0]

    def operand(shape, pairs, cls, self_obj=None):
        a = _operand(shape, pairs, cls, self_obj)
        if keep is not None and shape in ARG_KEPT:
            keep.append((shape, a, arg_snap(shape, a)))
        return a

    def values_arg(shape, vals):
        a = _values_arg(shape, vals)
        if keep is not None and shape == 'list':
            keep.append((shape, a, arg_snap(shape, a)))
        return a
    try:
        if name == 'new':
            kw = dict(op[3])
            if op[1] == 'none':
                return ('ok', None), cls(**kw)
            if op[1].startswith('fromkeys'):
                ks = [k for k, _ in op[2]]
                assert not kw and len(set(ks)) == len(ks) and len({v for _, v in op[2]}) <= 1
                if not ks:
                    return ('ok', None), cls.fromkeys(ks, 'D')
                if op[1] == 'fromkeys-nodefault':
                    assert op[2][0][1] is None
                    return ('ok', None), cls.fromkeys(ks)
                return ('ok', None), cls.fromkeys(iter(ks) if op[1] == 'fromkeys-iterator' else ks, op[2][0][1])
            return ('ok', None), cls(operand(op[1], op[2], cls), **kw)
        if name == 'add':
            return ('ok', d.add(op[1], op[2])), d
        if name == 'addlist':
            return ('ok', d.addlist(op[2], values_arg(op[1], op[3]))), d
        if name == 'set':
            d[op[1]] = op[2]
            return ('ok', None), d
        if name == 'del':
            del d[op[1]]
            return ('ok', None), d
        if name == 'update':
            kw = dict(op[3]) if len(op) > 3 else {}
            return ('ok', d.update(operand(op[1], op[2], cls, d), **kw)), d
        if name == 'update_extend':
            return ('ok', d.update_extend(operand(op[1], op[2], cls, d), **(dict(op[3]) if len(op) > 3 else {}))), d
        if name == 'ior':
            d2 = d
            d2 |= operand(op[1], op[2], cls, d)
            if d2 is not d:
                return ('ok', '<|= rebound the name to another object>'), d
            return ('ok', None), d
        if name == 'setdefault':
            return ('ok', d.setdefault(*op[1:])), d
        if name == 'pop':
            return ('ok', d.pop(*op[1:])), d
        if name == 'popall':
            return ('ok', d.popall(*op[1:])), d
        if name == 'poplast':
            return ('ok', d.poplast(*op[1:])), d
        if name == 'poplast_default':
            return ('ok', d.poplast(default=op[1])), d
        if name == 'popitem':
            return ('ok', d.popitem()), d
        if name == 'clear':
            return ('ok', d.clear()), d
        if name in COPY_OPS:
            return ('ok', None), copy_fn(op)(d)
    except Exception as e:
        return ('exc', type(e).__name__), d
    raise AssertionError(op)


def _walk(d, direction):
    try:
        root = d.root
        out, cur, n = [], root[direction], 0
        while cur is not root:
            if n >= WALK_LIMIT:
                return None, '<linked list does not close within %d cells>' % WALK_LIMIT
            out.append(cur)
            cur = cur[direction]
            n += 1
        return out, tuple((c[KEY], c[VALUE]) for c in out)
    except Exception as e:
        return None, '<no walkable linked list: %s>' % type(e).__name__


def snapshot(d):
    """The three internal structures, exception-guarded, as plain hashable data."""
    cells, fwd = _walk(d, NEXT)
    _, back = _walk(d, PREV)
    if isinstance(back, tuple):
        back = tuple(reversed(back))
    try:
        store = tuple((k, tuple(v) if type(v) is list else ('<not a list>', plain(v))) for k, v in dict.items(d))
    except Exception as e:
        store = '<dict storage unreadable: %s>' % type(e).__name__
    ident = True
    try:
        m = d._map
        idx = []
        for k in m:
            cs = m[k]
            idx.append((k, tuple(c[VALUE] for c in cs)))
            if cells is not None:
                mine = [c for c in cells if c[KEY] == k]
                if len(mine) != len(cs) or any(a is not b for a, b in zip(mine, cs)):
                    ident = False
        idx = tuple(sorted(idx, key=repr))
    except Exception as e:
        idx = '<no cell index: %s>' % type(e).__name__
    return fwd, back, store, idx, ident


def canon(d):
    """Everything the object consists of: class, the three structures, and the names of its instance attributes
    (so that two objects with the same key answer every read alike and react alike to every operation)."""
    fwd, back, store, idx, ident = snapshot(d)
    try:
        attrs = tuple(sorted(vars(d)))
    except Exception:
        attrs = None
    return (type(d).__name__, fwd, back if back != fwd else None, store, idx, ident,
            attrs if attrs != ('_map', 'root') else None)


def structure(d, P):
    """First disagreement between the internal structures and the model, or None."""
    fwd, back, store, idx, ident = snapshot(d)
    want = tuple(P)
    if fwd != want:
        return ('state:pairs', list(P), fwd)
    if back != want:
        return ('state:pairs(backward-links)', list(P), back)
    lists = {k: tuple(v) for k, v in m_lists(P).items()}
    if not isinstance(store, tuple) or len(store) != len(lists) or dict(store) != lists:
        return ('state:dict-lists', lists, store)
    if not isinstance(idx, tuple) or len(idx) != len(lists) or dict(idx) != lists:
        return ('state:cell-index', lists, idx)
    if not ident:
        return ('state:cell-index', 'the cells of the linked list', 'other cell objects')
    return None


def opsig(op):
    name = op[0]
    if name == 'new':
        return 'new(%s%s)' % (op[1], ',kwargs' if op[3] else '')
    if name == 'addlist':
        return 'addlist(%s)' % op[1]
    if name == 'update':
        return 'update(%s%s)' % (op[1], ',kwargs' if len(op) > 3 and op[3] else '')
    if name in ('update_extend', 'ior'):
        return '%s(%s%s)' % (name, op[1], ',kwargs' if len(op) > 3 and op[3] else '')
    if name == 'setdefault':
        return 'setdefault' if len(op) == 2 else 'setdefault(default)'
    if name in ('pop', 'popall'):
        return name if len(op) == 2 else name + '(default)'
    if name == 'poplast':
        return ('poplast', 'poplast(key)', 'poplast(key,default)')[len(op) - 1]
    if name == 'poplast_default':
        return 'poplast(default)'
    if name == 'pickle':
        return 'pickle(protocol=%d)' % op[1]
    return name


def op_tags(P, op):
    if op[0] in ('update', 'ior', 'update_extend', 'new') and op[1] != 'self' and len(op) > 2:
        ks = [p[0] for p in op[2]]
        rep = [k for k in ks if ks.count(k) > 1]
        if rep:
            if any(not m_has(P, k) for k in rep):
                return ('operand_repeats_new_key',)
            return ('operand_repeats_existing_key',)
    return ()


# ----------------------------------------------------------------------------------------------------

class Spec:
    def __init__(self, clsname, keys, values, value_domain, max_pairs, kwargs_ops):
        self.clsname = clsname
        self.keys, self.values, self.domain = tuple(keys), tuple(values), tuple(value_domain)
        self.L = max_pairs
        self.kwargs_ops = bool(kwargs_ops)
        self.config = {'class': clsname, 'keys': list(self.keys), 'values': list(self.values),
                       'value_domain': list(self.domain), 'max_pairs': self.L, 'kwargs_ops': self.kwargs_ops}
        self._cls = None
        self.scratch = None          # run() sets it: directory of "this operation shape exhausted its CPU budget" marks
        self.menu = self._menu()
        self.news = self._news()

    @classmethod
    def from_config(cls, cfg):
        return cls(cfg['class'], detuple(cfg['keys']), detuple(cfg['values']), detuple(cfg['value_domain']),
                   cfg['max_pairs'], cfg['kwargs_ops'])

    def cls(self):
        if self._cls is None:
            self._cls = resolve(self.clsname)
        return self._cls

    def _operands(self):
        k0, k1, k2 = self.keys[0], self.keys[1], self.keys[-1]
        v0, v1 = self.values[0], self.values[1]
        return {'P0': (),
                'P1': ((k0, v1),),                              # single pair
                'P2': ((k1, v0), (k1, v1)),                     # one key repeated (new or existing, by state)
                'P3': ((k0, v0), (k2, v1), (k0, v1)),           # repeated key around another key
                'P4': ((k2, v1), (k0, v0))}                     # two distinct keys

    def _news(self):
        O = self._operands()
        out = [('new', 'none', (), ()), ('new', 'pairs', (), ()), ('new', 'pairs', O['P3'], ()),
               ('new', 'listpairs', O['P2'], ()), ('new', 'gen', O['P2'], ()), ('new', 'dict', O['P4'], ()),
               ('new', 'proxy', O['P1'], ()), ('new', 'keysobj', O['P4'], ()), ('new', 'omd', O['P3'], ())]
        if self.clsname != 'dictutils.OrderedMultiDict':
            out.append(('new', 'same', O['P2'], ()))
        # the alternate constructor every dict has; distinct keys only (the statement does not say what repeated
        # keys give), every key paired with the one default
        kf, kl, vf, vl = self.keys[0], self.keys[-1], self.values[0], self.values[1]
        out += [('new', 'fromkeys', ((kf, vl), (kl, vl)), ()), ('new', 'fromkeys', (), ()),
                ('new', 'fromkeys-iterator', ((kl, vf),), ())]
        if None in self.domain:
            out.append(('new', 'fromkeys-nodefault', ((kl, None), (kf, None)), ()))
        if self.kwargs_ops:
            k0, k1 = self.keys[0], self.keys[1]
            v0, v1 = self.values[0], self.values[1]
            out += [('new', 'none', (), ((k0, v1),)), ('new', 'none', (), ((k1, v0), (k0, v0))),
                    ('new', 'dict', ((k0, v0),), ((k1, v1),)),
                    ('new', 'pairs', ((k0, v0), (k1, v0), (k0, v1)), ((k0, v0),))]   # kwarg replaces both pairs
        return out

    def _menu(self):
        K, V = self.keys, self.values
        O = self._operands()
        m = []
        for k in K:
            for v in V:
                m.append(('add', k, v))
        for k in K:
            for v in V:
                m.append(('set', k, v))
        for k in K:
            m.append(('del', k))
        for k in K:
            m.append(('addlist', 'list', k, (V[1], V[0])))
            m.append(('addlist', 'iterator', k, (V[0], V[1])))
            m.append(('addlist', 'empty-iterator', k, ()))
        k1 = K[1]
        m += [('addlist', 'tuple', k1, (V[0],)), ('addlist', 'generator', k1, (V[1],)),
              ('addlist', 'empty-list', k1, ()), ('addlist', 'empty-tuple', k1, ())]
        if V[:2] == (0, 1):
            m.append(('addlist', 'range', k1, (0, 1)))
        # arguments that fail while they are being consumed (before the first item, after one, after two; key new or
        # present, by state): the mapping must stay a consistent list of pairs, and the search goes on from there
        for k in K:
            m.append(('addlist', 'raising-generator', k, ()))
        m += [('addlist', 'raising-generator', k1, (V[0],)), ('addlist', 'raising-generator', K[0], (V[1], V[0])),
              ('update', 'raising-gen', O['P3'], ()), ('update_extend', 'raising-gen', O['P2']),
              ('ior', 'raising-gen', O['P1'])]
        same = self.clsname != 'dictutils.OrderedMultiDict'
        for shape, names in (('dict', ('P0', 'P1', 'P4')), ('proxy', ('P4',)), ('keysobj', ('P1',)),
                             ('omd', ('P0', 'P1', 'P2', 'P3')), ('same', ('P3',) if same else ()),
                             ('pairs', ('P0', 'P1', 'P2', 'P3', 'P4')), ('listpairs', ('P2',)),
                             ('gen', ('P2', 'P3'))):
            for n in names:
                m.append(('update', shape, O[n], ()))
        m.append(('update', 'self', (), ()))
        for shape, names in (('dict', ('P4',)), ('proxy', ('P1',)), ('omd', ('P2', 'P3')),
                             ('same', ('P2',) if same else ()), ('pairs', ('P0', 'P1', 'P2', 'P3')),
                             ('gen', ('P3',))):
            for n in names:
                m.append(('update_extend', shape, O[n]))
        m.append(('update_extend', 'self', ()))
        for shape, n in (('dict', 'P4'), ('omd', 'P3'), ('pairs', 'P2'), ('gen', 'P3')):
            m.append(('ior', shape, O[n]))
        m.append(('ior', 'self', ()))
        if self.kwargs_ops:
            k0 = K[0]
            m += [('update', 'dict', (), ((k0, V[1]),)),
                  ('update', 'dict', O['P4'], ((k1, V[0]),)),
                  ('update', 'pairs', O['P2'], ((k1, V[0]),)),          # kwarg replaces the pairs just added
                  ('update', 'omd', O['P3'], ((k1, V[1]), (k0, V[0])))]
            if EXPLORE_UPDATE_EXTEND_KWARGS:
                m += [('update_extend', 'dict', (), ((k0, V[1]),)),
                      ('update_extend', 'pairs', O['P2'], ((k1, V[0]), (k0, V[0])))]
        for k in K:
            m.append(('setdefault', k))
            for v in V:
                m.append(('setdefault', k, v))
        for k in K:
            m += [('pop', k), ('pop', k, 'D'), ('popall', k), ('popall', k, 'D')]
        m.append(('poplast',))
        for k in K:
            m += [('poplast', k), ('poplast', k, 'D')]
        m += [('poplast_default', 'D'), ('popitem',), ('clear',), ('copy',), ('copy.copy',), ('copy.deepcopy',)]
        for p in PICKLE_PROTOCOLS:
            m.append(('pickle', p))
        return m

    # ------------------------------------------------------------------------------------------
    def in_domain(self, P2):
        return len(P2) <= self.L and all(v in self.domain for _, v in P2)

    def enabled(self, P, op):
        return all(self.in_domain(P2) for _, P2 in model_apply(P, op))

    def choose(self, cands, d2):
        """The candidate whose successor state the implementation took (first one when none matches)."""
        if len(cands) > 1:
            fwd = snapshot(d2)[0]
            for c in cands:
                if tuple(c[1]) == fwd:
                    return c, True
            return cands[0], False
        return cands[0], True

    def build(self, hist):
        """Replay a history (whose every prefix passed the state oracle) without checking -> (object, pairs)."""
        cls = self.cls()
        d, P = None, []
        for op in hist:
            _, d = impl_apply(d, op, cls)
            P = self.choose(model_apply(P, op), d)[0][1]
        return d, P

    def initial(self):
        return [(op,) for op in self._sound_news]

    def root_key(self, hist):
        return canon(self.build(hist)[0])

    def case(self, hist, op):
        return {'config': self.config, 'history': [list(o) for o in hist] + [list(op)]}

    # ------------------------------------------------------------------------------------------
    # A transition that exhausts its CPU budget is a violation; so that a looping method does not cost
    # STEP_CPU_S for each of its ~10^4 transitions, the operation shape is marked (file in the scratch directory,
    # visible to all workers) and not executed again in this run.
    def hung(self):
        try:
            return set(os.listdir(self.scratch)) if self.scratch else set()
        except OSError:
            return set()

    def mark_hung(self, tag):
        if self.scratch:
            try:
                open(os.path.join(self.scratch, tag.replace('/', '_')), 'w').close()
            except OSError:
                pass

    def expand(self, hist):
        """Read battery once in the (sound) state reached by hist, then every enabled transition out of it."""
        signal.signal(signal.SIGVTALRM, _on_timer)
        out = []
        P0 = self.build(hist)[1]
        hung = self.hung()
        reads = self.guarded_battery(hist) if 'read-battery' not in hung else []
        for op in self.menu:
            if not self.enabled(P0, op) or opsig(op) in hung:
                continue
            t = self.guarded_step(hist, op)
            if reads:
                t, reads = (t[0], t[1], t[2], reads + t[3]), []
            out.append(t)
        return out

    def guarded_battery(self, hist):
        """The read battery in the state reached by hist (reported against that history) under the CPU budget."""
        V = []
        case = {'config': self.config, 'history': [list(o) for o in hist]}
        seen = set()

        def bad(kind, what, exp, obs, tags=()):
            if what not in seen:
                seen.add(what)
                V.append(('C01|read:%s' % what, case, plain(exp), plain(obs), None, tuple(tags)))
        signal.setitimer(signal.ITIMER_VIRTUAL, STEP_CPU_S)
        try:
            d, P = self.build(hist)
            self.battery(d, P, bad)
        except Budget:
            self.mark_hung('read-battery')
            V.append(('C01|read:terminates', case, 'the read battery returns',
                      'no result after %g s of CPU time' % STEP_CPU_S, None, ()))
        finally:
            signal.setitimer(signal.ITIMER_VIRTUAL, 0)
        return V

    def guarded_step(self, hist, op, battery=False):
        """One transition under the CPU budget -> (op, key or None, label, violations)."""
        signal.setitimer(signal.ITIMER_VIRTUAL, STEP_CPU_S)
        try:
            d, P = self.build(hist)
            V, ok, label, d2, _ = self.step(d, P, op, hist, battery)
            key = (d2.key if isinstance(d2, _Used) else canon(d2)) if ok else None
            return (op, key, label, V)
        except Budget:
            self.mark_hung(opsig(op))
            return (op, None, (opsig(op), 'no result'),
                    [('C01|op:%s|terminates' % opsig(op), self.case(hist, op), 'the transition returns',
                      'no result after %g s of CPU time' % STEP_CPU_S, None, ())])
        finally:
            signal.setitimer(signal.ITIMER_VIRTUAL, 0)

    def step(self, d, P, op, hist, battery=True):
        """Apply op to both sides; state oracle, then (if sound and asked for) the read battery.  The explorer
        runs the battery once per canonical state (in expand), replay() after every step.
        Returns (violations, ok, label, successor object, successor pairs)."""
        V = []
        case = self.case(hist, op)
        osig = opsig(op)
        cls = self.cls()
        seen_reads = set()

        def bad(kind, what, exp, obs, tags=()):
            if kind == 'read':
                if what in seen_reads:
                    return
                seen_reads.add(what)
                sig = 'C01|read:%s' % what
            else:
                sig = 'C01|op:%s|%s' % (osig, what)
            V.append((sig, case, plain(exp), plain(obs), None, tuple(tags)))

        tags = op_tags(P, op)
        is_copy = op[0] in COPY_OPS
        k_src = canon(d) if is_copy else None
        kept = []
        r_i, d2 = impl_apply(d, op, cls, kept)
        cands = model_apply(P, op)
        (r_m, P2), matched = self.choose(cands, d2)
        label = (osig, r_i[0] if r_i[0] == 'ok' else r_i[1])
        if r_i[0] == 'exc' and op[0] == 'new':
            bad('op', 'result', r_m, r_i, tags)
            return V, False, label, None, P2
        ok = True
        if not matched:
            bad('op', 'state:pairs', {'one of': [c[1] for c in cands]}, snapshot(d2)[0], tags)
            ok = False
        elif plain(r_i) != plain(r_m):
            bad('op', 'result', r_m, r_i, tags)
            ok = False
        else:
            s = structure(d2, P2)
            if s is not None:
                bad('op', s[0], s[1], s[2], tags)
                ok = False
        if ok and r_i[0] == 'ok' and type(r_i[1]) in (list, dict):
            # a result object handed out by a mutator (popall) is the caller's: changing it in place moves nothing
            def fresh():
                return guard_call(lambda: (cls().getlist('zz'), cls().items(multi=True), cls().todict(multi=True)))
            before = fresh()                               # (already wrong: some other result leaked, reported there)
            scribble(r_i[1])
            s = structure(d2, P2)
            if s is not None:
                bad('op', 'result-is-independent|mapping-moved', s[1], s[2], tags)
                ok = False
            elif before == ([], [], {}) and fresh() != before:
                bad('op', 'result-is-independent|later-read(empty-mapping)', before, fresh(), tags)
        if ok and type(d2) is not cls:
            bad('op', 'type', cls.__name__, type(d2).__name__)
            ok = False
        if ok and is_copy:
            ok = self.copy_checks(d, d2, k_src, P, op, hist, bad)
        if ok and battery:
            self.battery(d2, P2, bad)
        if ok and kept:
            # last: it uses up d2 (the callers keep only canon(d2), taken here before)
            key = canon(d2)
            ok = self.argument_checks(d2, key, kept[0], bad)
            return V, ok, label, _Used(key), P2
        return V, ok, label, d2, P2

    # ------------------------------------------------------------------------------------------
    def argument_checks(self, d2, key, kept, bad):
        """The argument object of add-like / update-like operations stays the caller's: the call leaves it as it was,
        and afterwards the mapping and the argument are independent objects (operations on one never show in the reads
        of the other).  Destroys d2 and the argument."""
        shape, arg, before = kept
        is_omd = shape in ('omd', 'same')
        if arg_snap(shape, arg) != before:
            bad('op', 'argument-changed', before, arg_snap(shape, arg))
            return False
        for mutate in (omd_mutations(arg) if is_omd else plain_mutations(shape, arg)):
            _quiet(mutate)
            if not is_omd and mutate.__name__ == 'grow':
                continue                                   # one comparison after both groups
            if canon(d2) != key:
                bad('op', 'not-independent-of-argument(mapping-moved)', key, canon(d2))
                return False
        before = arg_snap(shape, arg)
        for mutate in omd_mutations(d2):
            _quiet(mutate)
            if arg_snap(shape, arg) != before:
                bad('op', 'not-independent-of-argument(argument-moved)', before, arg_snap(shape, arg))
                return False
        return True

    # ------------------------------------------------------------------------------------------
    def copy_checks(self, src, new, k_src, P, op, hist, bad):
        ok = True
        if new is src:
            bad('op', 'independent-object', 'a new object', 'the same object')
            return False
        if canon(src) != k_src:
            bad('op', 'source-changed', k_src, canon(src))
            ok = False
        s = structure(src, P)
        if ok and s is not None:
            bad('op', 'source-changed', s[1], s[2])
            ok = False
        # no shared cells / value lists
        try:
            c1, _ = _walk(src, NEXT)
            c2, _ = _walk(new, NEXT)
            shared = {id(c) for c in c1} & {id(c) for c in c2}
            if src.root is new.root or src._map is new._map:
                shared.add('root/_map')
            for k in dict.keys(src):
                if dict.__getitem__(src, k) is dict.__getitem__(new, k):
                    shared.add('value list')
            if shared:
                bad('op', 'shares-structure-with-source', 'disjoint', 'shared')
                ok = False
        except Exception as e:
            bad('op', 'shares-structure-with-source', 'disjoint', 'raised ' + type(e).__name__)
            ok = False
        if not ok:
            return False
        # black-box independence: mutate one side, the other must not move
        K = self.keys
        muts = [('add', K[0], 'x'), ('set', K[-1], 'y'), ('poplast',), ('addlist', 'list', K[1], ('z', 'z')),
                ('update', 'pairs', ((K[0], 'u'),), ()), ('clear',)]
        fn = copy_fn(op)
        cls = self.cls()
        for side in (0, 1):
            o, _ = self.build(hist)
            cp = fn(o)
            tgt, oth = (cp, o) if side == 0 else (o, cp)
            before = canon(oth)
            for mu in muts:
                impl_apply(tgt, mu, cls)
                if canon(oth) != before:
                    bad('op', 'not-independent(%s-moved)' % ('source' if side == 0 else 'copy'), before, canon(oth))
                    return False
        return True

    # ------------------------------------------------------------------------------------------
    def result_reads(self, byval):
        """Every read that hands out a result object: (name, key or None, call on a mapping, model value from (pairs,
        keys, visible values, value lists)).  Defaults are fresh mutable objects: a miss hands out the caller's own."""
        out = [('keys', None, lambda o: o.keys(), lambda Q, ks, vis, ls: ks),
               ('keys(multi)', None, lambda o: o.keys(multi=True), lambda Q, ks, vis, ls: [k for k, _ in Q]),
               ('values', None, lambda o: o.values(), lambda Q, ks, vis, ls: [vis[k] for k in ks]),
               ('values(multi)', None, lambda o: o.values(multi=True), lambda Q, ks, vis, ls: [v for _, v in Q]),
               ('items', None, lambda o: o.items(), lambda Q, ks, vis, ls: [(k, vis[k]) for k in ks]),
               ('items(multi)', None, lambda o: o.items(multi=True), lambda Q, ks, vis, ls: list(Q)),
               ('todict', None, lambda o: o.todict(), lambda Q, ks, vis, ls: dict(vis)),
               ('todict(multi)', None, lambda o: o.todict(multi=True),
                lambda Q, ks, vis, ls: {k: list(v) for k, v in ls.items()}),
               ('counts', None, lambda o: o.counts(), lambda Q, ks, vis, ls: [(k, len(ls[k])) for k in ks]),
               ('inverted', None, lambda o: o.inverted(), lambda Q, ks, vis, ls: [(v, k) for k, v in Q]),
               ('sorted', None, lambda o: o.sorted(), lambda Q, ks, vis, ls: sorted(Q)),
               ('sorted(key,reverse)', None, lambda o: o.sorted(key=byval, reverse=True),
                lambda Q, ks, vis, ls: sorted(Q, key=byval, reverse=True)),
               ('sortedvalues', None, lambda o: o.sortedvalues(), lambda Q, ks, vis, ls: m_sortedvalues(Q, False)),
               ('sortedvalues(reverse)', None, lambda o: o.sortedvalues(reverse=True),
                lambda Q, ks, vis, ls: m_sortedvalues(Q, True))]
        for k in self.keys + ('zz',):
            out += [('getlist', k, lambda o, k=k: o.getlist(k), lambda Q, ks, vis, ls, k=k: list(ls.get(k, []))),
                    ('getlist(default)', k, lambda o, k=k: o.getlist(k, ['d']),
                     lambda Q, ks, vis, ls, k=k: list(ls.get(k, ['d']))),
                    ('get(default)', k, lambda o, k=k: o.get(k, ['d']), lambda Q, ks, vis, ls, k=k: vis.get(k, ['d']))]
        # the popping methods with a default are reads when the key is absent: they hand out the caller's default
        for nm, meth in (('pop(default)', 'pop'), ('popall(default)', 'popall'), ('poplast(key,default)', 'poplast')):
            out.append((nm, 'zz', lambda o, meth=meth: getattr(o, meth)('zz', ['d']), lambda Q, ks, vis, ls: ['d']))
        return out

    # ------------------------------------------------------------------------------------------
    def battery(self, d, P, bad):
        cls = type(d)
        P = list(P)
        keys = m_keys(P)
        vis = m_visible(P)
        lists = m_lists(P)
        k0 = canon(d)

        def guard(fn):
            try:
                return plain(fn())
            except Exception as e:
                return 'raised ' + type(e).__name__

        def R(nm, fn, want):
            got = guard(fn)
            want = guard(want) if callable(want) else plain(want)
            if got != want or type(got) is not type(want):
                bad('read', nm, want, got)

        def omdval(x):
            """A returned OMD as its pair list, after checking its type and internal consistency."""
            if type(x) is not cls:
                return '<%s object, expected %s>' % (type(x).__name__, cls.__name__)
            its = list(x.items(multi=True))
            s = structure(x, its)
            if s is not None:
                return '<returned %s is inconsistent: %s>' % (cls.__name__, s[0])
            return its

        def build_omd(pairs, c=cls):
            o = c()
            for k, v in pairs:
                o.add(k, v)
            return o

        vitems = [(k, vis[k]) for k in keys]
        R('items', lambda: list(d.items()), vitems)
        R('items(multi)', lambda: list(d.items(multi=True)), P)
        R('keys', lambda: list(d.keys()), keys)
        R('keys(multi)', lambda: list(d.keys(multi=True)), [k for k, _ in P])
        R('values', lambda: list(d.values()), [vis[k] for k in keys])
        R('values(multi)', lambda: list(d.values(multi=True)), [v for _, v in P])
        R('iteritems', lambda: list(d.iteritems()), vitems)
        R('iteritems(multi)', lambda: list(d.iteritems(multi=True)), P)
        R('iterkeys', lambda: list(d.iterkeys()), keys)
        R('iterkeys(multi)', lambda: list(d.iterkeys(multi=True)), [k for k, _ in P])
        R('itervalues', lambda: list(d.itervalues()), [vis[k] for k in keys])
        R('itervalues(multi)', lambda: list(d.itervalues(multi=True)), [v for _, v in P])
        for k in self.keys + ('zz',):
            R('get', lambda: d.get(k), vis.get(k))
            R('get(default)', lambda: d.get(k, 'D'), vis.get(k, 'D'))
            R('getlist', lambda: d.getlist(k), lists.get(k, []))
            R('getlist(default)', lambda: d.getlist(k, 'D'), lists.get(k, 'D'))
            R('getitem', lambda: d[k], lambda: vis[k])
            R('in', lambda: k in d, k in vis)
        R('len', lambda: len(d), len(keys))
        R('iter', lambda: list(d), keys)
        R('iter', lambda: [k for k in d], keys)
        R('reversed', lambda: list(reversed(d)), keys[::-1])

        def todict(multi):
            x = d.todict(multi=True) if multi else d.todict()
            return x if type(x) is dict else '<%s object, expected a plain dict>' % type(x).__name__
        R('todict', lambda: todict(False), vis)
        R('todict(multi)', lambda: todict(True), lists)
        R('counts', lambda: omdval(d.counts()), [(k, len(lists[k])) for k in keys])
        R('inverted', lambda: omdval(d.inverted()), [(v, k) for k, v in P])
        R('sorted', lambda: omdval(d.sorted()), lambda: sorted(P))
        byval = lambda i: i[1]                                                        # noqa: E731
        R('sorted(key)', lambda: omdval(d.sorted(key=byval)), lambda: sorted(P, key=byval))
        R('sorted(key,reverse)', lambda: omdval(d.sorted(key=byval, reverse=True)),
          lambda: sorted(P, key=byval, reverse=True))
        R('sorted(reverse)', lambda: omdval(d.sorted(reverse=True)), lambda: sorted(P, reverse=True))
        R('sortedvalues', lambda: omdval(d.sortedvalues()), lambda: m_sortedvalues(P, False))
        R('sortedvalues(reverse)', lambda: omdval(d.sortedvalues(reverse=True)), lambda: m_sortedvalues(P, True))

        # ---- equality: against OMDs (equal iff the pair lists are equal) ...
        def EQ(nm, other, want, reflected=False):
            R('==' + nm, lambda: d == other, want)
            R('!=' + nm, lambda: d != other, not want)
            if reflected:
                R('reflected==' + nm, lambda: other == d, want)
                R('reflected!=' + nm, lambda: other != d, not want)

        EQ('omd(equal)', build_omd(P), True, reflected=True)
        EQ('self', d, True)
        if cls is not base_omd():
            EQ('omd(equal,base-class)', build_omd(P, base_omd()), True, reflected=True)
        if P:
            if P[::-1] != P:
                EQ('omd(other-order)', build_omd(P[::-1]), False, reflected=True)
            EQ('omd(value-differs)', build_omd(P[:-1] + [(P[-1][0], 'X')]), False)
            EQ('omd(value-differs)', build_omd([(P[0][0], 'X')] + P[1:]), False)
            EQ('omd(extra-pair)', build_omd(P + [P[0]]), False, reflected=True)
            EQ('omd(missing-pair)', build_omd(P[:-1]), False, reflected=True)
            if len(P) > len(keys):
                EQ('omd(visible-items-only)', build_omd(vitems), False, reflected=True)
        else:
            EQ('omd(extra-pair)', build_omd([(self.keys[0], self.values[0])]), False, reflected=True)
        # ---- ... and against plain mappings (equal iff keys and visible values match)
        EQ('dict(equal)', dict(vis), True, reflected=True)
        EQ('mapping-proxy(equal)', types.MappingProxyType(dict(vis)), True)
        extra = dict(vis)
        extra['zz'] = 0
        EQ('dict(extra-key)', extra, False, reflected=True)
        if keys:
            for k in (keys[0], keys[-1]):
                ch = dict(vis)
                ch[k] = 'X'
                EQ('dict(value-differs)', ch, False, reflected=True)
                EQ('mapping-proxy(value-differs)', types.MappingProxyType(ch), False)
                less = dict(vis)
                del less[k]
                EQ('dict(missing-key)', less, False, reflected=True)
                oth = dict(less)
                oth['zz'] = vis[k]
                EQ('dict(other-key)', oth, False, reflected=True)
            EQ('dict(of-value-lists)', {k: list(v) for k, v in lists.items()}, False, reflected=True)
        R('repr', lambda: repr(d), '%s(%r)' % (cls.__name__, P))

        # ---- returned containers must not alias internal storage
        def alias_getlist():
            for k in keys:
                d.getlist(k).append('Z')
                d.getlist(k, 'D').append('Z')
            return canon(d) == k0
        R('getlist-result-is-a-copy', alias_getlist, True)

        def alias_todict():
            for v in d.todict(multi=True).values():
                v.append('Z')
            d.todict()['zz'] = 1
            return canon(d) == k0
        R('todict-result-is-a-copy', alias_todict, True)

        # ---- a mapping derived from this one (counts / inverted / sorted / sortedvalues) is the caller's own object
        def derived():
            mine = {id(dict.__getitem__(d, k)) for k in dict.keys(d)} | {id(c) for c in _walk(d, NEXT)[0] or ()}
            mine |= {id(cs) for cs in d._map.values()} | {id(d._map), id(d.root)}
            for make in (d.counts, d.inverted, d.sorted, d.sortedvalues, lambda: d.sorted(key=byval, reverse=True)):
                try:
                    r = make()
                    if type(r) is not cls:
                        continue                           # reported by the read itself
                except Exception:
                    continue
                if r is d:
                    return 'the mapping itself'
                its = {id(dict.__getitem__(r, k)) for k in dict.keys(r)} | {id(c) for c in _walk(r, NEXT)[0] or ()}
                its |= {id(cs) for cs in r._map.values()} | {id(r._map), id(r.root)}
                if its & mine:
                    return 'shares cells / value lists with the mapping'
                for mutate in omd_mutations(r):
                    _quiet(mutate)
            return canon(d) == k0
        R('derived-mapping-is-independent', derived, True)

        # ---- every result object is the caller's own: the caller changes it in place (append / sort / del / clear /
        # item assignment; a returned mapping is grown and emptied), and neither the mapping, nor a later call of the
        # same read, nor any read of another mapping (same pairs, built afterwards; an empty one) shows it
        def norm(x):
            if isinstance(x, dict) and type(x) is not dict:           # (its structure: checked by the reads above)
                return guard(lambda: list(x.items(multi=True))) if type(x) is cls else omdval(x)
            return plain(x)

        def call(fn, o):
            try:
                return True, fn(o)
            except Exception as e:
                return False, 'raised ' + type(e).__name__

        result_reads = self.result_reads(byval)
        wants = {}
        for Q in (P, []):
            qk, qv, ql = m_keys(Q), m_visible(Q), m_lists(Q)
            wants[bool(Q)] = [(nm if k is None else '%s[%s]' % (nm, 'hit' if k in qv else 'miss'),
                               guard(lambda: want(Q, qk, qv, ql))) for nm, k, _, want in result_reads]
        sound = []
        for i, (_, _, fn, _) in enumerate(result_reads):
            nm, want = wants[bool(P)][i]
            ok, r = call(fn, d)
            if not ok or norm(r) != want:
                continue                                   # a read that is wrong by itself is reported above
            sound.append((i, fn))
            scribble(r)
            got = norm(call(fn, d)[1])
            if got != want:
                bad('read', 'result-is-independent:%s|second-call' % nm, want, got)
        if canon(d) != k0:
            moved = canon(d)
            for i, fn in sound:                            # which result was it?  (each on a mapping of its own)
                o = build_omd(P)
                ko = canon(o)
                scribble(call(fn, o)[1])
                if canon(o) != ko:
                    bad('read', 'result-is-independent:%s|mapping-moved' % wants[bool(P)][i][0], ko, canon(o))
                    return
            bad('read', 'result-is-independent|mapping-moved', k0, moved)
            return
        for where, o, Q in (('same-mapping', d, P), ('other-mapping', build_omd(P), P), ('empty-mapping', cls(), [])):
            for i, fn in sound:
                nm, want = wants[bool(Q)][i]
                got = norm(call(fn, o)[1])
                if got != want:
                    bad('read', 'result-is-independent:%s|later-read(%s)' % (nm, where), want, got)
        if canon(d) != k0:
            bad('read', 'reads-changed-the-state', k0, canon(d))


# ----------------------------------------------------------------------------------------------------
# Directed part (exhaustive over its own small space): values that refer back to the mapping.
# "Arbitrary values" include the mapping itself, a container holding it, or a child mapping with a reference to its
# parent.  The reference is a graph of plain lists: a PairList per mapping.  Values are compared by *identity*: mutable
# objects are numbered in first-visit order of a walk over (source, result of the operation), so "the copy's value is
# the copy itself", "both pairs hold the same list" and "the shallow copy holds the source's objects" are all part of
# the compared form.  Reads that recurse into the values on the plain-list reference too (==, sorted) or render them
# (repr: a list shows [...]) and inverted() (unhashable values) are not part of this search.

class PairList(list):
    """Reference model of one mapping inside a graph of values: the list of its (key, value) pairs."""


REF = '<REF>'
CYC_WRAPS = ('self', 'list', 'tuple', 'dict', 'child', 'shared-list')
CYC_TAG = 'cyclic-values'


def cyc_pairlists(maxlen):
    """Every pair list of 1..maxlen pairs over keys a/b and values 0/REF holding at least one REF, shortest first."""
    out = []
    for n in range(1, maxlen + 1):
        for i in range((2 * 2) ** n):
            pl, j = [], i
            for _ in range(n):
                pl.append(('ab'[j % 2], (0, REF)[(j // 2) % 2]))
                j //= 4
            if any(v == REF for _, v in pl):
                out.append(tuple(pl))
    return out


def cyc_build(cls, pairs, wrap, how):
    """-> (real mapping, its PairList model); every REF is one and the same object of the shape named by wrap."""
    d, m = cls(), PairList()
    m.cls = cls.__name__
    if wrap == 'self':
        rd, rm = d, m
    elif wrap == 'list':
        rd, rm = [d], [m]
    elif wrap == 'tuple':
        rd, rm = (d, 0), (m, 0)
    elif wrap == 'dict':
        rd, rm = {'p': d}, {'p': m}
    elif wrap == 'child':
        rd, rm = cls(), PairList([('parent', m), ('n', 1), ('parent', 0)])
        rm.cls = cls.__name__
        rd.add('parent', d)
        rd.add('n', 1)
        rd.add('parent', 0)
    elif wrap == 'shared-list':
        rd, rm = [0], [0]            # no cycle: one mutable object held by several pairs stays one object in a deep copy
    else:
        raise AssertionError(wrap)
    real = [(k, rd if v == REF else v) for k, v in pairs]
    if how == 'add':
        for k, v in real:
            d.add(k, v)
    elif how == 'update_extend':
        d.update_extend(real)
    else:
        raise AssertionError(how)
    m.extend((k, rm if v == REF else v) for k, v in pairs)
    return d, m


def is_atom(x):
    return x is None or type(x) in (int, str, bool, float)


def graph(x, table, keep):
    """Address-free form of an object graph; non-atomic objects are numbered in first-visit order."""
    if is_atom(x):
        return x
    n = table.get(id(x))
    if n is not None:
        return ('ref', n)
    n = table[id(x)] = len(table)
    keep.append(x)
    if isinstance(x, PairList):
        return ('mapping', n, x.cls, [(graph(k, table, keep), graph(v, table, keep)) for k, v in list(x)])
    if isinstance(x, base_omd()):
        return ('mapping', n, type(x).__name__,
                [(graph(k, table, keep), graph(v, table, keep)) for k, v in x.items(multi=True)])
    if type(x) in (list, tuple):
        return (type(x).__name__, n, [graph(i, table, keep) for i in x])
    if type(x) is dict:
        return ('dict', n, [(graph(k, table, keep), graph(v, table, keep)) for k, v in x.items()])
    return ('<%s object>' % type(x).__name__, n)


def tok(table):
    def T(v):
        return v if is_atom(v) else ('object', table.get(id(v), '<not part of the graph>'))
    return T


def cyc_reads_model(m, T):
    P = list(m)
    tv = lambda ps: [(k, T(v)) for k, v in ps]                                          # noqa: E731
    keys, vis, lists = m_keys(P), m_visible(P), m_lists(P)
    out = {}
    out['items'] = out['iteritems'] = [(k, T(vis[k])) for k in keys]
    out['items(multi)'] = out['iteritems(multi)'] = tv(P)
    out['keys'] = out['iterkeys'] = out['iter'] = list(keys)
    out['keys(multi)'] = out['iterkeys(multi)'] = [k for k, _ in P]
    out['values'] = out['itervalues'] = [T(vis[k]) for k in keys]
    out['values(multi)'] = out['itervalues(multi)'] = [T(v) for _, v in P]
    out['reversed'] = keys[::-1]
    out['len'] = len(keys)
    for k in ('a', 'b', 'zz'):
        out['get %s' % k] = T(vis.get(k))
        out['get(default) %s' % k] = T(vis.get(k, 'D'))
        out['getlist %s' % k] = [T(v) for v in lists.get(k, [])]
        out['getitem %s' % k] = T(vis[k]) if k in vis else 'raised KeyError'
        out['in %s' % k] = k in vis
    out['todict'] = {k: T(v) for k, v in vis.items()}
    out['todict(multi)'] = {k: [T(v) for v in vs] for k, vs in lists.items()}
    out['counts'] = [(k, len(lists[k])) for k in keys]
    ls = {k: [T(v) for v in vs] for k, vs in lists.items()}
    out['state'] = {'pairs': tv(P), 'pairs(backward-links)': tv(P), 'dict-lists': ls, 'cell-index': ls,
                    'cell-index-holds-the-linked-cells': True}
    return out


def cyc_reads_impl(d, T):
    out = {}
    tv = lambda ps: [(k, T(v)) for k, v in ps]                                          # noqa: E731

    def g(nm, fn):
        try:
            out[nm] = fn()
        except Exception as e:
            out[nm] = 'raised ' + type(e).__name__
    g('items', lambda: tv(d.items()))
    g('iteritems', lambda: tv(d.iteritems()))
    g('items(multi)', lambda: tv(d.items(multi=True)))
    g('iteritems(multi)', lambda: tv(d.iteritems(multi=True)))
    g('keys', lambda: list(d.keys()))
    g('iterkeys', lambda: list(d.iterkeys()))
    g('iter', lambda: list(d))
    g('keys(multi)', lambda: list(d.keys(multi=True)))
    g('iterkeys(multi)', lambda: list(d.iterkeys(multi=True)))
    g('values', lambda: [T(v) for v in d.values()])
    g('itervalues', lambda: [T(v) for v in d.itervalues()])
    g('values(multi)', lambda: [T(v) for v in d.values(multi=True)])
    g('itervalues(multi)', lambda: [T(v) for v in d.itervalues(multi=True)])
    g('reversed', lambda: list(reversed(d)))
    g('len', lambda: len(d))
    for k in ('a', 'b', 'zz'):
        g('get %s' % k, lambda: T(d.get(k)))
        g('get(default) %s' % k, lambda: T(d.get(k, 'D')))
        g('getlist %s' % k, lambda: [T(v) for v in d.getlist(k)])
        g('getitem %s' % k, lambda: T(d[k]))
        g('in %s' % k, lambda: k in d)

    def todict(multi):
        x = d.todict(multi=True) if multi else d.todict()
        if type(x) is not dict:
            return '<%s object, expected a plain dict>' % type(x).__name__
        return {k: [T(i) for i in v] for k, v in x.items()} if multi else {k: T(v) for k, v in x.items()}
    g('todict', lambda: todict(False))
    g('todict(multi)', lambda: todict(True))

    def counts():
        c = d.counts()
        return list(c.items(multi=True)) if type(c) is type(d) else '<%s object>' % type(c).__name__
    g('counts', counts)

    def state():
        cells, fwd = _walk(d, NEXT)
        _, back = _walk(d, PREV)
        st = {'pairs': tv(fwd) if isinstance(fwd, tuple) else fwd,
              'pairs(backward-links)': tv(reversed(back)) if isinstance(back, tuple) else back,
              'dict-lists': {k: [T(v) for v in vs] for k, vs in dict.items(d)},
              'cell-index': {k: [T(c[VALUE]) for c in cs] for k, cs in d._map.items()}}
        mine = {}
        for c in cells or ():
            mine.setdefault(c[KEY], []).append(c)
        st['cell-index-holds-the-linked-cells'] = (
            set(mine) == set(d._map) and all(len(mine[k]) == len(d._map[k]) and
                                             all(a is b for a, b in zip(mine[k], d._map[k])) for k in mine))
        return st
    g('state', state)
    return out


def cyc_ops():
    return [('copy',), ('copy.copy',), ('copy.deepcopy',)] + [('pickle', p) for p in PICKLE_PROTOCOLS]


def cyc_compare(objs_i, objs_m, bad, where, opname):
    """Joint graph of the real objects against the joint graph of the reference lists, then every mapping in the graph
    read through the (identity-comparing) battery.  -> True when the graphs agree."""
    ti, tm, keep_i, keep_m = {}, {}, [], []
    try:
        gi = [graph(o, ti, keep_i) for o in objs_i]
    except Exception as e:
        gi = 'raised ' + type(e).__name__
    gm = [graph(o, tm, keep_m) for o in objs_m]
    if gi != gm:
        bad('C01|op:%s|%s:%s' % (opname, CYC_TAG, where), gm, gi)
        return False
    Ti, Tm = tok(ti), tok(tm)
    for oi, om in zip(keep_i, keep_m):
        if not isinstance(om, PairList):
            continue
        ri, rm = cyc_reads_impl(oi, Ti), cyc_reads_model(om, Tm)
        for nm in rm:
            if ri.get(nm) != rm[nm]:
                short = nm.split(' ')[0]
                if short == 'state':
                    diff = [k for k in rm[nm] if not isinstance(ri[nm], dict) or ri[nm].get(k) != rm[nm][k]]
                    bad('C01|op:%s|%s:state:%s' % (opname, CYC_TAG, diff[0]), rm[nm], ri[nm])
                else:
                    bad('C01|read:%s|%s' % (short, CYC_TAG), rm[nm], ri.get(nm))
    return True


def cyc_group(group):
    """One (class, pair list, wrap, build) group: the built mapping, then every copying operation on a fresh build.
    -> (violations, number of cases)"""
    clsname, pairs, wrap, how = group
    cls = resolve(clsname)
    V, n = [], 0
    for op in [None] + cyc_ops():
        n += 1
        case = {'kind': CYC_TAG, 'class': clsname, 'pairs': [list(p) for p in pairs], 'wrap': wrap, 'build': how,
                'op': list(op) if op else None}
        seen = set()

        def bad(sig, exp, obs):
            if sig not in seen:
                seen.add(sig)
                V.append((sig, case, plain(exp), plain(obs), None, (CYC_TAG,)))
        signal.setitimer(signal.ITIMER_VIRTUAL, STEP_CPU_S)
        try:
            cyc_one(cls, pairs, wrap, how, op, bad)
        except Budget:
            bad('C01|op:%s|%s:terminates' % (opsig(op) if op else how, CYC_TAG), 'the operation and the reads return',
                'no result after %g s of CPU time' % STEP_CPU_S)
        finally:
            signal.setitimer(signal.ITIMER_VIRTUAL, 0)
    return V, n


def cyc_one(cls, pairs, wrap, how, op, bad):
    try:
        d, m = cyc_build(cls, pairs, wrap, how)
    except Exception as e:
        if op is None:
            bad('C01|op:%s|%s:result' % (how, CYC_TAG), 'returns', 'raised ' + type(e).__name__)
        return
    if op is None:
        cyc_compare([d], [m], bad, 'pairs', how)
        return
    name = opsig(op)
    mc = copymod.copy(m) if op[0] in ('copy', 'copy.copy') else copymod.deepcopy(m)
    try:
        dc = copy_fn(op)(d)
    except Exception as e:
        bad('C01|op:%s|%s:result' % (name, CYC_TAG), 'a copy', 'raised ' + type(e).__name__)
        return
    if type(dc) is not cls:
        bad('C01|op:%s|%s:type' % (name, CYC_TAG), cls.__name__, type(dc).__name__)
        return
    if not cyc_compare([d, dc], [m, mc], bad, 'graph', name):
        return
    # the two objects are independent: emptying and refilling one leaves the other (and what it holds) as it was
    for a, b, am, bm, what in ((dc, d, mc, m, 'source'), (d, dc, m, mc, 'copy')):
        try:
            a.add('zz', 'x')
            a.clear()
            a.add('b', 'y')
        except Exception as e:
            bad('C01|op:%s|%s:result-is-usable' % (name, CYC_TAG), 'add/clear return', 'raised ' + type(e).__name__)
            return
        am.append(('zz', 'x'))
        del am[:]
        am.append(('b', 'y'))
        if not cyc_compare([b, a], [bm, am], bad, 'not-independent(%s-moved)' % what, name):
            return


def run_cyclic(ctx):
    maxlen = 3 if ctx.quick() else 4
    groups = []
    for pairs in cyc_pairlists(maxlen):
        for wrap in CYC_WRAPS:
            groups.append(('dictutils.OrderedMultiDict', pairs, wrap, 'add'))
            groups.append(('dictutils.OrderedMultiDict', pairs, wrap, 'update_extend'))
            groups.append(('urlutils.QueryParamDict', pairs, wrap, 'add'))

    def shard(gs):
        signal.signal(signal.SIGVTALRM, _on_timer)
        V, n = [], 0
        for g in gs:
            v, k = cyc_group(g)
            V += v
            n += k
        return V, n
    total = 0
    for V, n in core.pmap(shard, [groups[i::16] for i in range(16)]):
        total += n
        for v in V:
            ctx.violation(*v)
    ctx.note('values referring back to the mapping: %d value graphs, %d cases (build + every copying operation)'
             % (len(groups), total))
    return {'rule': 'every pair list of 1..%d pairs over keys a/b and values 0/REF with >= 1 REF, REF being each of %s, '
                    'built by add / update_extend; then copy(), copy.copy, copy.deepcopy and pickle under every '
                    'protocol on a fresh build; the joint object graph of (source, copy) and every identity-safe read '
                    'of every mapping in it are compared with the same operation on plain lists of pairs'
                    % (maxlen, list(CYC_WRAPS)),
            'value_graphs': len(groups), 'cases': total, 'exhaustive': True,
            'sample': {'kind': CYC_TAG, 'class': groups[-1][0], 'pairs': [list(p) for p in groups[-1][1]],
                       'wrap': groups[-1][2], 'build': groups[-1][3], 'op': ['copy.deepcopy']}}


# ----------------------------------------------------------------------------------------------------
# Directed part (exhaustive over its own small space): keyword arguments under every name.
# OMD(**kw), OMD(E, **kw) and update(E, **kw) take their keys from the *names* of the keywords, so the key alphabet of
# these forms is "every identifier".  The searches above use the names a/b; here every name of a wider class is the
# key: names that argument lists of mapping-like APIs conventionally use, plus every parameter name that any method of
# the class under check declares (found by introspection of the tree under check, so that a positional parameter
# that shadows a keyword is met under whatever name it carries).  Not explored: the names the public signatures of the
# unchanged tree bind themselves - self / cls in a constructor call, self / E in update(E, **F) - where a keyword of
# that name is the parameter and not a pair.

KW_TAG = 'keyword-names'
KW_CONVENTIONAL = ('iterable', 'iterator', 'it', 'items', 'mapping', 'pairs', 'seq', 'sequence', 'args', 'kwargs', 'kw',
                   'a', 'E', 'F', 'other', 'others', 'default', 'multi', 'key', 'keys', 'value', 'values', 'k', 'v',
                   'dict', 'd', 'm', 'src', 'source', 'data', 'obj', 'arg', 'init', 'initial', 'name', 'state',
                   'root', '_map', 'dict_or_iterable', 'self_', 'x', 'None_', '_')
KW_BOUND = {'new': ('self', 'cls'), 'update': ('self', 'E'), 'update_extend': ('self', 'E')}
KW_VALUE_SETS = ((0, 1), (None, (('x', 1),)))       # atoms; None and a value that is itself an iterable of pairs


def declared_parameter_names(cls):
    out = set()
    try:
        for c in cls.__mro__:
            if c.__module__ == 'builtins':
                continue
            for f in list(vars(c).values()):
                f = getattr(f, '__func__', None) or getattr(f, 'fget', None) or f
                code = getattr(f, '__code__', None)
                if code is None:
                    continue
                n = code.co_argcount + code.co_kwonlyargcount + bool(code.co_flags & 4) + bool(code.co_flags & 8)
                out.update(code.co_varnames[:n])
    except Exception:
        pass
    return out


def kw_names(clsnames):
    import keyword
    names = list(KW_CONVENTIONAL)
    for cn in clsnames:
        names += sorted(declared_parameter_names(resolve(cn)))
    out = []
    for n in names:
        if (n not in out and type(n) is str and n.isidentifier() and not keyword.iskeyword(n)
                and n not in KW_BOUND['new']):
            out.append(n)
    return out


def kw_specs(clsname, name, quick):
    other = 'a' if name != 'a' else 'b'
    out = [Spec(clsname, (name, other), KW_VALUE_SETS[0], KW_VALUE_SETS[0] + (None,), 8, True)]
    if clsname == 'dictutils.OrderedMultiDict' or not quick:
        out.append(Spec(clsname, (other, name), KW_VALUE_SETS[0], KW_VALUE_SETS[0] + (None,), 8, True))
        out.append(Spec(clsname, (name, other), KW_VALUE_SETS[1], KW_VALUE_SETS[1], 8, True))
    return out


def kw_free(op):
    """No keyword of the operation is a name the operation's public signature binds itself."""
    kw = op[3] if len(op) > 3 else ()
    return not any(k in KW_BOUND[op[0]] for k, _ in kw)


def kw_one(spec):
    """Every constructor shape from nothing, then every update(E, **kw) shape in every distinct state so reached;
    state oracle and read battery after each.  -> (violations, steps, steps with keywords)"""
    V, n, nkw = [], 0, 0
    ups = [op for op in spec.menu if op[0] in ('update', 'update_extend') and len(op) > 3 and op[3]]
    seen = set()
    for op in spec.news:
        if not kw_free(op) or not spec.enabled([], op):
            continue
        _, key, _, v = spec.guarded_step((), op, battery=True)
        n += 1
        nkw += bool(op[3])
        V += v
        if key is None or key in seen:
            continue
        seen.add(key)
        P = spec.build((op,))[1]
        for up in ups:
            if not kw_free(up) or not spec.enabled(P, up):
                continue
            V += spec.guarded_step((op,), up, battery=True)[3]
            n += 1
            nkw += 1
    return V, n, nkw


def run_kwnames(ctx):
    classes = ('dictutils.OrderedMultiDict', 'urlutils.QueryParamDict')
    names = kw_names(classes)
    jobs = [(cn, nm) for nm in names for cn in classes]

    def shard(js):
        signal.signal(signal.SIGVTALRM, _on_timer)
        V, n, nkw = [], 0, 0
        for cn, nm in js:
            for spec in kw_specs(cn, nm, ctx.quick()):
                v, k, kk = kw_one(spec)
                V += [x[:5] + (tuple(x[5]) + (KW_TAG,),) for x in v]
                n += k
                nkw += kk
        return V, n, nkw
    total = totkw = 0
    for V, n, nkw in core.pmap(shard, [jobs[i::16] for i in range(16)]):
        total += n
        totkw += nkw
        for v in V:
            ctx.violation(*v)
    ctx.note('keyword arguments under every name: %d names, %d steps (%d with keywords)' % (len(names), total, totkw))
    return {'rule': 'for every name: the name and one other key, values %r; every constructor shape (positional '
                    'shapes, ** alone, positional + **), then every update(E, **kw) shape in every distinct state so '
                    'reached; state oracle and full read battery after each step; names = conventional argument '
                    'names + every parameter name declared by a method of the class under check, minus %r'
                    % (list(KW_VALUE_SETS), KW_BOUND),
            'names': names, 'steps': total, 'steps_with_keywords': totkw, 'exhaustive': True,
            'sample': {'config': kw_specs(classes[0], names[0], True)[0].config,
                       'history': [['new', 'none', [], [[names[0], 1]]]]}}


# ----------------------------------------------------------------------------------------------------

def configs(tier):
    L = 4 if tier == 'quick' else 5
    main = ('dictutils.OrderedMultiDict', (0, 1, 2), (0, 1), (0, 1), L, False)
    kw = ('dictutils.OrderedMultiDict', ('a', 'b'), (0, 1), (0, 1, None), L, True)
    # None as key *and* as value: sentinel / fill values of the implementation must not be confused with data
    nonekv = ('dictutils.OrderedMultiDict', (None, 'a'), (None, 1), (None, 1), 3 if tier == 'quick' else 4, False)
    # keys / values of another class: tuples (empty, several items - "%" and "*" treat them as argument lists) that are
    # also falsy / equal to one another as key and value
    tup = ('dictutils.OrderedMultiDict', ((), (1, 2)), ((), (1, 2)), ((), (1, 2)), 3 if tier == 'quick' else 4, False)
    out = [main, kw, nonekv, tup]
    if tier == 'quick':
        out.append(('urlutils.QueryParamDict', (0, 1, 2), (0, 1), (0, 1), 3, False))
    else:
        out.append(('urlutils.QueryParamDict', (0, 1, 2), (0, 1), (0, 1), L, False))
        out.append(('urlutils.QueryParamDict', ('a', 'b'), (0, 1), (0, 1, None), 4, True))
    return out


def check_initial(ctx, spec):
    """Construction is the first operation of every history: check each constructor shape from nothing."""
    signal.signal(signal.SIGVTALRM, _on_timer)
    sound, labels = [], []
    for op in spec.news:
        if not spec.enabled([], op):
            continue
        _, key, label, V = spec.guarded_step((), op)
        labels.append(label)
        for v in V:
            ctx.violation(*v)
        if key is not None:
            sound.append(op)
    spec._sound_news = sound
    return labels


def run(ctx):
    parts = []
    scratch = core.scratch_dir('c01')
    try:
        _run(ctx, parts, scratch)
    finally:
        shutil.rmtree(scratch, ignore_errors=True)


def _run(ctx, parts, scratch):
    for cfg in configs(ctx.tier):
        spec = Spec(*cfg)
        spec.scratch = scratch
        labels = check_initial(ctx, spec)
        res = histories.explore(spec, ctx)
        for lb in labels:
            res.labels[lb] += 1
        res.transitions += len(labels)
        parts.append((spec.config, res))
        ctx.note('%s keys=%s L=%d%s: states=%d transitions=%d depth=%d fixpoint=%s'
                 % (cfg[0], list(cfg[1]), cfg[4], ' +kwargs' if cfg[5] else '', res.states, res.transitions,
                    res.depth, res.fixpoint))
    cov = histories.merge_coverage(ctx, parts, rule=(
        'BFS to fixpoint over all histories of the op menu whose every prefix holds <= L pairs (reference list of '
        'pairs); a state is the canonical form of the real object (linked-list walk, dict storage in dict order, '
        'per-key cell index); every transition is executed on the real object and compared with the list model, '
        'every sound state is read through the full battery'))
    cov['exhaustive'] = all(r.fixpoint for _, r in parts)
    cov['bounds'] = {'pair_cap_L': [c[4] for c in configs(ctx.tier)], 'menu_sizes': [len(Spec(*c).menu)
                                                                                    for c in configs(ctx.tier)],
                     'pickle_protocols': list(PICKLE_PROTOCOLS)}
    menu_ops = sorted({opsig(op) for c in configs(ctx.tier) for op in Spec(*c).menu + Spec(*c).news})
    seen_ok = {k.split(' -> ')[0] for k in cov['op_result_table']
               if k.endswith(' -> ok') or ('(raising-' in k and k.endswith(' -> ArgumentFailure'))}
    cov['menu_ops_never_succeeding'] = [o for o in menu_ops if o not in seen_ok]
    cov['op_shapes_stopped_after_exhausting_cpu_budget'] = sorted(os.listdir(scratch))
    cov['values_referring_back_to_the_mapping'] = run_cyclic(ctx)
    cov['keyword_arguments_under_every_name'] = run_kwnames(ctx)
    ctx.assumptions += [
        'keys/values are ints, short strings, None and tuples of ints with well-behaved __eq__/__hash__',
        'popitem(): removing the last pair, or some present key with all its pairs, are both accepted (DESIGN 5.1)',
        'update_extend(self): extending by the visible items or by all pairs are both accepted',
        'update_extend(E, **kwargs), update(self, **kwargs) and the non in-place | operator are not among the operation '
        'shapes the statement lists: not explored',
        'keyword forms (OMD(**kw), OMD(E, **kw), update(E, **kw)): a keyword named like a parameter that the public '
        'signature of the unchanged tree binds itself (self / cls in a constructor call, self / E in update) is that '
        'parameter, not a pair: not explored; every other identifier is a key',
        'fromkeys(keys[, default]) is explored with distinct keys only',
        'an operation is enabled only when every successor the statement allows holds <= L pairs '
        '(and, in the int-key searches, only values of the domain: setdefault(k) without default needs k present)',
        'operands that are OMDs are built with add() on the class under check',
        'argument oracle: after a call the mapping and the argument object (OMD, dict, keys()-object, list of pairs, '
        'list of values) are independent - in-place operations on one do not show in the other; the second object is '
        'mutated by a fixed battery (add/addlist/update_extend, poplast/popitem/set/clear), it is not a second '
        'dimension of the BFS',
        'an argument iterable that fails while it is consumed: the failure must reach the caller; the mapping may hold '
        'any prefix of the items produced before the failure (all-or-nothing and item-by-item are both accepted)',
        'values referring back to the mapping: ==, !=, sorted, sortedvalues, inverted and repr are not read on them (a '
        'plain list of pairs recurses, raises or renders "[...]" there); mutators other than add / update_extend / '
        'clear are not applied to such mappings']


def replay(ctx, data):
    case = data['case']
    if case.get('kind') == CYC_TAG:
        return replay_cyclic(case, data.get('signature'))
    spec = Spec.from_config(case['config'])
    hist = [detuple(op) for op in case['history']]
    msgs = []
    want = data.get('signature')
    signal.signal(signal.SIGVTALRM, _on_timer)
    for i in range(len(hist)):
        pre = tuple(hist[:i])
        signal.setitimer(signal.ITIMER_VIRTUAL, 10 * STEP_CPU_S)
        try:
            d, P = spec.build(pre)
            V, ok, label, _, _ = spec.step(d, P, hist[i], pre)
        except Budget:
            msgs.append('step %d %r: no result after %g s of CPU time (C01|op:%s|terminates or C01|read:terminates)'
                        % (i, hist[i], 10 * STEP_CPU_S, opsig(hist[i])))
            break
        finally:
            signal.setitimer(signal.ITIMER_VIRTUAL, 0)
        for v in V:
            if want in (None, v[0]):          # other defects met on the way are not this case's verdict
                msgs.append('step %d %r: %s expected=%r observed=%r' % (i, hist[i], v[0], v[2], v[3]))
        if not ok:
            break
    return msgs


def replay_cyclic(case, want):
    msgs = []

    def bad(sig, exp, obs):
        if want in (None, sig):
            msgs.append('%s expected=%r observed=%r' % (sig, plain(exp), plain(obs)))
    signal.signal(signal.SIGVTALRM, _on_timer)
    signal.setitimer(signal.ITIMER_VIRTUAL, 10 * STEP_CPU_S)
    op = detuple(case['op']) if case['op'] else None
    try:
        cyc_one(resolve(case['class']), detuple(case['pairs']), case['wrap'], case['build'], op, bad)
    except Budget:
        msgs.append('no result after %g s of CPU time (C01|op:%s|%s:terminates)'
                    % (10 * STEP_CPU_S, opsig(op) if op else case['build'], CYC_TAG))
    finally:
        signal.setitimer(signal.ITIMER_VIRTUAL, 0)
    return msgs

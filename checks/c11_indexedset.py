"""C11 - setutils.IndexedSet is at once an insertion-ordered list of unique items and a set.

Engine E1 (mc.histories): breadth-first search over every history of list-style and set-style operations on a real
IndexedSet, compared step by step with an independent model: a plain Python list of distinct items whose *contents*
after every set operation are computed by the built-in `set` and whose *order* is "first appearance in self, then in
the operands as iterated".

* state oracle (per transition): the operation's outcome, live items vs. the model, consistency of the three internal
  structures (item_list with tombstones, item_index_map, dead_indices; if they are not laid out like that, a black-box
  probe on a replayed twin instead: two fresh items are added, then every position is read back).  A failing transition
  is attributed to the operation and not expanded.
* read oracles (per reached state - observers are functions of the state, so they are evaluated once per distinct state,
  when it is expanded; states of the last level get a reads-only visit): iteration, len, membership, s[i] for every valid
  index incl. negative ones, ALL slices s[i:j:k] with i, j in [-n-1, n+1] or None and positive step, index, count,
  reversed, union/intersection/difference with 0, 1 and 2 operands of every operand type, symmetric_difference with one,
  the operator forms (also reflected, with plain sets) and issubset/issuperset/isdisjoint.  A failing reader is
  attributed to the reader and the search continues.

* independence (per reached state): every way of obtaining a second IndexedSet with the same items (IndexedSet(s),
  s.union(), s.difference(), s[:], empty.update(s), empty |= s) is followed by every single removal (and one add) on the
  derived object - the source must not change - and on the source - the derived object must not change: an object that
  was only *read* keeps answering like its list.
* sort() is explored without arguments, with reverse=True, with an injective key, and with a key that produces ties
  with and without reverse=True (list.sort is stable in both directions).  A sort that list.sort refuses (mutually
  unorderable items, key function raising TypeError) may leave the items in any order, as it does with a list, but the
  object must stay coherent: the order it iterates in afterwards is taken as the list and everything else (internal
  structures, s[i], index, later operations) must agree with it.

Configurations: `setutils._COMPACTION_FACTOR` (module-global seam, restored afterwards) scaled to 1 (tombstones persist),
2, and the native value; with the native value the search also starts from pre-loaded sets (9, 17, 25 items) in which
one, two or three tombstones survive below the compaction threshold.  One more native-factor search runs over a domain
of mutually unorderable hashable items (ints, a str, None) listed in an order whose sort moves items before it fails.

Directed supplement (both tiers, reported as non-exhaustive): native-scale histories - 6000 items, 520 removals that
leave separate holes, so the dead-ratio trigger (1/8) never fires and the number of dead intervals passes 128, 192, 256,
384, 512 - over hole geometries (victims 10, 3, 2 apart = exactly one live item between two holes, mixed gaps, gaps
with touching holes) x removal orders (ascending, descending, from both ends) x entry points (remove, pop(i), pop(-i),
discard, -= 16 at a time); after every step len, s[i] / index around the hole, the ends and the middle, and around the
typical thresholds every 6th position (all at the end), iteration, reversed and slices are compared with a plain list.

Directed supplement 2 (both tiers, non-exhaustive): bulk set operations on sets of 23 .. 513 items (powers of two and
3 * powers of two +-1, int constants of the module +-1; thorough: up to 2049, and 1000), with and without tombstones:
every in-place form (update, *_update, |= &= -= ^=; the named ones also with two operands) and every non-mutating form
(named, operator, reflected operator, predicates) x operand type x share of self's items the operand holds (none, a few,
just under half, half, most, all; prefix / suffix / scattered).  After an in-place form the object the operation was
APPLIED TO (not only the object the operator hands back) must hold the result - `s &= o` is in-place as with a set.
Reflected operators (`other | s`, `other & s`, `other ^ s`) are ordered like the forward ones: first appearance in the
IndexedSet, then in the other operand.
"""
import itertools
import signal

from mc import core, histories

PROPERTY = 'C11'
LEVEL = 'model_checking'

FOREIGN = 'zz'              # hashable value that is never inserted
TOMB = '\x00<dead-slot>'   # how a tombstone is shown in the harness' view of item_list (None is a legal item)
PROBES = ('p0', 'p1')       # fresh items added to the replayed twin by the black-box probe
CPU_BUDGET = 60.0           # CPU seconds for the work on one state (normally ~0.05 s): hang guard
CONCRETE = ('set', 'frozenset', 'list', 'tuple', 'iset')


class Hang(BaseException):
    pass


def _on_alarm(signum, frame):
    raise Hang()


class cpu_budget:
    """Raises Hang inside the block when it has used more than `secs` of *CPU* time (load independent)."""

    def __init__(self, secs):
        self.secs = secs

    def __enter__(self):
        self.old = signal.signal(signal.SIGVTALRM, _on_alarm)
        signal.setitimer(signal.ITIMER_VIRTUAL, self.secs)

    def __exit__(self, *a):
        signal.setitimer(signal.ITIMER_VIRTUAL, 0)
        signal.signal(signal.SIGVTALRM, self.old)
        return False


def SU():
    from boltons import setutils
    return setutils


NATIVE_FACTOR = None


def native_factor():
    global NATIVE_FACTOR
    if NATIVE_FACTOR is None:
        NATIVE_FACTOR = SU()._COMPACTION_FACTOR
    return NATIVE_FACTOR


def thin(V, keep=2):
    """At most `keep` occurrences per (signature, tags) from the visit of one state: a broken reader fails for
    hundreds of arguments in every state; shipping them all to the parent only costs memory."""
    seen, out = {}, []
    for v in V:
        k = (v[0], v[5])
        seen[k] = seen.get(k, 0) + 1
        if seen[k] <= keep:
            out.append(v)
    return out


def tup(x):
    return tuple(tup(i) for i in x) if isinstance(x, (list, tuple)) else x


def dedupe(seq):
    out, seen = [], set()
    for x in seq:
        if x not in seen:
            seen.add(x)
            out.append(x)
    return out


# ----------------------------------------------------------------------------------------------------
# operands:  ('set', vals) ('frozenset', vals) ('list', vals) ('tuple', vals) ('iset', vals)
#            ('isetd', vals, removed)  - an IndexedSet that had `removed` removed (may carry its own tombstones)
#            ('self',)

def make_operand(spec, s, L):
    """-> (object handed to the implementation, its items in iteration order for the model)."""
    t = spec[0]
    if t == 'self':
        return s, list(L)
    vals = spec[1]
    if t == 'set':
        o = set(vals)
        return o, list(o)            # the very same object is iterated by both sides
    if t == 'frozenset':
        o = frozenset(vals)
        return o, list(o)
    if t == 'list':
        return list(vals), list(vals)
    if t == 'tuple':
        return tuple(vals), list(vals)
    IS = SU().IndexedSet
    if t == 'iset':
        o = IS()
        for v in vals:
            o.add(v)
        return o, dedupe(vals)
    if t == 'isetd':
        o = IS()
        for v in vals:
            o.add(v)
        for v in spec[2]:
            o.remove(v)
        return o, [x for x in dedupe(vals) if x not in spec[2]]
    raise AssertionError(spec)


def has_dups(specs):
    return any(sp[0] in ('list', 'tuple') and len(set(sp[1])) != len(sp[1]) for sp in specs)


def first_appearance(content, *seqs):
    return dedupe(x for x in itertools.chain(*seqs) if x in content)


# ----------------------------------------------------------------------------------------------------
# model: contents by the built-in set, order by first appearance

def model_apply(L, op, items):
    """-> (new list, result).  `items`: operand item lists in iteration order.  result: ('ok', value|None)"""
    name = op[0]
    if name == 'add':
        return (L + [op[1]] if op[1] not in L else L), ('ok', None)
    if name in ('remove', 'discard'):
        if op[1] in L:
            L = list(L)
            L.remove(op[1])
            return L, ('ok', None)
        return L, (('absent', None) if name == 'remove' else ('ok', None))
    if name == 'pop':
        L = list(L)
        v = L.pop() if len(op) == 1 else L.pop(op[1])
        return L, ('ok', v)
    if name == 'clear':
        return [], ('ok', None)
    if name in SORTS:
        try:
            return sorted(L, **SORTS[name]), ('ok', None)
        except TypeError:
            # list.sort raises as well and leaves the list "partially modified": the items in some order
            return L, ('unorderable', None)
    if name == 'reverse':
        return L[::-1], ('ok', None)
    c = set(L)
    if name in ('update', 'ior'):
        c.update(*items)
    elif name in ('intersection_update', 'iand'):
        c.intersection_update(*items)
    elif name in ('difference_update', 'isub'):
        c.difference_update(*items)
    elif name in ('symmetric_difference_update', 'ixor'):
        c.symmetric_difference_update(*items)
    else:
        raise AssertionError(op)
    return first_appearance(c, L, *items), ('ok', None)


def sort_key(x):
    return (x % 3, -x)


def tie_key(x):
    return x % 2             # many ties: a stable sort keeps tied items in their current order, reversed or not


SORTS = {'sort': {}, 'sort_reverse': {'reverse': True}, 'sort_key': {'key': sort_key},
         'sort_tie': {'key': tie_key}, 'sort_tie_reverse': {'key': tie_key, 'reverse': True}}


def adopt_order(s, L):
    """After a sort that list.sort refuses too: the order the object iterates in, when it still holds exactly the
    items of L (each once); else L (the state oracle then reports the difference)."""
    try:
        got = list(s)
        if len(got) == len(L) and len(set(got)) == len(got) and set(got) == set(L):
            return got
    except Exception:
        pass
    return list(L)


def impl_apply(s, op, objs):
    """-> (object the name is bound to afterwards, ('ok', value) | ('exc', class name))"""
    name = op[0]
    try:
        if name == 'add':
            s.add(op[1]); return s, ('ok', None)
        if name == 'remove':
            s.remove(op[1]); return s, ('ok', None)
        if name == 'discard':
            s.discard(op[1]); return s, ('ok', None)
        if name == 'pop':
            return s, ('ok', s.pop() if len(op) == 1 else s.pop(op[1]))
        if name == 'clear':
            s.clear(); return s, ('ok', None)
        if name in SORTS:
            s.sort(**SORTS[name]); return s, ('ok', None)
        if name == 'reverse':
            s.reverse(); return s, ('ok', None)
        if name == 'update':
            s.update(*objs); return s, ('ok', None)
        if name == 'intersection_update':
            s.intersection_update(*objs); return s, ('ok', None)
        if name == 'difference_update':
            s.difference_update(*objs); return s, ('ok', None)
        if name == 'symmetric_difference_update':
            s.symmetric_difference_update(*objs); return s, ('ok', None)
        if name == 'ior':
            s |= objs[0]; return s, ('ok', None)
        if name == 'iand':
            s &= objs[0]; return s, ('ok', None)
        if name == 'isub':
            s -= objs[0]; return s, ('ok', None)
        if name == 'ixor':
            s ^= objs[0]; return s, ('ok', None)
    except Exception as e:
        return s, ('exc', type(e).__name__)
    raise AssertionError(op)


def op_operands(op):
    return op[1:] if op[0] in SETOPS else ()


SETOPS = ('update', 'intersection_update', 'difference_update', 'symmetric_difference_update',
          'ior', 'iand', 'isub', 'ixor')


def op_family(name):
    if name in ('add', 'update', 'ior'):
        return 'insertion'
    if name in SORTS or name == 'reverse':
        return 'reorder'
    if name == 'clear':
        return 'clear'
    return 'removal'


def op_shape(op):
    name = op[0]
    if name in SETOPS:
        n = len(op) - 1
        return '%dop%s' % (n, '' if n == 1 else 's')
    if name == 'pop':
        return 'default' if len(op) == 1 else ('index' if op[1] >= 0 else 'neg-index')
    return None


# ----------------------------------------------------------------------------------------------------
# the implementation's internal structures

def internals(s):
    """-> (item_list with TOMB for tombstones, dead intervals, index map) or None when the object is not laid out
    as expected (then only observable behaviour is used)."""
    try:
        missing = SU()._MISSING
        il = tuple(TOMB if x is missing else x for x in s.item_list)
        di = tuple((int(a), int(b)) for a, b in s.dead_indices)
        im = dict(s.item_index_map)
        return il, di, im
    except Exception:
        return None


def canon(s):
    it = internals(s)
    if it is None:
        try:
            return ('observable', tuple(s))
        except Exception as e:
            return ('observable', 'raised ' + type(e).__name__)
    il, di, im = it
    return (il, di, tuple(sorted(im.items(), key=repr)))


def check_internals(s, L):
    """-> list of (what, expected, observed).  Mutual consistency of the three structures."""
    it = internals(s)
    if it is None:
        return []
    il, di, im = it
    out = []
    live = [x for x in il if x is not TOMB]
    if live != list(L):
        out.append(('state:items', list(L), live))
    want_map = {x: i for i, x in enumerate(il) if x is not TOMB}
    if im != want_map:
        out.append(('invariant:item_index_map', want_map, im))
    dead = [i for i, x in enumerate(il) if x is TOMB]
    covered, sane, last = [], True, 0
    for a, b in di:
        if not (last <= a < b):
            sane = False
        last = b
        covered.extend(range(a, b))
    if not sane or covered != dead:
        out.append(('invariant:dead_indices', {'tombstone_slots': dead}, {'dead_indices': [list(p) for p in di]}))
    return out


def snapshot(s):
    """The internal structures when visible (every reader is a function of them); else everything the list side of the
    statement can observe."""
    it = internals(s)
    if it is not None:
        return it
    try:
        n = len(s)
        items = tuple(s)
        return (n, items, tuple(s[i] for i in range(n)), tuple(s[-i] for i in range(1, n + 1)),
                tuple(s.index(x) for x in items))
    except Exception as e:
        return ('raised', type(e).__name__)


def _into_empty_update(IS, s):
    e = IS()
    e.update(s)
    return e


def _into_empty_ior(IS, s):
    e = IS()
    e |= s
    return e


# ways of obtaining a second IndexedSet holding the items of s in the same order
DERIVE = (('IndexedSet(s)', lambda IS, s: IS(s)),
          ('s.union()', lambda IS, s: s.union()),
          ('s.difference()', lambda IS, s: s.difference()),
          ('s[:]', lambda IS, s: s[:]),
          ('empty.update(s)', _into_empty_update),
          ('empty|=s', _into_empty_ior))


def mutate(t, L, mut):
    """One mutation on the object and on the list -> new list"""
    if mut[0] == 'remove':
        t.remove(mut[1])
        return [x for x in L if x != mut[1]]
    t.add(mut[1])
    return list(L) + [mut[1]]


# ----------------------------------------------------------------------------------------------------

class Spec:
    def __init__(self, factor, preload, domain, depth, quick=False):
        self.factor, self.preload, self.domain, self.depth = factor, preload, tuple(domain), depth
        self.quick = quick
        self.config = {'compaction_factor': factor, 'native_factor': native_factor(), 'preload': preload,
                       'domain': list(domain), 'depth': depth}
        d0, d1, d2, d3, d4 = self.domain
        X, Y = (d3, d1), (d4, d0, d2)
        self.pool = [('set', X), ('set', Y), ('frozenset', X), ('frozenset', Y), ('list', (d3, d1, d3)),
                     ('list', (d4, d0, d2, d0)), ('tuple', X), ('tuple', Y), ('iset', X), ('iset', Y),
                     ('isetd', (d3, d2, d1), (d2,)), ('self',)]
        self.setlike = [p for p in self.pool if p[0] in ('set', 'frozenset', 'iset', 'isetd', 'self')]
        A, B = (d3, d1, d2), (d2, d4, d3)
        first = {'set': ('set', A), 'frozenset': ('frozenset', A), 'list': ('list', A + (d1,)), 'tuple': ('tuple', A),
                 'iset': ('iset', A), 'self': ('self',)}
        second = {'set': ('set', B), 'frozenset': ('frozenset', B), 'list': ('list', B + (d2,)), 'tuple': ('tuple', B),
                  'iset': ('iset', B), 'self': ('self',)}
        self.pairs = [(first[a], second[b]) for a in first for b in second]
        self.static_menu = self._static_menu()

    # -- menu ------------------------------------------------------------------------------------
    def _static_menu(self):
        D, m = self.domain, []
        for x in D:
            m.append(('add', x))
        for x in D:
            m.append(('remove', x))
        for x in D:
            m.append(('discard', x))
        m += [('clear',), ('sort',), ('sort_reverse',), ('sort_key',), ('sort_tie_reverse',), ('reverse',)]
        if not (self.preload and self.quick):
            m.append(('sort_tie',))           # (both kwargs at once in every configuration)
        m += [('update',), ('intersection_update',), ('difference_update',)]
        for name in ('update', 'intersection_update', 'difference_update', 'symmetric_difference_update'):
            for p in self.pool:
                m.append((name, p))
        m.append(('update', ('list', D)))
        m.append(('update', ('tuple', D[::-1])))
        for name in ('ior', 'iand', 'isub', 'ixor'):
            for p in self.setlike:
                m.append((name, p))
        for name in ('update', 'intersection_update', 'difference_update'):
            for a, b in self.pairs:
                m.append((name, a, b))
        return m

    def menu(self, L):
        n = len(L)
        m = []
        if n:
            m.append(('pop',))
            m += [('pop', i) for i in range(n)] + [('pop', -i) for i in range(1, n + 1)]
        return m + self.static_menu

    # -- building by replay ------------------------------------------------------------------------
    def bind(self):
        SU()._COMPACTION_FACTOR = self.factor

    def fresh(self):
        self.bind()
        IS = SU().IndexedSet
        if self.preload:
            return IS(range(self.preload)), list(range(self.preload))
        return IS(), []

    def apply_both(self, s, L, op):
        specs = op_operands(op)
        made = [make_operand(sp, s, L) for sp in specs]
        s2, r_i = impl_apply(s, op, [o for o, _ in made])
        L2, r_m = model_apply(L, op, [it for _, it in made])
        if r_m[0] == 'unorderable':
            L2 = adopt_order(s2, L)
        return s2, L2, r_i, r_m

    def build(self, hist):
        s, L = self.fresh()
        for op in hist:
            s, L, _, _ = self.apply_both(s, L, op)
        return s, L

    def initial(self):
        return [()]

    def root_key(self, hist):
        return canon(self.build(hist)[0])

    def case(self, hist, op=None, read=None):
        c = {'config': self.config, 'history': [list(o) for o in hist] + ([list(op)] if op is not None else [])}
        if read is not None:
            c['read'] = read
        return c

    # -- expansion -----------------------------------------------------------------------------------
    def expand(self, hist):
        out = []
        V = []
        try:
            with cpu_budget(CPU_BUDGET):
                s, L = self.build(hist)
                self.battery(s, L, hist, V)
        except Hang:
            V.append(('C11|read:battery|hang', self.case(hist), 'terminates', 'no result within the CPU budget',
                      None, ()))
        out.append((('<reads>',), None, ('<reads>', 'ok' if not V else 'disagree'), thin(V)))
        if len(hist) >= self.depth:
            return out
        _, L = self.build(hist)
        for op in self.menu(L):
            V, key, label = self.step(hist, op)
            out.append((op, key, label, V))
        return out

    def step(self, hist, op):
        """One transition: state oracle.  -> (violations, canonical key or None, label)"""
        name = op[0]
        shape = op_shape(op)
        opname = name if shape is None else '%s(%s)' % (name, shape)
        case = self.case(hist, op)
        tags = ('operand_has_duplicates',) if len(op_operands(op)) == 1 and has_dups(op_operands(op)) else ()
        V = []

        def bad(what, exp, obs):
            if what.startswith(('invariant:', 'probe:')):
                # corrupted bookkeeping: one signature per structure and op family (the defect sits in a helper
                # shared by the ops of a family, e.g. _cull/_add_dead behind every removing op)
                V.append(('C11|%s|after-%s' % (what, op_family(name)), case, exp, obs, None, ()))
            else:
                V.append(('C11|op:%s|%s' % (opname, what), case, exp, obs, None, tags))

        try:
            with cpu_budget(CPU_BUDGET):
                s, L = self.build(hist)
                s2, L2, r_i, r_m = self.apply_both(s, L, op)
                label = (opname, r_i[0] if r_i[0] == 'ok' else r_i[1])
                if r_m[0] == 'absent':
                    # remove(x) of an absent item: lists raise ValueError, sets KeyError; the statement fixes only
                    # the state afterwards (unchanged)
                    if r_i[0] == 'exc' and r_i[1] not in ('KeyError', 'ValueError'):
                        bad('raised', 'KeyError or ValueError (or no exception), state unchanged', r_i[1])
                elif r_m[0] == 'unorderable':
                    # list.sort raises TypeError; the statement fixes only the state afterwards (same items, any order)
                    if r_i[0] == 'exc' and r_i[1] != 'TypeError':
                        bad('raised', 'TypeError (or no exception), same items in some order', r_i[1])
                elif r_i[0] == 'exc':
                    bad('raised', r_m, 'raised ' + r_i[1])
                elif name == 'pop' and r_i != r_m:
                    bad('result', r_m[1], r_i[1])
                if V:
                    return V, None, label
                if not isinstance(s2, SU().IndexedSet):
                    bad('result-object', 'an IndexedSet', type(s2).__name__)
                    return V, None, label
                if s2 is not s:
                    # `s op= x` may hand back another object, but it is an *in-place* operation: the object it was
                    # applied to (still reachable under any other name) holds the result as well, as with a set
                    try:
                        got = list(s)
                    except Exception as e:
                        got = 'raised ' + type(e).__name__
                    if got != L2:
                        bad('object-applied-to-not-updated', L2, got)
                        return V, None, label
                probs = check_internals(s2, L2)
                if internals(s2) is None:
                    try:
                        got = list(s2)
                    except Exception as e:
                        got = 'raised ' + type(e).__name__
                    if got != L2:
                        probs.append(('state:items', L2, got))
                for what, exp, obs in probs:
                    bad(what, exp, obs)
                if V:
                    return V, None, label
                if internals(s2) is None:
                    # the three structures are not visible (other representation): fall back to a black-box probe
                    # for latent corruption on a replayed twin - add two fresh items, read every position back
                    t, _ = self.build(hist)
                    t, _, _, _ = self.apply_both(t, L, op)
                    want = list(L2) + list(PROBES)
                    try:
                        for p in PROBES:
                            t.add(p)
                        got = [t[i] for i in range(len(want))]
                    except Exception as e:
                        got = 'raised ' + type(e).__name__
                    if got != want:
                        bad('probe:positions-after-add', want, got)
                if V:
                    return V, None, label
                return V, canon(s2), label
        except Hang:
            bad('hang', 'terminates', 'no result within the CPU budget')
            return V, None, (opname, 'hang')

    # -- read battery ----------------------------------------------------------------------------------
    def battery(self, s, L, hist, V):
        n = len(L)
        k0 = canon(s)
        D = self.domain
        small = n <= 8
        Lset = set(L)

        def read(name, what, fn, want, descr, tags=(), cmp=None):
            try:
                got = fn()
                if cmp is not None:
                    got = cmp(got)
            except Exception as e:
                got = 'raised ' + type(e).__name__
                if isinstance(want, str) and want.startswith('raised ') and any(
                        c.__name__ == want[7:] for c in type(e).__mro__):
                    got = want          # a subclass of the expected exception class is accepted
            if got != want:
                kind = 'raised' if isinstance(got, str) and got.startswith('raised ') and not (
                    isinstance(want, str)) else 'value'
                sig = 'C11|read:%s|%s' % (name if what is None else '%s(%s)' % (name, what), kind)
                V.append((sig, self.case(hist, read=descr), want, got, None, tags))

        # --- list side
        read('iter', None, lambda: list(s), list(L), 'list(s)')
        read('len', None, lambda: len(s), n, 'len(s)')
        probe_items = list(dedupe(list(D) + list(L))) + [FOREIGN]
        for x in probe_items:
            read('contains', None, lambda: x in s, x in Lset, ['in', x])
        for i in list(range(n)) + list(range(-1, -n - 1, -1)):
            read('getitem', 'index' if i >= 0 else 'neg-index', lambda: s[i], L[i], ['getitem', i])
        bounds = [None] + list(range(0, n + 2)) + list(range(-1, -n - 2, -1))
        steps = [None] + list(range(1, n + 2)) if small else [None, 2]
        for k in steps:
            for i in bounds:
                for j in bounds:
                    read('slice', None, lambda: list(s[i:j:k]), L[i:j:k], ['slice', i, j, k])
        for x in probe_items:
            read('index', None, lambda: s.index(x), L.index(x) if x in Lset else 'raised ValueError', ['index', x],
                 cmp=None)
            read('count', None, lambda: s.count(x), L.count(x), ['count', x])
        read('reversed', None, lambda: list(reversed(s)), L[::-1], 'list(reversed(s))')

        # --- set side
        made = [(sp,) + make_operand(sp, s, L) for sp in self.pool]
        combos = [()] + [(m,) for m in made] + [(a, b) for a in made for b in made]
        for combo in combos:
            specs = [list(c[0]) for c in combo]
            objs = [c[1] for c in combo]
            items = [c[2] for c in combo]
            shape = '%dop%s' % (len(combo), '' if len(combo) == 1 else 's')
            tags = ('operand_has_duplicates',) if len(combo) == 1 and has_dups([c[0] for c in combo]) else ()
            read('union', shape, lambda: list(s.union(*objs)),
                 first_appearance(set(L).union(*items), L, *items), ['union'] + specs, tags)
            read('intersection', shape, lambda: list(s.intersection(*objs)),
                 first_appearance(set(L).intersection(*items), L), ['intersection'] + specs, tags)
            read('difference', shape, lambda: list(s.difference(*objs)),
                 first_appearance(set(L).difference(*items), L), ['difference'] + specs, tags)
            if len(combo) == 1:
                read('symmetric_difference', shape, lambda: list(s.symmetric_difference(*objs)),
                     first_appearance(set(L).symmetric_difference(*items), L, *items),
                     ['symmetric_difference'] + specs, tags)
        # operators: with set-like operands (built-in sets refuse other operand types) the result is demanded, forward
        # and reflected (`other | s` with a built-in set on the left is handed to the IndexedSet: it is "self", so the
        # order is first appearance in it and then in the other operand; `other - s` holds items of the other operand
        # only and is compared as a set).  With a list / tuple Python sets raise TypeError: a TypeError is accepted,
        # a result must be the right one.
        def ops_read(what, fn, want, descr, tags, lenient):
            if lenient:
                def fn2(fn=fn, want=want):
                    try:
                        return fn()
                    except TypeError:
                        return want
                read('operator', what, fn2, want, descr, tags)
            else:
                read('operator', what, fn, want, descr, tags)

        for sp, o, it in made:
            lenient = sp[0] in ('list', 'tuple')
            tags = ('operand_has_duplicates',) if has_dups([sp]) else ()
            sfx = '' if not lenient else ':sequence-operand'
            sit = set(it)
            ops_read('|' + sfx, lambda: list(s | o), first_appearance(Lset | sit, L, it), ['|', list(sp)], tags, lenient)
            ops_read('&' + sfx, lambda: list(s & o), first_appearance(Lset & sit, L), ['&', list(sp)], tags, lenient)
            ops_read('-' + sfx, lambda: list(s - o), first_appearance(Lset - sit, L), ['-', list(sp)], tags, lenient)
            ops_read('^' + sfx, lambda: list(s ^ o), first_appearance(Lset ^ sit, L, it), ['^', list(sp)], tags, lenient)
            if sp[0] in ('set', 'frozenset', 'list', 'tuple'):
                ops_read('reflected|' + sfx, lambda: set(o | s), sit | Lset, ['r|', list(sp)], tags, lenient)
                ops_read('reflected&' + sfx, lambda: set(o & s), sit & Lset, ['r&', list(sp)], tags, lenient)
                ops_read('reflected-' + sfx, lambda: set(o - s), sit - Lset, ['r-', list(sp)], tags, lenient)
                ops_read('reflected^' + sfx, lambda: set(o ^ s), sit ^ Lset, ['r^', list(sp)], tags, lenient)
                ops_read('reflected|:order' + sfx, lambda: list(o | s), first_appearance(Lset | sit, L, it),
                         ['r|', list(sp)], tags, lenient)
                ops_read('reflected&:order' + sfx, lambda: list(o & s), first_appearance(Lset & sit, L),
                         ['r&', list(sp)], tags, lenient)
                ops_read('reflected^:order' + sfx, lambda: list(o ^ s), first_appearance(Lset ^ sit, L, it),
                         ['r^', list(sp)], tags, lenient)
        # predicates: the pool plus operands defined relative to the current contents
        rel = []
        missing = [x for x in D if x not in Lset]
        for t in CONCRETE:
            rel.append((t, tuple(L)))
            if L:
                rel.append((t, tuple(L[1:])))
                rel.append((t, tuple(L[::-1])))
            rel.append((t, tuple(L) + (FOREIGN,)))
            if missing:
                rel.append((t, (missing[0],) + tuple(L[:-1])))
        if L:
            rel.append(('list', tuple(L) + (L[0],)))
            rel.append(('tuple', (L[-1],) + tuple(L)))
            rel.append(('list', (L[0], L[0])))
        preds = made + [(sp,) + make_operand(sp, s, L) for sp in rel]
        for sp, o, it in preds:
            tags = ('operand_has_duplicates',) if has_dups([sp]) else ()
            read('issubset', None, lambda: s.issubset(o), Lset.issubset(it), ['issubset', list(sp)], tags)
            read('issuperset', None, lambda: s.issuperset(o), Lset.issuperset(it), ['issuperset', list(sp)], tags)
            read('isdisjoint', None, lambda: s.isdisjoint(o), Lset.isdisjoint(it), ['isdisjoint', list(sp)], tags)
        # observers must not change what is observed (internal re-organisation, e.g. a lazy compaction, would be fine)
        try:
            after = list(s)
        except Exception as e:
            after = 'raised ' + type(e).__name__
        if after != list(L) or check_internals(s, L):
            V.append(('C11|read:battery|reads-changed-the-state', self.case(hist), {'items': list(L), 'canon': k0},
                      {'items': after, 'canon': canon(s)}, None, ()))
            return
        self.independence(s, L, hist, V)

    # -- independence of objects derived from one another ---------------------------------------------------
    def independence(self, s, L, hist, V):
        """Objects obtained from s (copy construction, union/difference without operands, full slice, an empty set
        updated with s) only *read* s.  Afterwards every single removal (and an add) on the derived object must leave
        s as it was, and the same mutation on s must leave the derived object as it was; the mutated object itself
        must follow its list.  (s is consumed: the caller rebuilds it.)"""
        IS = SU().IndexedSet
        muts = [('remove', x) for x in L] + [('add', FOREIGN)]

        def report(kind, what, mut, exp, obs):
            V.append(('C11|independence:%s|%s' % (kind, what), self.case(hist, read=['independence', kind, list(mut)]),
                      exp, obs, None, ()))

        def derived_ok(kind, t, want, mut):
            try:
                got = list(t)
            except Exception as e:
                got = 'raised ' + type(e).__name__
            probs = check_internals(t, want) if got == want else [('items', want, got)]
            if got != want or probs:
                report(kind, 'derived-object-state', mut, want, {'items': got, 'problems': core.jsonable(probs[:1])})
                return False
            return True

        base = snapshot(s)
        # (a) mutate the derived object: the source must not notice
        for kind, fn in DERIVE:
            for mut in muts:
                try:
                    t = fn(IS, s)
                    if not isinstance(t, IS):
                        report(kind, 'derived-object-state', (), 'an IndexedSet', type(t).__name__)
                        break
                    if mut is muts[0] and not derived_ok(kind, t, list(L), ()):
                        break
                    if not derived_ok(kind, t, mutate(t, L, mut), mut):
                        break
                except Exception as e:
                    report(kind, 'raised', mut, 'no exception', 'raised ' + type(e).__name__)
                    break
                now = snapshot(s)
                if now != base:
                    report(kind, 'source-changed-by-mutating-the-derived-object', mut, core.jsonable(base),
                           core.jsonable(now))
                    return                      # s is damaged: nothing below would be meaningful
        # (b) mutate the source: the derived objects must not notice
        for mut in muts:
            try:
                src = s if mut is muts[-1] else self.build(hist)[0]
                made = [(kind, fn(IS, src)) for kind, fn in DERIVE]
                made = [(kind, t, snapshot(t)) for kind, t in made if isinstance(t, IS)]
                mutate(src, L, mut)
            except Exception:
                continue                        # reported by (a) / by the state oracle of the transition
            for kind, t, before in made:
                now = snapshot(t)
                if now != before:
                    report(kind, 'derived-object-changed-by-mutating-the-source', mut, core.jsonable(before),
                           core.jsonable(now))


# ----------------------------------------------------------------------------------------------------

# hashable items that cannot all be ordered against each other; update(list(MIXED)) yields an order in which list.sort
# moves items (1 before 2, 3) before the comparison with the str fails
MIXED = (2, 3, 1, 'a', None)


# one item under several spellings: the list and the set agree that 1, 1.0 and True are the same item
EQUAL_ACROSS_TYPES = (0, 1, 2, 1.0, True)


def configs(tier):
    """(factor, preload, domain, depth)"""
    nat = native_factor()
    q = tier == 'quick'
    base = (0, 1, 2, 3, 4)
    out = [(1, 0, base, 4 if q else 5),       # tombstones are never compacted away (only dead tails are trimmed)
           (2, 0, base, 4 if q else 6),       # compaction when more than half of the slots are dead
           (nat, 0, base, 8),                 # 5 items never keep a tombstone at factor 8: finite space, fixpoint
           (nat, 0, MIXED, 8)]                # mutually unorderable items: sorts that fail part-way
    # items that are equal across types (1 == 1.0 == True: three distinct items under five spellings)
    out += [(nat, 0, EQUAL_ACROSS_TYPES, 8), (1, 0, EQUAL_ACROSS_TYPES, 4 if q else 5)]
    if not q:
        out.append((1, 0, MIXED, 4))

    def spread(n):                            # head, middle pair, tail, one new item
        return (0, n // 2, n // 2 + 1, n - 1, n)

    def tail(n):                              # head, tail cluster, one new item
        return (0, n - 3, n - 2, n - 1, n)
    # pre-loaded starts at the native factor: 1, 2, 3 (4) tombstones survive in sets of 9, 17, 25 (33) items
    if q:
        out += [(nat, 9, spread(9), 2), (nat, 9, tail(9), 2), (nat, 17, spread(17), 2), (nat, 25, tail(25), 2)]
    else:
        out += [(nat, 9, spread(9), 3), (nat, 9, tail(9), 3), (nat, 17, spread(17), 3), (nat, 17, tail(17), 3),
                (nat, 25, spread(25), 2), (nat, 25, tail(25), 2), (nat, 33, tail(33), 2)]
    return out


DIRECTED_N = 6000          # 520 tombstones stay below 1/8 of the slots: only the interval-count trigger can fire
DIRECTED_K = 520           # removals per history: passes 128, 192, 256, 384, 512 (+-1) separate dead intervals
DIRECTED_PATTERNS = {      # cyclic gaps between consecutive victims (2 = exactly one live item between two holes)
    'stride10': (10,), 'stride2': (2,), 'stride3': (3,), 'mixed': (2, 3, 2, 5, 4, 2, 7, 2),
    'touching': (2, 1, 3, 2, 2, 1, 4, 2, 3, 2)}        # gap 1: holes that touch (intervals merge or pile up unmerged)
DIRECTED_ORDERS = ('ascending', 'descending', 'interleaved')
DIRECTED_HOWS = ('remove', 'pop', 'pop-neg', 'discard', 'isub16')
DIRECTED_SMALL_N = 2000    # here the same removals cross the 1/8 dead-ratio trigger with hundreds of intervals alive


def directed_victims(pattern, oname):
    gaps = DIRECTED_PATTERNS[pattern]
    v, victims = 5, []
    for i in range(DIRECTED_K):
        victims.append(v)
        v += gaps[i % len(gaps)]
    if oname == 'descending':
        return victims[::-1]
    if oname == 'interleaved':
        h = len(victims) // 2
        return [x for pair in zip(victims[:h], victims[:h - 1:-1]) for x in pair]
    return victims


def directed_sweep_steps(k):
    """Numbers of removals after which every position is read back: around powers of two and 3 * powers of two
    (typical thresholds of interval-table reorganisations) from 128 on, and at the end."""
    out = {k}
    for base in (1, 3):
        t = base
        while t <= k + 1:
            if t >= 128:
                out.update((t - 1, t, t + 1, t + 2))
            t *= 2
    return {t for t in out if 1 <= t <= k}


def directed_plan(tier):
    """(pattern, order, how) runs: quick = remove and pop for every pattern x order, the other entry points on one
    order per pattern (rotating); thorough = everything."""
    small = [p for p in DIRECTED_PATTERNS if max(directed_victims(p, 'ascending')) < DIRECTED_SMALL_N - 10]
    full = [(p, o, h, DIRECTED_N) for p in DIRECTED_PATTERNS for o in DIRECTED_ORDERS for h in DIRECTED_HOWS]
    full += [(p, o, h, DIRECTED_SMALL_N) for p in small for o in DIRECTED_ORDERS for h in DIRECTED_HOWS[:3]]
    if tier != 'quick':
        return full
    out = [(p, DIRECTED_ORDERS[i % 3], DIRECTED_HOWS[i % 2], DIRECTED_SMALL_N) for i, p in enumerate(small)]
    out = [r + (DIRECTED_N,) for r in directed_plan_quick_native()] + out
    return out


def directed_plan_quick_native():
    out = []
    for pi, p in enumerate(DIRECTED_PATTERNS):
        for oi, o in enumerate(DIRECTED_ORDERS):
            out += [(p, o, 'remove'), (p, o, 'pop')]
            if oi == pi % 3:
                out.append((p, o, DIRECTED_HOWS[2 + (pi + oi) % 3]))
    return out


def directed_one(pattern, oname, how, report, n=None):
    """One native-scale history; report(sig, case, expected, observed).  -> (operations, max dead intervals)"""
    su = SU()
    su._COMPACTION_FACTOR = native_factor()
    order = directed_victims(pattern, oname)
    n = n or DIRECTED_N
    assert max(order) < n - 10
    s = su.IndexedSet(range(n))
    L = list(range(n))
    sweeps = directed_sweep_steps(len(order))
    chunk = 16 if how == 'isub16' else 1
    max_intervals = ops = 0
    sig = 'C11|directed:many-intervals|'
    for step in range(0, len(order), chunk):
        vs = order[step:step + chunk]
        done = step + len(vs)
        case = {'directed': 'many-intervals', 'pattern': pattern, 'order': oname, 'how': how, 'n': n,
                'removals': done}
        try:
            phase = 'the removal'
            with cpu_budget(CPU_BUDGET):
                pos = [L.index(v) for v in vs][-1]
                if how == 'remove':
                    s.remove(vs[0])
                    L.remove(vs[0])
                elif how == 'discard':
                    s.discard(vs[0])
                    s.discard(FOREIGN)
                    L.remove(vs[0])
                elif how == 'isub16':
                    s -= set(vs) | {FOREIGN}
                    L = [x for x in L if x not in set(vs)]
                else:
                    i = pos if how == 'pop' else pos - len(L)
                    got, want = s.pop(i), L.pop(i)
                    if got != want:
                        report(sig + 'pop-result', dict(case, index=i), want, got)
                        break
                ops += len(vs)
                phase = 'the reads (len, s[i], index, iteration, slices)'
                try:
                    max_intervals = max(max_intervals, len(s.dead_indices))
                except Exception:
                    pass
                m = len(L)
                v = vs[-1]
                near = sorted({i for i in (0, 1, v - 3, v - 2, v - 1, v, v + 1, pos - 2, pos - 1, pos, pos + 1, pos + 2,
                                           m // 2, m - 2, m - 1) if 0 <= i < m})
                near += [i - m for i in near[::3]]
                if len(s) != m:
                    report(sig + 'len', case, m, len(s))
                    break
                got = [s[i] for i in near]
                if got != [L[i] for i in near]:
                    report(sig + 'getitem', dict(case, indexes=near), [L[i] for i in near], got)
                    break
                got = [s.index(L[i]) for i in near]
                if got != [i % m for i in near]:
                    report(sig + 'index', dict(case, indexes=near), [i % m for i in near], got)
                    break
                if any(t in sweeps for t in range(step + 1, done + 1)):
                    if list(s) != L or list(reversed(s)) != L[::-1]:
                        report(sig + 'contents', case, 'iteration same as the list', 'differs')
                        break
                    # every position at the end, else every 6th (rotating offset) - each read walks the whole table
                    idx = range(m) if done == len(order) else range(done % 6, m, 6)
                    bad = [i for i in idx if s[i] != L[i] or s[i - m] != L[i]]
                    if bad:
                        report(sig + 'getitem', dict(case, indexes=bad[:5]), [L[i] for i in bad[:5]],
                               [s[i] for i in bad[:5]])
                        break
                    bad = [i for i in idx if s.index(L[i]) != i]
                    if bad:
                        report(sig + 'index', dict(case, indexes=bad[:5]), bad[:5], [s.index(L[i]) for i in bad[:5]])
                        break
                    k = pos - 20 if pos >= 20 else 0
                    for sl in (slice(k, k + 60, 3), slice(-m // 3, None), slice(None, m // 2, 50), slice(k, k + 45)):
                        if list(s[sl]) != L[sl]:
                            report(sig + 'slice', dict(case, slice=[sl.start, sl.stop, sl.step]), L[sl], list(s[sl]))
                            break
                    else:
                        continue
                    break
        except Hang:
            report(sig + 'hang', case, 'terminates', 'CPU budget exceeded')
            break
        except Exception as e:
            report(sig + 'raised', case, 'no exception', 'raised %s during %s' % (type(e).__name__, phase))
            break
    else:
        # the object goes on living: items added after the holes, a hole's neighbour removed, reverse, sort
        case = {'directed': 'many-intervals', 'pattern': pattern, 'order': oname, 'how': how, 'n': n,
                'removals': len(order)}
        phase = 'the follow-up operations'
        try:
            with cpu_budget(CPU_BUDGET):
                for then in ('add', 'remove-neighbour', 'reverse', 'sort'):
                    case['then'] = case.get('then', []) + [then]
                    if then == 'add':
                        for x in (n, n + 1, order[0]):
                            s.add(x)
                            L.append(x)
                        if s.pop(7) != L.pop(7):
                            report(sig + 'pop-result', case, 'same as the list', 'differs')
                            break
                    elif then == 'remove-neighbour':
                        w = min(order) + 1
                        if w in L:
                            s.remove(w)
                            L.remove(w)
                    elif then == 'reverse':
                        s.reverse()
                        L.reverse()
                    else:
                        s.sort()
                        L.sort()
                    m = len(L)
                    if list(s) != L or len(s) != m:
                        report(sig + 'contents', case, 'same as the list', 'differs')
                        break
                    idx = range(m) if then in ('remove-neighbour', 'sort') else range(0, m, 6)
                    bad = [i for i in idx if s[i] != L[i] or s.index(L[i]) != i]
                    if bad:
                        report(sig + 'getitem', dict(case, indexes=bad[:5]), [L[i] for i in bad[:5]],
                               [s[i] for i in bad[:5]])
                        break
        except Hang:
            report(sig + 'hang', case, 'terminates', 'CPU budget exceeded')
        except Exception as e:
            report(sig + 'raised', case, 'no exception', 'raised %s during %s' % (type(e).__name__, phase))
    return ops, max_intervals


def directed(ctx):
    """Supplement, NOT exhaustive: native-scale histories (6000 items - a few with 2000 -, 520 removals that leave separate holes: below the
    1/8 dead-ratio trigger, beyond the interval-count trigger) over hole geometries x removal orders x entry points,
    compared with a plain list after every step."""
    plan = directed_plan(ctx.tier)

    def one(run):
        rep = []
        ops, mx = directed_one(run[0], run[1], run[2], lambda *a: rep.append(a), n=run[3])
        return run, ops, mx, rep

    total = 0
    for run, ops, mx, rep in core.pmap(one, plan):
        total += ops
        for sig, case, exp, obs in rep:
            ctx.violation(sig, core.jsonable(case), core.jsonable(exp), core.jsonable(obs))
        ctx.coverage.setdefault('directed_non_exhaustive', []).append(
            {'pattern': run[0], 'order': run[1], 'how': run[2], 'n': run[3], 'removals': ops,
             'max_dead_intervals': mx})
    return total


# ----------------------------------------------------------------------------------------------------
# directed supplement 2 (NOT exhaustive): bulk set operations at native scale

BULK_INPLACE = ('update', 'intersection_update', 'difference_update', 'symmetric_difference_update',
                'ior', 'iand', 'isub', 'ixor')
BULK_INPLACE2 = ('update', 'intersection_update', 'difference_update')          # also with a second operand
BULK_PURE = ('union', 'intersection', 'difference', 'symmetric_difference')
BULK_KEEPS = ('none', 'few', 'under-half', 'half', 'most', 'all')
BULK_GEOMETRIES = ('prefix', 'suffix', 'scattered')
BULK_FOREIGN = 5            # items of the operand that self does not hold


def bulk_sizes(tier):
    """Set sizes: powers of two and 3 * powers of two, +-1 (typical thresholds of "large set" fast paths), every int
    constant of the module under test in that range +-1, and two round numbers."""
    top = 512 if tier == 'quick' else 2048
    out = {100} if tier == 'quick' else {100, 1000}
    for base in (1, 3):
        t = base
        while t <= top:
            if t >= 24:
                out.update((t - 1, t, t + 1))
            t *= 2
    for v in list(vars(SU()).values()):
        if type(v) is int and 24 <= v <= top:
            out.update((v - 1, v, v + 1))
    return sorted(out)


def bulk_self_items(n):
    """0..n-1 in an order that is neither sorted nor the iteration order of a built-in set of small ints"""
    k = next(k for k in (37, 41, 43, 47, 53) if n % k and all(n % f or k % f for f in range(2, 54)))
    return [(i * k + 11) % n for i in range(n)]


def bulk_positions(n, keep, geom):
    """Positions (in self's list) of the items the operand shares with self"""
    if keep == 'none':
        return []
    if keep == 'all':
        return list(range(n))
    few = sorted({1, n // 2, n - 2})
    if keep == 'few':
        return few
    if keep == 'most':
        return [i for i in range(n) if i not in few]
    m = (n - 1) // 2 if keep == 'under-half' else (n + 1) // 2        # 2 * m < n  resp.  2 * m >= n
    if geom == 'prefix':
        return list(range(m))
    if geom == 'suffix':
        return list(range(n - m, n))
    return (list(range(0, n, 2)) + list(range(1, n, 2)))[:m]


def bulk_operand_values(L, positions, n):
    """Shared items in the reverse of self's order, items self does not hold at the front, in the middle, at the end"""
    shared = [L[i] for i in positions][::-1]
    f = [n + j for j in range(BULK_FOREIGN)]
    h = len(shared) // 2
    return f[:2] + shared[:h] + f[2:3] + shared[h:] + f[3:]


def bulk_variants(n):
    """(keep, geometry) pairs"""
    out = []
    for keep in BULK_KEEPS:
        for g in (BULK_GEOMETRIES if keep in ('under-half', 'half') else ('-',)):
            out.append((keep, g))
    return out


def bulk_case(case, report):
    """One bulk operation on a fresh native-scale set.  report(sig, case, expected, observed).  -> evaluations"""
    try:
        with cpu_budget(CPU_BUDGET):
            return _bulk_case(case, report)
    except Hang:
        report('C11|directed:bulk|setup-hang', case, 'terminates', 'CPU budget exceeded')
    except Exception as e:
        report('C11|directed:bulk|setup-raised', case, 'no exception', 'raised %s' % type(e).__name__)
    return 1


def _bulk_case(case, report):
    su = SU()
    su._COMPACTION_FACTOR = native_factor()
    IS = su.IndexedSet
    n, holes, keep, geom, otype, form = (case[k] for k in ('n', 'holes', 'keep', 'geometry', 'type', 'form'))
    kind, name = form[0], form[1]
    sig = 'C11|directed:bulk:%s%s|' % (name, '(2ops)' if len(form) > 2 else '')
    L = bulk_self_items(n)
    s = IS(L)
    if holes:
        for i in sorted({n // 4, n // 2, n // 2 + 2}, reverse=True):
            s.remove(L[i])
            del L[i]
    vals = bulk_operand_values(L, bulk_positions(len(L), keep, geom), n)
    if otype == 'list' and vals:
        vals = vals + [vals[0], vals[-1]]
    specs = [(otype, tuple(vals))]
    if len(form) > 2:
        specs.append(('tuple', tuple(L[::2][::-1]) + (n + 1, n + BULK_FOREIGN)))
    made = [make_operand(sp, s, L) for sp in specs]
    objs, items = [o for o, _ in made], [it for _, it in made]
    Lset = set(L)

    def seen(x):
        try:
            return list(x)
        except Exception as e:
            return 'raised ' + type(e).__name__

    def short(x):
        return x if not isinstance(x, list) or len(x) <= 12 else {'len': len(x), 'first': x[:6], 'last': x[-6:]}

    try:
        with cpu_budget(CPU_BUDGET):
            if kind == 'inplace':
                alias = s
                s2, r = impl_apply(s, (name,), objs)
                L2, _ = model_apply(L, (name,), items)
                if r[0] != 'ok':
                    report(sig + 'raised', case, 'no exception', 'raised ' + r[1])
                    return 1
                if not isinstance(s2, IS):
                    report(sig + 'result-object', case, 'an IndexedSet', type(s2).__name__)
                    return 1
                if seen(s2) != L2:
                    report(sig + 'state:items', case, short(L2), short(seen(s2)))
                    return 1
                if s2 is not alias and seen(alias) != L2:
                    report(sig + 'object-applied-to-not-updated', case, short(L2), short(seen(alias)))
                    return 1
                for what, exp, obs in check_internals(s2, L2):
                    report('C11|directed:bulk|%s|after-%s' % (what, op_family(name)), case, short(exp), short(obs))
                    return 1
                # reads, then the object goes on living
                for stage in ('reads', 'reads-after-add-and-remove'):
                    m = len(L2)
                    if len(s2) != m:
                        report(sig + 'len', dict(case, stage=stage), m, len(s2))
                        return 1
                    idx = sorted({i for i in (0, 1, 2, m // 4, m // 2 - 1, m // 2, m - 3, m - 2, m - 1) if 0 <= i < m})
                    idx += [i - m for i in idx]
                    got = [s2[i] for i in idx]
                    if got != [L2[i] for i in idx]:
                        report(sig + 'getitem', dict(case, stage=stage, indexes=idx), [L2[i] for i in idx], got)
                        return 1
                    got = [s2.index(L2[i]) for i in idx]
                    if got != [i % m for i in idx]:
                        report(sig + 'index', dict(case, stage=stage, indexes=idx), [i % m for i in idx], got)
                        return 1
                    sl = slice(m // 3, m // 3 + 40, 3)
                    if list(s2[sl]) != L2[sl] or list(reversed(s2)) != L2[::-1]:
                        report(sig + 'slice-or-reversed', dict(case, stage=stage), 'same as the list', 'differs')
                        return 1
                    if stage == 'reads':
                        s2.add(-1)
                        L2 = L2 + [-1]
                        if len(L2) > 3:
                            s2.remove(L2[len(L2) // 2])
                            del L2[len(L2) // 2]
                        if seen(s2) != L2 or check_internals(s2, L2):
                            report(sig + 'state-after-add-and-remove', case, short(L2), short(seen(s2)))
                            return 1
                return 1
            # pure forms: named method, operator (forward / reflected), predicates; self must not change
            lenient = otype in ('list', 'tuple')
            o, it = objs[0], items[0]
            sit = set(it)
            want_c = {'union': Lset | sit, 'intersection': Lset & sit, 'difference': Lset - sit,
                      'symmetric_difference': Lset ^ sit}[name]
            want = first_appearance(want_c, L, it)
            sym = {'union': '|', 'intersection': '&', 'difference': '-', 'symmetric_difference': '^'}[name]
            import operator as _op
            fn = {'|': _op.or_, '&': _op.and_, '-': _op.sub, '^': _op.xor}[sym]
            calls = [('method', lambda: getattr(s, name)(o), False, True)]
            calls.append(('operator', lambda: fn(s, o), lenient, True))
            if otype != 'iset':
                calls.append(('reflected-operator', lambda: fn(o, s), lenient, sym != '-'))
            count = 0
            for how, call, may_refuse, ordered in calls:
                count += 1
                try:
                    r = call()
                except Exception as e:
                    if may_refuse and isinstance(e, TypeError):
                        continue
                    report(sig + how + ':raised', case, 'no exception', 'raised ' + type(e).__name__)
                    continue
                if how == 'reflected-operator' and sym == '-':
                    w, g = sit - Lset, (set(r) if not isinstance(seen(r), str) else seen(r))
                else:
                    w, g = (want, seen(r)) if ordered else (set(want), set(r))
                if g != w:
                    contents = not isinstance(g, str) and set(g) == set(w)
                    report(sig + how + (':order' if contents else ':value'), case,
                           short(sorted(w, key=repr) if isinstance(w, set) else w),
                           short(sorted(g, key=repr) if isinstance(g, set) else g))
            if name == 'union':
                for pred, w in (('issubset', Lset.issubset(it)), ('issuperset', Lset.issuperset(it)),
                                ('isdisjoint', Lset.isdisjoint(it))):
                    count += 1
                    try:
                        g = getattr(s, pred)(o)
                    except Exception as e:
                        g = 'raised ' + type(e).__name__
                    if g != w:
                        report('C11|directed:bulk:%s|value' % pred, case, w, g)
            if seen(s) != L or check_internals(s, L):
                report(sig + 'changed-self', case, short(L), short(seen(s)))
            return count
    except Hang:
        report(sig + 'hang', case, 'terminates', 'CPU budget exceeded')
    except Exception as e:
        report(sig + 'raised', case, 'no exception', 'raised %s' % type(e).__name__)
    return 1


def bulk_cases(n, tier):
    """Cases for one size, simplest first"""
    out = []
    forms = [('inplace', f) for f in BULK_INPLACE] + [('inplace', f, 2) for f in BULK_INPLACE2]
    forms += [('pure', f) for f in BULK_PURE]
    for holes in (False, True):
        for keep, geom in bulk_variants(n):
            for otype in CONCRETE:
                for form in forms:
                    if form[0] == 'pure' and not holes and tier == 'quick':
                        continue            # readers on a set without tombstones: thorough only
                    out.append({'directed': 'bulk', 'n': n, 'holes': holes, 'keep': keep, 'geometry': geom,
                                'type': otype, 'form': list(form)})
    return out


def bulk(ctx):
    """Supplement, NOT exhaustive: every in-place set operation (named and operator form, one operand; the named ones
    that take several also with two) and every non-mutating form (named, operator, reflected operator) and predicate
    on sets of bulk_sizes() items, with and without tombstones, for operands of every type sharing none / a few /
    just under half / half / most / all of self's items (prefix, suffix, scattered) and holding items of their own.
    After an in-place form the object it was applied to, the object handed back, the internal structures, reads and
    a following add + remove are compared with the list model."""
    sizes = bulk_sizes(ctx.tier)

    def one(n):
        rep, ev, per_sig = [], 0, {}

        def report(sig, case, exp, obs):
            per_sig[sig] = per_sig.get(sig, 0) + 1
            if per_sig[sig] <= 2:              # a broken form fails for most operands: two cases per size are enough
                rep.append((sig, case, exp, obs))

        for case in bulk_cases(n, ctx.tier):
            ev += bulk_case(case, report)
        return n, ev, rep

    total = 0
    for n, ev, rep in sorted(core.pmap(one, sizes), key=lambda r: r[0]):
        total += ev
        for sig, case, exp, obs in rep:
            ctx.violation(sig, core.jsonable(case), core.jsonable(exp), core.jsonable(obs))
    ctx.coverage['bulk_non_exhaustive'] = {
        'sizes': sizes, 'evaluations': total, 'keep': list(BULK_KEEPS), 'geometries': list(BULK_GEOMETRIES),
        'operand_types': list(CONCRETE), 'inplace_forms': list(BULK_INPLACE),
        'inplace_forms_two_operands': list(BULK_INPLACE2), 'pure_forms': list(BULK_PURE),
        'with_tombstones': [False, True]}
    return total


def state_cap(cfg, tier):
    """Safety cap (several times the number of states of a correct implementation): a defect that stops tombstones
    from being collected makes the reachable space explode; the cap keeps the run bounded.  Hitting it is reported
    (`capped`) and the part is then not claimed exhaustive."""
    factor, preload, _, depth = cfg
    if preload == 0 and factor == native_factor():
        return 2000                      # 326 states on a correct implementation
    return 15000 if tier == 'quick' else 120000


def explore_one(ctx, cfg):
    spec = Spec(*cfg, quick=ctx.tier == 'quick')
    try:
        res = histories.explore(spec, ctx, max_states=state_cap(cfg, ctx.tier))
    finally:
        SU()._COMPACTION_FACTOR = native_factor()
    # the last level is a reads-only visit of the states at the depth bound; pseudo transitions are not transitions
    nreads = sum(n for (op, _), n in res.labels.items() if op == '<reads>')
    for k in [k for k in res.labels if k[0] == '<reads>']:
        del res.labels[k]
    res.transitions -= nreads
    res.reads_visits = nreads
    if len(res.levels) > spec.depth:
        res.levels = res.levels[:spec.depth]
    if res.capped is None and len(res.levels) >= spec.depth and res.levels[spec.depth - 1] > 0:
        res.fixpoint = False
        res.capped = 'depth %d' % spec.depth
    res.depth = min(res.depth, spec.depth)
    return spec, res


def run(ctx):
    parts = []
    visits = 0
    for cfg in configs(ctx.tier):
        spec, res = explore_one(ctx, cfg)
        visits += res.reads_visits
        parts.append((spec.config, res))
        ctx.note('factor=%s preload=%d domain=%s: states=%d transitions=%d depth=%d fixpoint=%s capped=%s'
                 % (cfg[0], cfg[1], list(cfg[2]), res.states, res.transitions, res.depth, res.fixpoint, res.capped))
    cov = histories.merge_coverage(ctx, parts, rule=(
        'BFS over all histories of the op menu (add/remove/discard per item, pop() and pop(i) for every valid i, clear, '
        'sort x5 (plain, reverse=True, injective key, key with ties with and without reverse=True), reverse, update/intersection_update/difference_update with 0, 1 and 2 operands, '
        'symmetric_difference_update and |= &= -= ^= with one; operand types set, frozenset, list with duplicates, tuple, '
        'IndexedSet, IndexedSet with tombstones, self) up to the depth bound of each configuration; a state is the '
        'canonical form of the real object (item_list with tombstones, dead_indices, item_index_map); the read battery '
        'runs once in every distinct state, followed by the independence probe (6 ways of deriving a second IndexedSet '
        'from the state x every single removal and one add, on either object)'))
    cov['directed_ops_non_exhaustive'] = directed(ctx)
    cov['bulk_evaluations_non_exhaustive'] = bulk(ctx)
    cov['exhaustive'] = all(r.fixpoint for _, r in parts)
    cov['exhaustive_below_depth_bound'] = True
    cov['read_battery_visits'] = visits
    cov['bounds'] = {'items': 5, 'item_types': 'ints; one domain of mutually unorderable items (ints, str, None); one of items equal across types (1, 1.0, True)', 'compaction_factors': sorted({c[0] for c in configs(ctx.tier)}),
                     'preloads': sorted({c[1] for c in configs(ctx.tier)}),
                     'slices': 'i, j in [-n-1, n+1] or None; step None, 1..n+1 (n <= 8) else None, 2',
                     'set_algebra_operands': '0, 1, 2 operands from a pool of 12 (every type, two value sets)',
                     'directed_non_exhaustive': {'items': DIRECTED_N, 'removals': DIRECTED_K,
                                                 'gap_patterns': {k: list(v) for k, v in DIRECTED_PATTERNS.items()},
                                                 'orders': list(DIRECTED_ORDERS), 'entry_points': list(DIRECTED_HOWS),
                                                 'items_small': DIRECTED_SMALL_N,
                                                 'runs': len(directed_plan(ctx.tier))}}
    ctx.assumptions += ['items are small ints / strings / None with well-behaved __eq__/__hash__',
                        'a sort() that list.sort refuses with TypeError (unorderable items, key function raising '
                        'TypeError): TypeError or no exception accepted, the items may end up in any order (as in a '
                        'list); the order iterated afterwards is taken as the list and everything else must agree',
                        's[i] and pop(i) only for indexes valid for a list of the same length',
                        'remove(x) of an absent item: KeyError, ValueError or no exception accepted; state must be '
                        'unchanged',
                        'return values of mutators other than pop are not compared; `s op= x` may hand back '
                        'another object, but the object it was applied to must hold the result as well (in-place)',
                        'operator forms with a list / tuple operand (built-in sets raise TypeError): TypeError '
                        'accepted, a result must be the right one; reflected | & ^ are ordered by first appearance '
                        'in the IndexedSet (self) and then in the left operand, reflected - compared as a set',
                        'negative slice steps are outside the statement']


def replay(ctx, data):
    case = data['case']
    cfg = case.get('config', {})
    factor = cfg.get('compaction_factor')
    if cfg.get('native_factor') == factor:
        factor = native_factor()
    if case.get('directed') == 'bulk':
        msgs = []
        case = dict(case, form=tup(case['form']))
        try:
            bulk_case(case, lambda sig, c, exp, obs: msgs.append('%s %r expected=%r observed=%r' % (sig, c, exp, obs)))
        finally:
            SU()._COMPACTION_FACTOR = native_factor()
        return msgs
    if 'directed' in case:
        msgs = []
        directed_one(case.get('pattern', 'stride10'), case['order'], case['how'],
                     lambda sig, c, exp, obs: msgs.append('%s %r expected=%r observed=%r' % (sig, c, exp, obs)),
                     n=case.get('n'))
        return msgs
    spec = Spec(factor, cfg['preload'], tuple(cfg['domain']), 10 ** 6)
    hist = [tup(op) for op in case['history']]
    msgs = []
    try:
        for i in range(len(hist)):
            V, key, label = spec.step(tuple(hist[:i]), hist[i])
            for v in V:
                msgs.append('step %d %r: %s expected=%r observed=%r' % (i, hist[i], v[0], v[2], v[3]))
            if key is None:
                return msgs
        V = []
        try:
            with cpu_budget(CPU_BUDGET):
                s, L = spec.build(tuple(hist))
                spec.battery(s, L, tuple(hist), V)
        except Hang:
            msgs.append('after %r: C11|read:battery|hang' % (hist,))
        seen = set()
        for v in V:
            if v[0] in seen:
                continue
            seen.add(v[0])
            msgs.append('after %r: %s %r expected=%r observed=%r' % (hist, v[0], v[1].get('read'), v[2], v[3]))
    finally:
        SU()._COMPACTION_FACTOR = native_factor()
    return msgs

"""C13 - funcutils.wraps / update_wrapper preserve the wrapped function's signature and call behaviour.

Engine E2 (mc.inputs), "programs": every function signature of a stated family is generated as source text and
exec-ed, wrapped by the real boltons.funcutils.wraps / update_wrapper, and compared with independent oracles:

* own signature       inspect.signature(w, follow_wrapped=False) == inspect.signature(f)           (plain)
                      == inspect.Signature.replace(f's parameters minus p)                         (injected=[p])
                      == f's parameters minus those names of the list that are parameters         (injected=[n1, n2..],
                         also as tuple / iterator; names that are no parameter only when f has **kwargs)
                      == f's parameters plus q, built with inspect.Parameter                       (expected=q)
* metadata            __name__, __doc__, __module__ equal to f's, __wrapped__ is f
* call behaviour      for every call shape (number of positional arguments x subset of keyword names incl. one
                      unknown name): plain - the wrapper forwards to f, so outcome (value = tuple of f's bound
                      locals, or TypeError) must equal that of calling f directly, and a call f rejects must be
                      rejected by w itself (the wrapper body must not be entered); injected/expected - accepted
                      iff inspect.Signature.bind of the reference signature accepts, and what reaches the wrapper,
                      bound against the reference signature with defaults applied, equals the bound call.
  Coroutine functions are driven with send(None).
* defaults            a default of the product must be the very object the wrapped function has on that parameter
                      (or, for int/float/bool/complex/str/bytes/None, a value of the same type that compares equal):
                      1, 1.0 and True, or two separate empty lists, are different defaults.  Part "defaults" gives the
                      defaulted positional parameters every assignment of values from a pool of such look-alikes
                      (and from a pool of falsy values) and removes / adds parameters around them.
* wrapped function    part "metadata" also wraps functions that were decorated before: functools.update_wrapper
  decorated before    over a function of the other kind (sync facade of an async def and vice versa), over one with
                      another signature, and the product of an earlier boltons wraps(..., injected=[p]).
* function attributes part "metadata" wraps functions that carry attributes named like those by which other callables
                      describe themselves: func / args / keywords (partial objects), __func__ / __self__ (bound
                      methods), FunctionBuilder's field names; func pointing at another function or at a str.  Also the
                      wrapper: a def (*a, **k) tagged with wrapper.func = f.
* same name           injected=p together with expected=p (without default / with another default): the own signature
                      is f's with p replaced by the added p; nothing of the removed parameter (its default) returns.
* forms               injected=p as str as well as [p]; injected/expected given explicitly as None / [] / () / {};
                      the decorator returned by wraps(...) is applied a second time: same own signature again.
* wrapper             part "wrappers": what is handed to wraps / update_wrapper as the wrapper is not only
                      def wrapper(*a, **k) but every kind of callable: functools.partial(generic_helper, f), a def
                      spelled out with f's parameter list and look-alike defaults (1.0 for 1, a fresh list),
                      functools.partial(f), boltons partial / InstancePartial, an object with __call__, a bound method,
                      a lambda, a def already decorated with functools.wraps(f).  Part "metadata" also passes the
                      keyword options (hide_wrapped, update_dict, inject_to_varkw, build_from=f) explicitly.

Nothing is sampled.  VERIF_SEED only chooses which cases are written as samples.
"""
import functools
import inspect
import itertools
import signal

from mc import core, inputs

PROPERTY = 'C13'
LEVEL = 'exploration'

MODNAME = 'c13_generated_module'
EMPTY = inspect.Parameter.empty
P_OR_K = inspect.Parameter.POSITIONAL_OR_KEYWORD
KW_ONLY = inspect.Parameter.KEYWORD_ONLY

UNKNOWN = 'zz'            # keyword name no generated function has
NEW = ('zq', 'zr')        # names added with expected=
ABSENT = ('zx', 'zy')     # injected names no generated function has as a parameter (only **kwargs can take them)
EXP_INT = 77
VARIANT_BUDGET_S = 120    # per (function, way of wrapping) guard against a hang in the code under test

ANN_CYCLE = (int, str, 'Fwd', float, bytes)
RET_ANN = dict

# default values that compare equal without being the same default (part "defaults"); the two lists of a pool are
# created per generated function
ONE_F = 1.0
ATOMIC = (int, float, bool, complex, str, bytes, type(None))
POOLS = {'equal': lambda: [1, ONE_F, [], []], 'falsy': lambda: [None, 0, False],                  # quick
         'equal+': lambda: [1, ONE_F, True, [], []], 'falsy+': lambda: [None, 0, False, '']}      # thorough


def library_markers():
    """Objects the module under test itself uses as "nothing here" markers, found by introspection: every public or
    private module-level value of boltons.funcutils that is neither a module, class, callable nor a plain builtin
    value (today: NO_DEFAULT).  A wrapped function may use any of them as an ordinary default value."""
    from boltons import funcutils
    plain = (type(None), bool, int, float, complex, str, bytes, tuple, list, dict, set, frozenset)
    found = []
    for key in sorted(vars(funcutils)):
        v = vars(funcutils)[key]
        if key.startswith('__') or isinstance(v, plain + (type, type(inspect))) or callable(v):
            continue
        if not any(v is x for x in found):
            found.append(v)
    return found


# both tiers: an ordinary value, the library's own markers, and an interpreter-level marker singleton
POOLS['library'] = lambda: [7] + library_markers() + [Ellipsis]


class Sentinel:
    """Default value that is equal only to itself (a moved or re-created default cannot go unnoticed)."""

    def __init__(self, tag):
        self.tag = tag

    def __repr__(self):
        return '<D:%s>' % self.tag


class Hang(Exception):
    pass


# ----------------------------------------------------------------------------------------------------
# the signature family

def spec_params(spec):
    """[(name, kind, has_default)] in definition order."""
    out = []
    npos, ndef = spec['npos'], spec['ndef']
    for i in range(npos):
        out.append(('p%d' % i, 'pos', i >= npos - ndef))
    if spec['va']:
        out.append(('va', 'va', False))
    for i, d in enumerate(spec['kwo']):
        out.append(('k%d' % i, 'kwo', bool(d)))
    if spec['vk']:
        out.append(('vk', 'vk', False))
    return out


def same(a, b):
    """Strict sameness of two values: the same object, or values of the same immutable atomic type that compare
    equal, or tuples / dicts (argument packs are re-created per call) of pairwise same values.  1 / 1.0 / True are
    not the same, neither are two separate lists."""
    if a is b:
        return True
    if type(a) is not type(b):
        return False
    if isinstance(a, ATOMIC):
        return a == b
    if type(a) is tuple:
        return len(a) == len(b) and all(same(x, y) for x, y in zip(a, b))
    if type(a) is dict:
        return a.keys() == b.keys() and all(same(a[k], b[k]) for k in a)
    return False


def default_value(spec, name, kind, idx, pool=None):
    if pool is not None:
        # part "defaults": spec['dpat'] gives the pool index of each defaulted positional parameter in order,
        # spec['kdpat'] that of each keyword-only parameter
        if kind == 'pos':
            return pool[spec['dpat'][idx - (spec['npos'] - spec['ndef'])]]
        return pool[spec['kdpat'][idx]]
    if spec.get('dvals', 'int') == 'int':
        return (10 if kind == 'pos' else 20) + idx
    # 'mixed': None, identity-only objects and a mutable value
    choice = (idx + (0 if kind == 'pos' else 1)) % 3
    if choice == 0:
        return None
    if choice == 1:
        return Sentinel(name)
    return [name]


def annotated(spec, index):
    mode = spec['ann']
    if mode == 'all':
        return True
    if mode == 'some':
        return index % 2 == 0
    return False


def make_function(spec):
    """exec the generated source; returns (f, names) where names = dict(pos, kwo, va, vk, defaults)."""
    ns = {'__name__': MODNAME}
    params = spec_params(spec)
    parts, body = [], []
    defaults = {}
    seen_star = False
    pos_i = kwo_i = 0
    pool = POOLS[spec['dpool']]() if spec.get('dpool') else None
    for index, (name, kind, has_d) in enumerate(params):
        text = name
        if spec.get('kind', 'def') == 'def' and annotated(spec, index):
            ns['A_' + name] = ANN_CYCLE[index % len(ANN_CYCLE)]
            text += ': A_' + name
        if kind == 'va':
            text = '*' + text
            seen_star = True
            body.append(name)
        elif kind == 'vk':
            text = '**' + text
            body.append('tuple(sorted(%s.items()))' % name)
        else:
            if kind == 'kwo' and not seen_star:
                parts.append('*')
                seen_star = True
            idx = pos_i if kind == 'pos' else kwo_i
            if has_d:
                defaults[name] = ns['D_' + name] = default_value(spec, name, kind, idx, pool)
                text += ('=' if ': ' not in text else ' = ') + 'D_' + name
            body.append(name)
            if kind == 'pos':
                pos_i += 1
            else:
                kwo_i += 1
        parts.append(text)
    ret = '(%s%s)' % (', '.join(body), ',' if len(body) == 1 else '')
    fname = 'target_function'
    if spec.get('kind', 'def') == 'lambda':
        src = '%s = lambda %s: %s\n' % (fname, ', '.join(parts), ret)
    else:
        head = 'def %s(%s)' % (fname, ', '.join(parts))
        if spec['ann'] in ('return', 'all'):
            ns['A_return'] = RET_ANN
            head += ' -> A_return'
        if spec['async']:
            head = 'async ' + head
        src = '%s:\n    return %s\n' % (head, ret)
    exec(compile(src, '<c13:%s>' % fname, 'exec'), ns)
    f = ns[fname]
    doc = spec.get('doc', 'line')
    if doc != 'none':
        f.__doc__ = DOCS[doc]
    names = {'pos': [n for n, k, _ in params if k == 'pos'], 'kwo': [n for n, k, _ in params if k == 'kwo'],
             'va': spec['va'], 'vk': spec['vk'], 'defaults': defaults, 'src': src}
    if spec.get('attrs'):
        for attr, value in function_attributes(spec['attrs'], bool(spec['async'])):
            setattr(f, attr, value)
            names['src'] += '# then: target_function.%s = %s\n' % (attr, describe_attr(value))
    if spec.get('prior'):
        f = decorated_before(f, names, spec)
    # taken before anything (of this check) wraps f; the function's own signature - what calls of f are checked
    # against - also when f carries a __wrapped__ from an earlier decoration
    names['sig'] = inspect.signature(f, follow_wrapped=False)
    return f, names


PRIORS = ('functools_other_kind', 'functools_other_signature', 'boltons_injected')


def decorated_before(f, names, spec):
    """The function to wrap is itself the result of an earlier decoration (it has __wrapped__ and a copied __dict__):
    functools_other_kind       functools.update_wrapper(f, g), g the same signature but async where f is sync and
                               vice versa (a blocking facade of a coroutine function / an async adapter)
    functools_other_signature  functools.update_wrapper(f, g), g of the same kind with other parameters
    boltons_injected           f = boltons wraps(g, injected=[last named parameter])(recorder), g the generated
                               function (plain wraps when g has no named parameter)"""
    prior = spec['prior']
    is_async = bool(spec['async'])
    if prior == 'functools_other_kind':
        g, _ = make_function(dict(spec, prior=None, **{'async': 0 if is_async else 1}))
        names['src'] += '# then: functools.update_wrapper(target_function, <%s def with the same parameters>)\n' % (
            'a plain' if is_async else 'an async')
        return functools.update_wrapper(f, g)
    if prior == 'functools_other_signature':
        ns = {'__name__': MODNAME}
        exec(compile('%sdef target_function(other, *more, flag=5):\n    """Another docstring."""\n    return None\n'
                     % ('async ' if is_async else ''), '<c13:other>', 'exec'), ns)
        names['src'] += '# then: functools.update_wrapper(target_function, <%sdef (other, *more, flag=5)>)\n' % (
            'async ' if is_async else '')
        return functools.update_wrapper(f, ns['target_function'])
    if prior == 'boltons_injected':
        from boltons import funcutils
        if is_async:
            async def recorder(*a, **k):
                return ('recorded', a, tuple(sorted(k.items())))
        else:
            def recorder(*a, **k):
                return ('recorded', a, tuple(sorted(k.items())))
        named = names['pos'] + names['kwo']
        names['src'] += '# then: target_function = boltons.funcutils.wraps(target_function%s)(recorder)\n' % (
            ', injected=[%r]' % named[-1] if named else '')
        if named:
            return funcutils.wraps(f, injected=[named[-1]])(recorder)
        return funcutils.wraps(f)(recorder)
    raise AssertionError(prior)


# function attributes the wrapped function carries (functions take arbitrary attributes; registries and tagging
# decorators set them).  The names are those other callables use to describe themselves - partial objects (func, args,
# keywords), bound methods (__func__, __self__), FunctionBuilder's own fields - so that code which recognises such
# objects by attribute instead of by type takes the plain function for one of them.
ATTR_SETS = ('func', 'partial_like', 'method_like', 'builder_fields', 'func_not_callable')
OTHER_MODNAME = 'c13_other_module'


def other_function(is_async):
    """A function with another name, docstring, module, signature and attribute."""
    ns = {'__name__': OTHER_MODNAME}
    exec(compile('%sdef _impl(other, *more, flag=5):\n    """Docstring of another function."""\n    return None\n'
                 % ('async ' if is_async else ''), '<c13:other>', 'exec'), ns)
    ns['_impl'].internal = True
    return ns['_impl']


def function_attributes(kind, is_async):
    """[(attribute name, value)] set on the generated function."""
    if kind == 'func':
        return [('func', other_function(is_async))]
    if kind == 'partial_like':
        return [('func', other_function(is_async)), ('args', (1,)), ('keywords', {UNKNOWN: 1})]
    if kind == 'method_like':
        return [('__func__', other_function(is_async)), ('__self__', Sentinel('self')), ('im_func', other_function(is_async))]
    if kind == 'builder_fields':
        return [('name', 'other_name'), ('doc', 'other doc'), ('module', OTHER_MODNAME), ('dict', {'x': 1}),
                ('annotations', {'p0': bytes}), ('defaults', (1, 2, 3)), ('kwonlydefaults', {'k0': 1}),
                ('is_async', not is_async), ('body', 'return 1'), ('varargs', 'more'), ('varkw', 'kw'),
                ('kwonlyargs', ['flag'])]
    if kind == 'func_not_callable':
        return [('func', 'registry-key'), ('args', None), ('keywords', None)]
    raise AssertionError(kind)


def describe_attr(value):
    if inspect.isfunction(value):
        return '<%sdef %s%s of module %s>' % ('async ' if inspect.iscoroutinefunction(value) else '', value.__name__,
                                              inspect.signature(value), value.__module__)
    return repr(value)


DOCS = {
    'line':'Docstring of the generated target function.',
    'empty': '',
    'multi': 'First line.\n\n    Indented "second" paragraph with \'quotes\', a backslash \\ and {braces}.\n    ',
}


def signature_family(tier):
    quick = tier == 'quick'
    max_pos = 3 if quick else 4
    max_kwo = 2 if quick else 3
    modes = [('none', 'int'), ('some', 'int'), ('return', 'int')]
    if not quick:
        modes += [('all', 'int'), ('none', 'mixed')]
    specs = []
    for is_async in (0, 1):
        for ann, dvals in modes:
            for npos in range(max_pos + 1):
                for ndef in range(npos + 1):
                    for va in (0, 1):
                        for nk in range(max_kwo + 1):
                            if not quick and nk == 3 and npos > 2:
                                continue            # thorough: (n_pos <= 4, <= 2 kw-only) + (n_pos <= 2, 3 kw-only)
                            for kwo in itertools.product((0, 1), repeat=nk):
                                for vk in (0, 1):
                                    specs.append({'npos': npos, 'ndef': ndef, 'va': va, 'kwo': list(kwo), 'vk': vk,
                                                  'ann': ann, 'async': is_async, 'dvals': dvals})
    # simplest first: the first case reported for a violation signature is then a small one
    specs.sort(key=lambda s: (s['npos'] + len(s['kwo']) + s['va'] + s['vk'], s['async'], s['ann'] != 'none',
                              s['dvals'] != 'int', s['ndef'] + sum(s['kwo'])))
    return specs, {'positional_or_keyword': [0, max_pos], 'defaults_on_last_d_positional': 'd in 0..n_pos',
                   'var_positional': [0, 1],
                   'keyword_only': [0, max_kwo] if quick else '0..2, and 3 when n_pos <= 2',
                   'keyword_only_defaults': 'every subset', 'var_keyword': [0, 1],
                   'annotation_modes(annotations,default values)': modes, 'async': [0, 1]}


def metadata_family(tier):
    """Functions that differ in what __name__/__doc__ look like (docstring absent, empty, multi-line; lambda)."""
    shapes = [{'npos': 0, 'ndef': 0, 'va': 0, 'kwo': [], 'vk': 0},
              {'npos': 2, 'ndef': 1, 'va': 0, 'kwo': [], 'vk': 0},
              {'npos': 1, 'ndef': 0, 'va': 1, 'kwo': [1], 'vk': 1},
              {'npos': 0, 'ndef': 0, 'va': 0, 'kwo': [0, 1], 'vk': 0}]
    specs = []
    for shape in shapes:
        for doc in ('none', 'empty', 'line', 'multi'):
            for kind, is_async, ann in (('def', 0, 'none'), ('def', 1, 'none'), ('def', 0, 'all'), ('lambda', 0, 'none')):
                s = dict(shape, ann=ann, dvals='int', doc=doc, kind=kind)
                s['async'] = is_async
                specs.append(s)
    for shape in shapes:
        for prior in PRIORS:
            for is_async in (0, 1):
                s = dict(shape, ann='none', dvals='int', doc='line', kind='def', prior=prior)
                s['async'] = is_async
                specs.append(s)
    # the wrapped function carries function attributes named like those of partial objects / bound methods /
    # FunctionBuilder fields
    for shape in shapes[1:3] if tier == 'quick' else shapes:
        for attrs in ATTR_SETS:
            for is_async in (0, 1):
                s = dict(shape, ann='none', dvals='int', doc='line', kind='def', attrs=attrs)
                s['async'] = is_async
                specs.append(s)
    return specs


def wrappers_family(tier):
    """Part "wrappers": the shapes of the signature family, sync and async, once without annotations and with int
    defaults, once fully annotated with None / identity-only / mutable defaults."""
    quick = tier == 'quick'
    max_pos = 3 if quick else 4
    max_kwo = 2
    modes = [('none', 'int'), ('all', 'mixed')]
    specs = []
    for is_async in (0, 1):
        for ann, dvals in modes:
            for npos in range(max_pos + 1):
                for ndef in range(npos + 1):
                    for va in (0, 1):
                        for nk in range(max_kwo + 1):
                            for kwo in itertools.product((0, 1), repeat=nk):
                                for vk in (0, 1):
                                    specs.append({'npos': npos, 'ndef': ndef, 'va': va, 'kwo': list(kwo), 'vk': vk,
                                                  'ann': ann, 'async': is_async, 'dvals': dvals})
    specs.sort(key=lambda s: (s['npos'] + len(s['kwo']) + s['va'] + s['vk'], s['async'], s['ann'] != 'none',
                              s['ndef'] + sum(s['kwo'])))
    return specs, {'positional_or_keyword': [0, max_pos], 'keyword_only': [0, max_kwo], 'var_positional': [0, 1],
                   'var_keyword': [0, 1], 'async': [0, 1], 'annotation_modes(annotations,default values)': modes}


def defaults_family(tier):
    """Part "defaults": 2..3 (thorough 4) positional-or-keyword parameters of which the last 2..n have defaults, each
    default drawn from a pool - every assignment; with and without a defaulted keyword-only parameter (and, in
    thorough for <= 3 positional parameters, **kwargs)."""
    quick = tier == 'quick'
    specs = []
    for npos in (2, 3) if quick else (2, 3, 4):
        for ndef in range(2, npos + 1):
            for pool in ('equal', 'falsy', 'library') if quick else ('equal+', 'falsy+', 'library'):
                size = len(POOLS[pool]())
                for kwo in ([], [1]):
                    if quick and pool == 'falsy' and kwo:
                        continue
                    if quick and pool == 'library' and kwo and npos > 2:
                        continue
                    for vk in (0,) if quick or npos == 4 else (0, 1):
                        for pat in itertools.product(range(size), repeat=ndef):
                            specs.append({'npos': npos, 'ndef': ndef, 'va': 0, 'kwo': kwo, 'vk': vk, 'ann': 'none',
                                          'async': 0, 'dvals': 'int', 'dpool': pool, 'dpat': list(pat),
                                          'kdpat': [1] * len(kwo)})
    specs.sort(key=lambda s: (s['npos'] + len(s['kwo']) + s['vk'], not s['dpool'].startswith('equal')))
    return specs


# ----------------------------------------------------------------------------------------------------
# variants (how wraps is applied)

EXTRA_LIMIT = 4          # thorough: two added parameters / injected+expected only for <= 4 named parameters
LIST_CALLS_LIMIT = {'quick': 3, 'thorough': EXTRA_LIMIT}   # injected lists get all call shapes for <= this many
                                                          # named parameters, beyond: signature and metadata only
LIST_FORMS_LIMIT = 2     # injected lists are also passed as tuple / iterator for <= 2 named parameters
SAME_NAME_CALLS_LIMIT = {'quick': 2, 'thorough': EXTRA_LIMIT}   # injected=p with expected=p: call shapes up to here
SECOND_LIMIT = 2         # the decorator is applied a second time for functions with <= 2 named parameters


def injected_names(variant):
    """Names the variant passes as injected=: a str stands for the one-element list [p]."""
    inj = variant.get('injected')
    if not inj:
        return []
    return [inj] if isinstance(inj, str) else list(inj)


def injected_argument(variant):
    names = injected_names(variant)
    form = variant.get('iform', 'list')
    if form == 'str':
        assert len(names) == 1
        return names[0]
    if form == 'tuple':
        return tuple(names)
    if form == 'iter':
        return iter(names)
    return names


def injected_lists(names, tier):
    """Every sequence without repetition of 2 (thorough, <= EXTRA_LIMIT named parameters: also 3) names drawn from
    the named parameters and - when the function has **kwargs, which then takes a name that is no parameter
    (inject_to_varkw, the default) - names no parameter has; plus the sequences made of such names only.
    One-element lists of a real parameter are the str-valued variants."""
    named = names['pos'] + names['kwo']
    deep = tier != 'quick' and len(named) <= EXTRA_LIMIT
    absent = list(ABSENT[:2 if deep else 1]) if names['vk'] else []
    pool = named + absent
    out = [[a] for a in absent]
    for n in (2, 3) if deep else (2,):
        out += [list(seq) for seq in itertools.permutations(pool, n)]
    return out


def expected_forms(tier, named=0):
    forms = [('str', 1, 'none'), ('list', 1, 'none'), ('pairs_no_default', 1, 'none'),
             ('pairs', 1, 'int'), ('dict', 1, 'int'), ('pairs', 1, 'None'), ('dict', 1, 'None')]
    if tier != 'quick' and named <= EXTRA_LIMIT:
        forms += [('list', 2, 'none'), ('pairs', 2, 'int'), ('dict', 2, 'int'), ('pairs_mixed', 2, 'int')]
    return forms


EMPTY_FORMS = ('none', 'list', 'tuple_dict')     # injected=None, expected=None / [] , [] / (), {} given explicitly


OPTIONS = ({'hide_wrapped': True}, {'update_dict': False}, {'build_from': 'f'}, {'inject_to_varkw': False},
           {'hide_wrapped': False, 'update_dict': True, 'inject_to_varkw': True})
# part "wrappers": update_wrapper / injected / expected variants get call shapes for functions with <= 2 (thorough: 3)
# named parameters; wraps(f)(wrapper) gets all call shapes for the first two kinds (partial of a helper, spelled-out
# def), for the other kinds on functions with <= 3 named parameters (thorough: all); beyond: signature and metadata
WRAPPER_CALLS_LIMIT = {'quick': 2, 'thorough': 3}
WRAPPER_KIND_CALLS_LIMIT = {'quick': 3, 'thorough': 99}


def variants_for_wrappers(names, tier):
    """Part "wrappers": every kind of wrapper object, plain (wraps and update_wrapper) and - for the kinds that can
    record what arrives - with the last named parameter injected and with one parameter added."""
    named = names['pos'] + names['kwo']
    few = len(named) <= WRAPPER_CALLS_LIMIT[tier]
    out = []
    for wk in WRAPPER_KINDS:
        v = {'api': 'wraps', 'wk': wk}
        if wk not in WRAPPER_KINDS[:2] and len(named) > WRAPPER_KIND_CALLS_LIMIT[tier]:
            v['calls'] = 'none'
        out.append(v)
        v = {'api': 'update_wrapper', 'wk': wk}
        if not few:
            v['calls'] = 'none'
        out.append(v)
    for wk in RECORDER_KINDS:
        extra = [{'api': 'wraps', 'wk': wk, 'expected': {'form': 'dict', 'n': 1, 'default': 'int'}}]
        if named:
            extra.append({'api': 'wraps', 'wk': wk, 'injected': named[-1]})
            extra.append({'api': 'update_wrapper', 'wk': wk, 'injected': named[0], 'iform': 'str'})
        for v in extra:
            if not few:
                v['calls'] = 'none'
            out.append(v)
    return out


def variants_for(spec, names, tier, metadata_only=False, part=None):
    if part == 'wrappers':
        return variants_for_wrappers(names, tier)
    out = [{'api': 'wraps'}, {'api': 'update_wrapper'}]
    named = names['pos'] + names['kwo']
    if metadata_only:
        for form in EMPTY_FORMS:
            out.append({'api': 'wraps', 'empty': form})
        out.append({'api': 'update_wrapper', 'empty': 'list'})
        if not spec.get('prior'):
            # the keyword options of wraps / update_wrapper given explicitly: same signature, metadata and calls
            # (build_from only through update_wrapper: wraps() passes its own build_from=None)
            for i, opts in enumerate(OPTIONS):
                apis = ('wraps', 'update_wrapper') if 'build_from' not in opts else ('update_wrapper',) * 2
                out.append({'api': apis[i % 2], 'opts': opts})
                if named:
                    out.append({'api': apis[1 - i % 2], 'opts': opts, 'injected': named[-1]})
            # the wrapper is a def (*a, **k) tagged with attributes named like a partial's (wrapper.func = f)
            for api in ('wraps', 'update_wrapper'):
                out.append({'api': api, 'wk': 'tagged'})
            if named:
                out.append({'api': 'wraps', 'wk': 'tagged', 'injected': named[-1]})
            out.append({'api': 'update_wrapper', 'wk': 'tagged',
                        'expected': {'form': 'dict', 'n': 1, 'default': 'int'}})
        return out
    if spec.get('dpool'):
        return variants_for_defaults(names, tier)
    for p in named:
        out.append({'api': 'wraps', 'injected': p})
    # the same one name given as a str instead of a one-element list
    for p in named:
        v = {'api': 'wraps', 'injected': p, 'iform': 'str'}
        if len(named) > LIST_FORMS_LIMIT:
            v['calls'] = 'none'
        out.append(v)
    if named:
        v = {'api': 'update_wrapper', 'injected': named[0], 'iform': 'str'}
        if len(named) > LIST_FORMS_LIMIT:
            v['calls'] = 'none'
        out.append(v)
    for form, n, dflt in expected_forms(tier, len(named)):
        out.append({'api': 'wraps', 'expected': {'form': form, 'n': n, 'default': dflt}})
    if named:
        out.append({'api': 'update_wrapper', 'injected': named[-1]})
    for seq in injected_lists(names, tier):
        forms = ('list', 'tuple', 'iter') if len(named) <= LIST_FORMS_LIMIT else ('list',)
        for form in forms:
            v = {'api': 'wraps', 'injected': seq}
            if form != 'list':
                v['iform'] = form
            if len(named) > LIST_CALLS_LIMIT[tier]:
                v['calls'] = 'none'
            out.append(v)
    out.append({'api': 'update_wrapper', 'expected': {'form': 'dict', 'n': 1, 'default': 'int'}})
    if tier != 'quick' and len(named) <= EXTRA_LIMIT:
        for p in named:
            out.append({'api': 'wraps', 'injected': p, 'expected': {'form': 'dict', 'n': 1, 'default': 'int'}})
            out.append({'api': 'wraps', 'injected': p, 'expected': {'form': 'list', 'n': 1, 'default': 'none'}})
    # injected and expected in one call with the SAME name: the parameter is removed and one of that name is added
    # again - without default, or with another default; nothing of the removed one (its default) may come back.
    # quick: call shapes for <= SAME_NAME_CALLS_LIMIT named parameters, beyond: signature and metadata
    for i, p in enumerate(named):
        for form, dflt in (('list', 'none'), ('dict', 'int')):
            v = {'api': ('wraps', 'update_wrapper')[i % 2], 'injected': p,
                 'expected': {'form': form, 'n': 1, 'default': dflt, 'names': [p]}}
            if len(named) > SAME_NAME_CALLS_LIMIT[tier]:
                v['calls'] = 'none'
            out.append(v)
    if tier == 'quick':
        # a parameter removed and another one added (thorough: with call shapes, above): signature and metadata
        for p in named:
            out.append({'api': 'wraps', 'injected': p, 'calls': 'none',
                        'expected': {'form': 'list', 'n': 1, 'default': 'none'}})
    return out


def variants_for_defaults(names, tier):
    """Part "defaults": the ways of wrapping that move defaults around."""
    named = names['pos'] + names['kwo']
    out = [{'api': 'wraps'}]
    for p in named:
        out.append({'api': 'wraps', 'injected': p})
    out.append({'api': 'update_wrapper', 'injected': named[-1], 'iform': 'str'})
    # a wrapper spelled out with the parameter list of f and look-alike defaults; a partial of a generic helper
    out.append({'api': 'wraps', 'wk': 'explicit'})
    out.append({'api': 'update_wrapper', 'wk': 'partial_other', 'injected': named[0]})
    for seq in itertools.permutations(named, 2):
        v = {'api': 'wraps', 'injected': list(seq)}
        if len(named) > LIST_CALLS_LIMIT[tier]:
            v['calls'] = 'none'
        out.append(v)
    for form, dflt in (('dict', 'eq'), ('pairs', 'eq'), ('str', 'none')):
        out.append({'api': 'wraps', 'expected': {'form': form, 'n': 1, 'default': dflt}})
    return out


def expected_items(exp):
    """[(name, default-or-EMPTY)] the variant asks for."""
    if not exp:
        return []
    d = {'none': EMPTY, 'int': EXP_INT, 'None': None, 'eq': ONE_F}[exp['default']]
    names = exp.get('names') or NEW          # 'names': the added parameter is called like the one injected= removes
    items = [(names[i], d) for i in range(exp['n'])]
    if exp['form'] == 'pairs_mixed':
        items[0] = (NEW[0], EMPTY)
    return items


def expected_argument(exp, funcutils):
    items = expected_items(exp)
    form = exp['form']
    if form == 'str':
        return items[0][0]
    if form == 'list':
        return [n for n, _ in items]
    if form == 'pairs_no_default':
        return [(n, funcutils.NO_DEFAULT) for n, _ in items]
    if form == 'pairs':
        return [(n, d) for n, d in items]
    if form == 'pairs_mixed':                  # a bare name followed by a (name, default) pair
        return [items[0][0]] + [(n, d) for n, d in items[1:]]
    if form == 'dict':
        return {n: d for n, d in items}
    raise AssertionError(form)


def variant_shape(variant):
    parts = []
    if variant.get('injected'):
        parts.append('injected' if isinstance(variant['injected'], str) else 'injected-list')
    exp = variant.get('expected')
    if exp:
        no_default = any(d is EMPTY for _, d in expected_items(exp))
        parts.append('expected(%s)' % ('no default' if no_default else 'default'))
    return '+'.join(parts) or 'plain'


def make_sig(shape, what):
    """Stable, space-free violation signature: way of wrapping (shape) + the observable that disagreed."""
    return ('C13|fn:wraps|%s|%s' % (shape, what)).replace(' ', '_')


def param_class(names, p):
    return '%s,%s' % ('pos' if p in names['pos'] else 'kwonly', 'default' if p in names['defaults'] else 'required')


def list_class(names, seq):
    """Shape of an injected list: kinds of its names in order (absent = no parameter of the function)."""
    return '+'.join('pos' if p in names['pos'] else 'kwonly' if p in names['kwo'] else 'absent' for p in seq)


# ----------------------------------------------------------------------------------------------------
# running one call

def drive(x, is_async):
    """Normalise a call result: coroutines are run to completion with send(None)."""
    if not is_async:
        if inspect.iscoroutine(x):
            x.close()
            return ('coroutine returned by a sync function',)
        return ('ok', x)
    if not inspect.iscoroutine(x):
        return ('not a coroutine', x)
    try:
        x.send(None)
    except StopIteration as e:
        if inspect.iscoroutine(e.value):
            e.value.close()
            return ('ok', '<a coroutine that was never awaited>')
        return ('ok', e.value)
    x.close()
    return ('coroutine suspended',)


def invoke(fn, args, kwargs, is_async):
    try:
        r = fn(*args, **kwargs)
    except TypeError:
        return ('TypeError',)
    except Hang:
        raise
    except Exception as e:
        return ('raised', type(e).__name__)
    try:
        return drive(r, is_async)
    except TypeError:
        return ('TypeError(in coroutine)',)
    except Hang:
        raise
    except Exception as e:
        return ('raised', type(e).__name__)


def call_shapes(npos_max, kwnames):
    """(number of positional arguments, tuple of keyword names), simplest first."""
    for nk in range(len(kwnames) + 1):
        for kws in itertools.combinations(kwnames, nk):
            for npos in range(npos_max + 1):
                yield npos, kws


def call_values(npos, kws):
    return tuple(100 + i for i in range(npos)), {k: 'kw:' + k for k in kws}


def bound(sig, args, kwargs):
    """Reference binding: None if the signature rejects the call, else {name: value} with defaults applied."""
    try:
        ba = sig.bind(*args, **kwargs)
    except TypeError:
        return None
    ba.apply_defaults()
    return dict(ba.arguments)


def sig_difference(own, ref_params, ref_return):
    """Which aspect of the own signature disagrees with the reference parameter list / return annotation
    (stable wording for the violation signature); None if they agree."""
    po, pr = list(own.parameters.values()), list(ref_params)
    if [(p.name, p.kind) for p in po] != [(p.name, p.kind) for p in pr]:
        if sorted(p.name for p in po) != sorted(p.name for p in pr):
            return 'parameter names'
        return 'parameter kinds or order'
    for a, b in zip(po, pr):
        if not same(a.default, b.default):
            return 'defaults'
    for a, b in zip(po, pr):
        if a.annotation != b.annotation:
            return 'parameter annotations'
    if own.return_annotation != ref_return:
        return 'return annotation'
    return None


# ----------------------------------------------------------------------------------------------------
# the wrapper handed to wraps / update_wrapper (variant key 'wk'; part "wrappers")

# what the decorator author passes as wrapper: anything callable.  'generic' is def wrapper(*a, **k).
WRAPPER_KINDS = ('partial_other', 'explicit', 'partial_self', 'boltons_partial', 'instance_partial',
                 'callable_object', 'bound_method', 'lambda', 'functools_wrapped')
RECORDER_KINDS = ('partial_other', 'boltons_partial', 'callable_object', 'bound_method', 'functools_wrapped')
PLAIN_ONLY_KINDS = ('explicit', 'partial_self')      # forwarders by construction: no recorder form


def generic_wrapper(target, entered, is_async, plain):
    if plain:
        # the usual decorator body: forward everything to the wrapped function
        if is_async:
            async def wrapper(*a, **k):
                entered.append((a, k))
                return await target(*a, **k)
        else:
            def wrapper(*a, **k):
                entered.append((a, k))
                return target(*a, **k)
    else:
        # the call cannot be forwarded verbatim (a parameter is missing / extra): record what arrives
        if is_async:
            async def wrapper(*a, **k):
                entered.append((a, k))
                return 'reached the wrapper'
        else:
            def wrapper(*a, **k):
                entered.append((a, k))
                return 'reached the wrapper'
    return wrapper


def lookalike(v):
    """A value a decorator author would write for the same default: equal, but not the same default (1.0 for 1,
    1 for True, a fresh list); values that have no such twin are passed as they are."""
    if isinstance(v, bool):
        return int(v)
    if isinstance(v, int):
        return float(v)
    if isinstance(v, float) and v.is_integer():
        return int(v)
    if type(v) in (list, dict, set):
        return type(v)(v)
    return v


def explicit_wrapper(target, names, entered, is_async):
    """def wrapper(<the parameter list of f, annotations included, defaults replaced by look-alikes>):
           return target(<every parameter passed on>)"""
    ns = {'__name__': MODNAME, 'target': target, 'entered': entered}
    parts, fwd = [], []
    seen_star = False
    sig = names['sig']
    for p in sig.parameters.values():
        text = p.name
        if p.annotation is not EMPTY:
            ns['A_' + p.name] = p.annotation
            text += ': A_' + p.name
        if p.kind == inspect.Parameter.VAR_POSITIONAL:
            text, seen_star = '*' + text, True
            fwd.append('*' + p.name)
        elif p.kind == inspect.Parameter.VAR_KEYWORD:
            text = '**' + text
            fwd.append('**' + p.name)
        else:
            if p.kind == KW_ONLY and not seen_star:
                parts.append('*')
                seen_star = True
            if p.default is not EMPTY:
                ns['W_' + p.name] = lookalike(p.default)
                text += ' = W_' + p.name
            fwd.append(p.name if p.kind == P_OR_K else '%s=%s' % (p.name, p.name))
        parts.append(text)
    head = 'def wrapper(%s)' % ', '.join(parts)
    if sig.return_annotation is not EMPTY:
        ns['A_return'] = sig.return_annotation
        head += ' -> A_return'
    src = '%s%s:\n    entered.append(1)\n    return %starget(%s)\n' % (
        'async ' if is_async else '', head, 'await ' if is_async else '', ', '.join(fwd))
    exec(compile(src, '<c13:explicit wrapper>', 'exec'), ns)
    return ns['wrapper']


def build_wrapper(wk, target, names, entered, is_async, plain, funcutils):
    if wk == 'explicit':
        assert plain
        return explicit_wrapper(target, names, entered, is_async)
    if wk == 'partial_self':
        assert plain
        return functools.partial(target)
    if wk == 'tagged':
        wrapper = generic_wrapper(target, entered, is_async, plain)
        wrapper.func, wrapper.args, wrapper.keywords = target, (), {}
        return wrapper
    # one generic body shared by many decorated functions, specialised per function
    if plain:
        if is_async:
            async def invoke_it(func, *a, **k):
                entered.append((a, k))
                return await func(*a, **k)
        else:
            def invoke_it(func, *a, **k):
                """Docstring of the generic helper."""
                entered.append((a, k))
                return func(*a, **k)
    else:
        if is_async:
            async def invoke_it(func, *a, **k):
                entered.append((a, k))
                return 'reached the wrapper'
        else:
            def invoke_it(func, *a, **k):
                """Docstring of the generic helper."""
                entered.append((a, k))
                return 'reached the wrapper'
    if wk == 'partial_other':
        return functools.partial(invoke_it, target)
    if wk == 'boltons_partial':
        return funcutils.partial(invoke_it, target)
    if wk == 'instance_partial':
        return funcutils.InstancePartial(invoke_it, target)
    if wk == 'lambda':
        return lambda *a, **k: invoke_it(target, *a, **k)
    if wk == 'functools_wrapped':
        # the author already applied functools.wraps to the wrapper (it has __wrapped__ and f's __dict__)
        return functools.wraps(target)(generic_wrapper(target, entered, is_async, plain))
    if is_async:
        class Wrapper:
            async def __call__(self, *a, **k):
                return await invoke_it(target, *a, **k)

            async def run(self, *a, **k):
                return await invoke_it(target, *a, **k)
    else:
        class Wrapper:
            def __call__(self, *a, **k):
                return invoke_it(target, *a, **k)

            def run(self, *a, **k):
                return invoke_it(target, *a, **k)
    if wk == 'callable_object':
        return Wrapper()
    if wk == 'bound_method':
        return Wrapper().run
    raise AssertionError(wk)


# ----------------------------------------------------------------------------------------------------
# one (function, way of wrapping)

class Applied:
    """f wrapped according to a variant; .w is the function produced (or .error the exception raised)."""

    def __init__(self, spec, variant, f=None, names=None):
        from boltons import funcutils
        self.spec, self.variant = spec, variant
        if f is None:
            f, names = make_function(spec)
        self.f, self.names = f, names
        self.is_async = bool(spec['async'])
        self.plain = not variant.get('injected') and not variant.get('expected')
        self.entered = entered = []
        self.wk = wk = variant.get('wk', 'generic')
        self.records = wk != 'partial_self'      # a partial of f itself has no body of ours to record an entry
        if wk == 'generic':
            wrapper = generic_wrapper(f, entered, self.is_async, self.plain)
        else:
            wrapper = build_wrapper(wk, f, names, entered, self.is_async, self.plain, funcutils)
        self.wrapper = wrapper
        kw = {}
        if variant.get('injected'):
            kw['injected'] = injected_argument(variant)
        if variant.get('expected'):
            kw['expected'] = expected_argument(variant['expected'], funcutils)
        if variant.get('empty'):
            kw = {'none': {'injected': None, 'expected': None}, 'list': {'injected': [], 'expected': []},
                  'tuple_dict': {'injected': (), 'expected': {}}}[variant['empty']]
        for opt, val in sorted((variant.get('opts') or {}).items()):
            kw[opt] = f if opt == 'build_from' else val
        self.w, self.error = None, None
        self.w_second, self.error_second = None, None
        try:
            if variant['api'] == 'wraps':
                decorator = funcutils.wraps(f, **kw)
                self.w = decorator(wrapper)
            else:
                self.w = funcutils.update_wrapper(wrapper, f, **kw)
        except Hang:
            raise
        except Exception as e:
            self.error = e
        if (self.error is None and variant['api'] == 'wraps' and variant.get('iform') != 'iter'
                and len(names['pos']) + len(names['kwo']) <= SECOND_LIMIT):
            # the decorator wraps() returned is applied to a second wrapper (an iterator given as injected is
            # spent by the first application: what the second does then is not stated)
            try:
                self.w_second = decorator(lambda *a, **k: None)
            except Hang:
                raise
            except Exception as e:
                self.error_second = e
        self.sig_f = names['sig']
        self.nontrivial_sig = bool(names['defaults']) or bool(names['kwo']) or not self.plain

    # -- reference signature ------------------------------------------------------------------------
    def reference_params(self, own):
        """(reference parameter list, problem).  Parameters of f, minus the injected one, plus the expected ones
        (inspect.Parameter with the requested default).  The statement fixes an added parameter's name and default,
        not its place or kind: it is inserted where the implementation put it, provided it is
        positional-or-keyword or keyword-only; everything else comes from f's signature unchanged."""
        params = list(self.sig_f.parameters.values())
        inj = injected_names(self.variant)
        params = [p for p in params if p.name not in inj]
        own_names = list(own.parameters)
        for name, dflt in expected_items(self.variant.get('expected')):
            got = own.parameters.get(name)
            if got is None:
                return None, 'parameter names'
            if got.kind not in (P_OR_K, KW_ONLY):
                return None, 'parameter kinds or order'
            known = {p.name for p in params}
            before = [n for n in own_names[:own_names.index(name)] if n in known]
            params.insert(len(before), inspect.Parameter(name, got.kind, default=dflt, annotation=got.annotation))
        return params, None

    def unplaceable(self):
        """expected= a parameter without default while f (after injection) still has a positional default:
        appending it as positional-or-keyword is no valid Python signature; raising is accepted there
        (DESIGN section 3: "must raise rather than silently move a default")."""
        exp = self.variant.get('expected')
        if not exp or all(d is not EMPTY for _, d in expected_items(exp)):
            return False
        inj = injected_names(self.variant)
        return any(p in self.names['defaults'] and p not in inj for p in self.names['pos'])

    def describe(self, params):
        if params is not None:
            text = '(%s)' % ', '.join(str(p) for p in params)
            if self.sig_f.return_annotation is not EMPTY:
                text += ' -> %s' % inspect.formatannotation(self.sig_f.return_annotation)
            return text
        want = 'signature of f %s' % self.sig_f
        if self.variant.get('injected'):
            want += ' minus %s' % ', '.join(injected_names(self.variant))
        for n, d in expected_items(self.variant.get('expected')):
            want += ' plus %s%s' % (n, '' if d is EMPTY else '=%r' % (d,))
        return want

    # -- one call -----------------------------------------------------------------------------------
    def check_call(self, ref, call):
        """Execute one call shape on the produced function and on the oracle.
        Returns (what disagreed or None, expected, observed, nontrivial)."""
        args, kwargs = call_values(*call)
        f, w, entered, is_async = self.f, self.w, self.entered, self.is_async
        del entered[:]
        got = invoke(w, args, kwargs, is_async)
        n_entered = len(entered)
        what = None
        if self.plain:
            want = invoke(f, args, kwargs, is_async)          # oracle: the wrapped function itself
            nontrivial = want[0] == 'ok' and self.nontrivial_sig
            if want[0] == 'ok':
                if got[0] == 'TypeError':
                    what = 'call:rejects a call the original accepts'
                elif got[0] != 'ok':
                    what = 'call:outcome'
                elif not same(got[1], want[1]) or (self.records and n_entered != 1):
                    what = 'call:wrapped function saw different arguments'
            else:
                if got[0] == 'ok':
                    what = 'call:accepts a call the original rejects'
                elif got[0] != 'TypeError':
                    what = 'call:outcome'
                elif n_entered:
                    what = 'call:own signature lets through a call the original rejects'
            return what, want, got, nontrivial
        want_b = bound(ref, args, kwargs)                     # oracle: inspect.Signature.bind of the reference
        nontrivial = want_b is not None
        want = ('ok', want_b) if want_b is not None else ('TypeError',)
        if want_b is not None:
            if got[0] == 'TypeError':
                what = 'call:rejects a call the reference signature accepts'
            elif got[0] != 'ok' or n_entered != 1:
                what = 'call:outcome'
            else:
                ra, rk = entered[0]
                got_b = bound(ref, ra, rk)
                got = ('forwarded', list(ra), rk, got_b)
                if got_b is None or set(got_b) != set(want_b) or any(
                        not same(got_b[k], want_b[k]) for k in want_b):
                    what = 'call:wrapper received different arguments'
        else:
            if got[0] == 'ok' or n_entered:
                what = 'call:accepts a call the reference signature rejects'
            elif got[0] != 'TypeError':
                what = 'call:outcome'
        return what, want, got, nontrivial


def fn_snapshot(fn):
    """What a later wrap must leave alone on a function object."""
    return {'dict': sorted((k, id(v)) for k, v in vars(fn).items()), 'defaults': repr(fn.__defaults__),
            'kwdefaults': repr(fn.__kwdefaults__), 'annotations': sorted(getattr(fn, '__annotations__', {}) or {}),
            'doc': fn.__doc__, 'name': fn.__name__, 'qualname': fn.__qualname__, 'module': fn.__module__}


def check_variant(t, spec, variant, f, names, part, calls=None):
    """Signature + metadata comparison, then the call shapes (calls=None: all of them)."""
    shape = variant_shape(variant)
    base_case = {'part': part, 'spec': spec, 'variant': variant}
    inj = variant.get('injected')
    if isinstance(inj, str):
        shape = shape.replace('injected', 'injected%s(%s)' % ('-str' if variant.get('iform') == 'str' else '',
                                                               param_class(names, inj)))
    elif inj:
        shape = shape.replace('injected-list', 'injected-list(%s)' % list_class(names, inj))
    if (variant.get('expected') or {}).get('names'):
        shape += '[added_under_the_removed_name]'
    if variant.get('wk'):
        shape += '[wrapper=%s]' % variant['wk']
    if variant.get('opts'):
        shape += '[%s]' % ','.join('%s=%s' % (k, 'f' if k == 'build_from' else v)
                                   for k, v in sorted(variant['opts'].items()))
    f_before = fn_snapshot(f)
    ap = Applied(spec, variant, f, names)
    # violations are grouped by signature and tag set: the only tag marks the input class of the defect the design
    # phase found (a required argument added to a function whose positional arguments have defaults), so that a
    # `where=` clause can narrow a finding to it
    tags = ['required_arg_after_positional_defaults'] if ap.unplaceable() else []

    def bad(what, expected, observed, call=None):
        case = dict(base_case)
        if call is not None:
            case['call'] = {'npos': call[0], 'kw': list(call[1])}
        # workers send the tally through a pipe: keep only plain data (objects -> repr)
        t.bad(make_sig(shape, what), case, core.jsonable(expected), core.jsonable(observed),
              detail={'source': names['src'], 'api': variant['api']}, tags=tags)

    t.count(nontrivial=ap.nontrivial_sig, sample=base_case)
    t.add('ways_of_wrapping:' + variant_shape(variant))
    if variant.get('wk'):
        t.add('wrapper_kind:' + variant['wk'])
    for opt in variant.get('opts') or ():
        t.add('option:' + opt)
    if variant.get('iform') or variant.get('empty'):
        t.add('argument_form:' + (variant.get('iform') or 'empty-' + variant['empty']))
    if ap.error is not None:
        if ap.unplaceable():
            t.add('expected_without_default_after_positional_defaults:raised')
            return
        bad('raised', 'a function', 'raised %s' % type(ap.error).__name__)
        return
    w = ap.w
    # ---- own signature
    try:
        own = inspect.signature(w, follow_wrapped=False)
    except Hang:
        raise
    except Exception as e:
        bad('signature:not introspectable', str(ap.sig_f), 'inspect.signature raised %s' % type(e).__name__)
        return
    params, problem = ap.reference_params(own)
    ref = None
    if problem is None:
        problem = sig_difference(own, params, ap.sig_f.return_annotation)
    if problem is None:
        try:
            ref = ap.sig_f.replace(parameters=params)
        except ValueError:
            problem = 'parameter kinds or order'
        else:
            if own != ref:
                problem = 'signature inequality'
    if problem is not None:
        bad('signature:' + problem, ap.describe(params), str(own))
        return          # after a signature disagreement every call comparison is noise
    if ap.unplaceable():
        t.add('expected_without_default_after_positional_defaults:placed')
    # ---- the same decorator applied a second time gives the same own signature
    if ap.error_second is not None:
        bad('second-application:raised', 'a function', 'raised %s' % type(ap.error_second).__name__)
    elif ap.w_second is not None:
        try:
            own2 = inspect.signature(ap.w_second, follow_wrapped=False)
        except Hang:
            raise
        except Exception as e:
            bad('second-application:signature:not introspectable', str(own), 'raised %s' % type(e).__name__)
        else:
            problem2 = sig_difference(own2, params, ap.sig_f.return_annotation)
            if problem2 is None and own2 != ref:
                problem2 = 'signature inequality'
            if problem2 is not None:
                bad('second-application:signature:' + problem2, ap.describe(params), str(own2))
        t.add('second_applications')
    # ---- metadata
    for attr in ('__name__', '__doc__', '__module__'):
        want, got = getattr(f, attr), getattr(w, attr, '<missing>')
        if want != got or type(want) is not type(got):
            label = attr if attr != '__doc__' else '__doc__(%s)' % ('None' if want is None else 'str')
            bad('metadata:' + label, want, got)
    hidden = bool((variant.get('opts') or {}).get('hide_wrapped'))
    if hidden:
        pass        # the caller asked for no reference to the wrapped function; the statement's __wrapped__ clause
                    # is about the default mode
    elif getattr(w, '__wrapped__', None) is not f:
        bad('metadata:__wrapped__', 'the wrapped function', repr(getattr(w, '__wrapped__', '<missing>')))
    if inspect.iscoroutinefunction(f) != inspect.iscoroutinefunction(w):
        bad('async:coroutine function', inspect.iscoroutinefunction(f), inspect.iscoroutinefunction(w))
    # ---- the wrapped function itself is not modified - neither by this wrap nor when the product is wrapped again
    if fn_snapshot(f) != f_before:
        bad('wrapped-function-modified', f_before, fn_snapshot(f))
    if part == 'metadata' or variant_shape(variant) == 'plain':
        from boltons import funcutils
        w_before = fn_snapshot(w)
        for hide in (False, True):
            try:
                w2 = funcutils.wraps(w, hide_wrapped=hide)(lambda *a, **k: None)
            except Hang:
                raise
            except Exception as e:
                bad('rewrap:raised', 'a function', 'raised %s' % type(e).__name__)
                continue
            if fn_snapshot(w) != w_before or (not hidden and getattr(w, '__wrapped__', None) is not f):
                bad('rewrap:first-product-modified-by-the-second-wrap', w_before, fn_snapshot(w))
            if hide and hasattr(w2, '__wrapped__'):
                bad('rewrap:hide_wrapped-ignored', 'no __wrapped__', repr(w2.__wrapped__))
            if not hide and getattr(w2, '__wrapped__', None) is not w:
                bad('rewrap:metadata:__wrapped__', 'the wrapped function', repr(getattr(w2, '__wrapped__', None)))
    # ---- calls
    if calls is None and variant.get('calls') == 'none':
        calls = []          # injected list on a large function: signature and metadata only
    if calls is None:
        added = [n for n, _ in expected_items(variant.get('expected'))]
        calls = call_shapes(len(names['pos']) + len(added) + 2, names['pos'] + names['kwo'] + added + [UNKNOWN])
    for call in calls:
        what, want, got, nontrivial = ap.check_call(ref, call)
        t.count(nontrivial=nontrivial)
        if what is not None:
            bad(what, want, got, call)


# ----------------------------------------------------------------------------------------------------
# shards

def _alarm(signum, frame):
    raise Hang()


def check_spec(t, spec, tier, part):
    f, names = make_function(spec)
    for variant in variants_for(spec, names, tier, metadata_only=(part == 'metadata'), part=part):
        old = signal.signal(signal.SIGVTALRM, _alarm)
        signal.setitimer(signal.ITIMER_VIRTUAL, VARIANT_BUDGET_S)
        try:
            check_variant(t, spec, variant, f, names, part)
        except Hang:
            t.bad(make_sig(variant_shape(variant), 'no result within the time budget'),
                  {'part': part, 'spec': spec, 'variant': variant}, 'termination',
                  'still running after %d s' % VARIANT_BUDGET_S)
        finally:
            signal.setitimer(signal.ITIMER_VIRTUAL, 0)
            signal.signal(signal.SIGVTALRM, old)


def make_shard_fn(tier, part):
    def shard(specs):
        t = inputs.Tally()
        for spec in specs:
            check_spec(t, spec, tier, part)
        return t
    return shard


def chunks(items, size):
    return [items[i:i + size] for i in range(0, len(items), size)]


RULE = ('an evaluation is one (function, way of wrapping, call shape) comparison or one (function, way of wrapping) '
        'signature+metadata comparison; it is non-trivial when the reference accepts the call and the function has a '
        'default, a keyword-only parameter or was wrapped with injected/expected (signature comparisons: same '
        'condition on the function)')


def run(ctx):
    specs, bounds = signature_family(ctx.tier)
    # contiguous chunks, merged in order: the first case kept for a violation signature is the simplest one
    size = 6 if ctx.quick() else 10
    inputs.run_shards(ctx, make_shard_fn(ctx.tier, 'signatures'), chunks(specs, size), part='signatures', rule=RULE)
    meta = metadata_family(ctx.tier)
    inputs.run_shards(ctx, make_shard_fn(ctx.tier, 'metadata'), chunks(meta, 4), part='metadata',
                      rule='functions without docstring / empty / one-line / multi-line docstring; def, async def, '
                           'annotated def, lambda; plain wraps and update_wrapper; all call shapes')
    dflt = defaults_family(ctx.tier)
    inputs.run_shards(ctx, make_shard_fn(ctx.tier, 'defaults'), chunks(dflt, 6), part='defaults',
                      rule='defaulted positional parameters take every assignment of values from a pool of defaults '
                           'that compare equal without being the same (1, 1.0, True, two separate []) and from a pool '
                           'of falsy values (None, 0, False, \'\'); plain, every injected name and pair of names, '
                           'expected with an equal default / without default; all call shapes')
    wspecs, wbounds = wrappers_family(ctx.tier)
    inputs.run_shards(ctx, make_shard_fn(ctx.tier, 'wrappers'), chunks(wspecs, 6), part='wrappers',
                      rule='the wrapper handed to wraps / update_wrapper is every kind of callable: a functools.partial '
                           'of a generic helper over f, a def spelled out with f\'s parameter list and look-alike '
                           'defaults, functools.partial(f), boltons partial / InstancePartial, an object with __call__, '
                           'a bound method, a lambda, a def already decorated with functools.wraps(f); plain, one '
                           'injected name, one added parameter')
    cov = ctx.coverage
    cov['rule'] = RULE
    cov['exhaustive'] = True
    cov['functions'] = len(specs) + len(meta) + len(dflt) + len(wspecs)
    bounds.update({
        'call_shapes': 'positional arguments 0..n_pos(+added)+2 x every subset of keyword names from '
                       '(positional-or-keyword names + keyword-only names + added names + one unknown name)',
        'ways_of_wrapping': 'wraps(f), update_wrapper(w, f); injected=[p] for every positional-or-keyword and '
                            'keyword-only p; injected=list/tuple/iterator of 2 names (thorough, <= %d named '
                            'parameters: up to 3) without repetition from the named parameters and, when the function '
                            'has **kwargs, %s name(s) that are no parameter of it, and the lists of such names only '
                            '(tuple/iterator forms for <= %d named parameters%s); expected as (form/number/default) '
                            % (EXTRA_LIMIT, '1' if ctx.quick() else 'up to 2', LIST_FORMS_LIMIT,
                               '; call shapes for <= %d named parameters, signature and metadata only beyond'
                               % LIST_CALLS_LIMIT[ctx.tier])
                            + ', '.join('%s/%d/%s' % x for x in expected_forms(ctx.tier))
                            + ('; injected=[p] combined with expected; two added parameters and the combination '
                               'only for functions with <= %d named parameters' % EXTRA_LIMIT
                               if not ctx.quick() else ''),
        'injected_and_expected_same_name': 'every named parameter p: injected=p with expected=[p] (no default) and '
                                           'expected={p: %d}, wraps / update_wrapper alternating; call shapes for <= %d '
                                           'named parameters, signature and metadata beyond%s'
                                           % (EXP_INT, SAME_NAME_CALLS_LIMIT[ctx.tier],
                                              '; injected=p with expected=[new name]: signature and metadata only'
                                              if ctx.quick() else ''),
        'metadata_functions': len(meta),
        'metadata_wrapped_function_with_attributes': {
            'attribute_sets': {k: [a for a, _ in function_attributes(k, False)] for k in ATTR_SETS},
            'functions': sum(1 for s in meta if s.get('attrs')),
            'shapes': '2 of the 4 metadata shapes' if ctx.quick() else 'the 4 metadata shapes', 'async': [0, 1]},
        'metadata_wrapper_tagged_with_partial_attributes': 'def (*a, **k) with .func = f, .args = (), .keywords = {}: '
                                                           'wraps, update_wrapper, one injected name, one added '
                                                           'parameter (functions not decorated before)',
        'metadata_wrapped_function_decorated_before': list(PRIORS),
        'injected_single_name_forms': '[p] with all call shapes; p as str: signature and metadata, call shapes for '
                                      '<= %d named parameters' % LIST_FORMS_LIMIT,
        'explicit_empty_arguments(metadata part)': list(EMPTY_FORMS),
        'keyword_options(metadata part, functions not decorated before)': [dict(o) for o in OPTIONS],
        'wrappers_part': dict(wbounds, functions=len(wspecs), wrapper_kinds=list(WRAPPER_KINDS),
                              injected_and_expected_with=list(RECORDER_KINDS),
                              call_shapes='wraps(f)(wrapper): all for the kinds %s, for the other kinds on functions '
                                          'with <= %d named parameters; update_wrapper / injected / expected: '
                                          'functions with <= %d named parameters; signature and metadata beyond'
                                          % ('+'.join(WRAPPER_KINDS[:2]), WRAPPER_KIND_CALLS_LIMIT[ctx.tier],
                                             WRAPPER_CALLS_LIMIT[ctx.tier])),
        'second_application_of_the_decorator': 'functions with <= %d named parameters, every wraps(...) variant '
                                               'except iterator-valued injected: own signature of the second product'
                                               % SECOND_LIMIT,
        'defaults_part': {'functions': len(dflt), 'positional': [2, 3 if ctx.quick() else 4],
                          'defaulted_positional': '2..n_pos',
                          'pools': {k: repr(v()) for k, v in POOLS.items() if k.endswith('+') != ctx.quick() or k == 'library'},
                          'keyword_only_with_default': ('0..1 (quick: pool "falsy" only without, pool "library" with one '
                                                        'only for 2 positional parameters)'),
                          'var_keyword': [0] if ctx.quick() else '0..1 for <= 3 positional parameters, else 0'}})
    cov['bounds'] = bounds
    ctx.assumptions += [
        'parameter names are plain identifiers that do not collide with the names the generated wrapper uses '
        '(_call, _func)',
        'injected=[p] is exercised for named parameters (positional-or-keyword, keyword-only); the names of *args '
        'and **kwargs are not removable arguments in FunctionBuilder\'s model and the statement does not say what '
        'injecting them means',
        'an injected list removes exactly those of its names that are parameters; a name that is no parameter is '
        'only listed when the function has **kwargs (the wrapper passes it as a keyword; own signature unchanged by '
        'it) - what happens without **kwargs (an exception today) and with a repeated name is not stated and not '
        'explored',
        'the statement fixes name and default of a parameter added with expected, not its kind or position: '
        'positional-or-keyword or keyword-only at any position is accepted; where appending a parameter without '
        'default after defaulted positional parameters has no valid Python signature, raising is accepted too',
        'own signature equality (inspect.Signature ==) compares names, kinds, order, defaults and annotations; '
        'defaults are additionally compared strictly: the same object, or an equal value of the same type for '
        'int/float/bool/complex/str/bytes/None ("the same default attached to the same parameter" cannot mean 1.0 '
        'where the function has 1, or another list than the one the function mutates)',
        'a wrapped function that was decorated before (has __wrapped__) is compared by its own signature '
        '(follow_wrapped=False): that is what its calls are checked against',
        'the decorator returned by wraps() is a product of wraps each time it is applied: the second application '
        'must give the same own signature; explored for functions with <= 2 named parameters, not for iterator-valued injected (spent by the first use)',
        'positional-only parameters are outside the statement and not generated',
        'injected and expected naming the same parameter in one call: the parameter is removed, then one of that name '
        'is added; the reference is f\'s signature minus p plus p with the requested default (kind and place of the '
        'added one free, as for any added parameter; raising accepted where a parameter without default cannot be '
        'placed).  expected naming a parameter that is NOT removed (ExistingArgument today) is not stated and not '
        'explored',
        'function attributes of the wrapped function: only __name__, __doc__, __module__, __wrapped__, own signature and '
        'calls are demanded; whether the attributes themselves are copied (update_dict) is not part of the statement.  '
        'An attribute __signature__ (changes what inspect.signature reports for f itself) is not set',
        'the wrapper may be any callable; a functools.partial of f itself is passed with nothing bound (with bound '
        'arguments update_wrapper documents that the partial\'s narrowed signature is used: outside the statement); '
        'a spelled-out wrapper forwards every parameter, so f must see its own defaults, not the wrapper\'s look-alikes',
        'with hide_wrapped=True the __wrapped__ clause is not demanded (nor its absence); build_from is only passed as '
        'f itself and only to update_wrapper (wraps(f, build_from=...) raises TypeError today: wraps passes its own '
        'build_from=None; the statement does not mention build_from)',
    ]


# ----------------------------------------------------------------------------------------------------

def replay(ctx, data):
    """Re-execute the recorded (function, way of wrapping[, call shape]) directly."""
    case = data['case']
    spec, variant = case['spec'], case['variant']
    f, names = make_function(spec)
    call = case.get('call')
    calls = [(call['npos'], tuple(call['kw']))] if call else []
    t = inputs.Tally()
    check_variant(t, spec, variant, f, names, case.get('part', 'signatures'), calls=calls)
    msgs = []
    for sig in sorted(t.viols):
        rec = t.viols[sig]
        msgs.append('%s | %s | wrapped with %r | call=%r | expected=%r observed=%r'
                    % (sig, names['src'].strip().replace('\n', ' '), variant, rec[0].get('call'), rec[1], rec[2]))
    return msgs

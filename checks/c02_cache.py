"""C02 - LRI/LRU capacity, strict recency eviction, counters, copy.

Engine E1 (mc.histories): breadth-first search to a fixpoint over every dict-API history on the real
cacheutils.LRI / LRU objects, compared step by step with a reference cache (recency list + counters).
"""
import itertools
from mc import core, histories

PROPERTY = 'C02'
LEVEL = 'model_checking'

VALUES = (0, 1)
ALLKEYS = ('a', 'b', 'c', 'd', 'e')
RING_LIMIT = 64


class OnMissFailed(Exception):
    """Raised by the on_miss callback of the 'raise' mode (and by the reference model at the same place)."""


class Ref:
    """Reference cache: recency list oldest -> newest, counters, on_miss log."""

    def __init__(self, lru, max_size, on_miss):
        self.lru, self.max_size, self.on_miss = lru, max_size, on_miss
        self.order = []          # [k, v] oldest first
        self.hit = self.miss = self.soft = 0
        self.log = []

    def copy(self):
        r = Ref(self.lru, self.max_size, self.on_miss)
        r.order = [list(p) for p in self.order]
        return r

    def find(self, k):
        for i, p in enumerate(self.order):
            if p[0] == k:
                return i
        return -1

    def contents(self):
        return {k: v for k, v in self.order}

    def set(self, k, v):
        i = self.find(k)
        if i >= 0:
            self.order.pop(i)
        elif len(self.order) >= self.max_size:
            self.order.pop(0)
        self.order.append([k, v])

    def lookup(self, k):
        i = self.find(k)
        if i >= 0:
            self.hit += 1
            p = self.order[i]
            if self.lru:
                self.order.append(self.order.pop(i))
            return p[1]
        self.miss += 1
        if self.on_miss:
            self.log.append(k)
            if self.on_miss == 'raise' and k == 'b':
                raise OnMissFailed(k)            # the callback raised: nothing to cache
            if self.on_miss == 'keyerror' and k == 'b':
                # the callback is a lookup in a backing mapping that does not have the key either (on_miss=store.__getitem__):
                # no value was produced, the key stays absent, the lookup is a not-found one - c[k] raises KeyError, get and
                # setdefault answer with the caller's default and count a soft miss
                raise KeyError(k)
            if self.on_miss == 'store':
                self.set(k, ('s', k))            # the callback itself stored the key before returning
            v = None if self.on_miss == 'none' else ('m', k)
            self.set(k, v)
            return v
        raise KeyError(k)

    def apply(self, op, impl_ret=None):
        """Returns ('ok', value) or ('exc', 'KeyError')."""
        name = op[0]
        try:
            if name == 'set':
                self.set(op[1], op[2]); return ('ok', None)
            if name == 'getitem':
                return ('ok', self.lookup(op[1]))
            if name in ('get', 'getd'):
                d = None if name == 'get' else op[2]
                try:
                    return ('ok', self.lookup(op[1]))
                except KeyError:
                    self.soft += 1
                    return ('ok', d)
            if name == 'del':
                i = self.find(op[1])
                if i < 0:
                    raise KeyError(op[1])
                self.order.pop(i); return ('ok', None)
            if name in ('pop', 'popd'):
                i = self.find(op[1])
                if i < 0:
                    if name == 'pop':
                        raise KeyError(op[1])
                    return ('ok', op[2])
                return ('ok', self.order.pop(i)[1])
            if name == 'popitem':
                if not self.order:
                    raise KeyError('popitem')
                # dict semantics leave the victim open: follow the implementation's choice if it is a
                # present (key, value) pair
                if (isinstance(impl_ret, tuple) and impl_ret[0] == 'ok' and isinstance(impl_ret[1], tuple)
                        and len(impl_ret[1]) == 2 and list(impl_ret[1]) in self.order):
                    self.order.remove(list(impl_ret[1]))
                    return ('ok', impl_ret[1])
                return ('ok', ('<some present item>',))
            if name in ('setdefault', 'setdefaultd'):
                d = None if name == 'setdefault' else op[2]
                try:
                    return ('ok', self.lookup(op[1]))
                except KeyError:
                    self.soft += 1
                    self.set(op[1], d)
                    return ('ok', d)
            if name in ('update_partial', 'update_badpair'):
                # the source fails after these pairs: they have been assigned one by one, the exception reaches the caller
                for k, v in op[1]:
                    self.set(k, v)
                return ('exc', 'SourceFailed' if name == 'update_partial' else 'ValueError')
            if name in ('update_map', 'update_pairs', 'update_iter', 'update_kw', 'ior', 'update_mapkw', 'update_pairskw',
                        'update_keysonly', 'update_dictsub'):
                for k, v in op[1]:
                    self.set(k, v)
                if name in ('update_mapkw', 'update_pairskw'):
                    for k, v in op[2]:
                        self.set(k, v)
                return ('ok', None)
            if name == 'update_self':
                return ('ok', None)
            if name == 'clear':
                self.order = []; return ('ok', None)
        except KeyError:
            return ('exc', 'KeyError')
        except OnMissFailed:
            return ('exc', 'OnMissFailed')
        raise AssertionError(op)


class St:
    """The implementation side: real cache + on_miss call log."""

    def __init__(self, cls, max_size, on_miss):
        self.log = []
        fn = None
        if on_miss:
            log = self.log

            holder = self

            def fn(k):
                log.append(k)
                if on_miss == 'raise' and k == 'b':
                    raise OnMissFailed(k)
                if on_miss == 'keyerror' and k == 'b':
                    raise KeyError(k)
                if on_miss == 'store':
                    holder.c[k] = ('s', k)      # a loader that fills the cache itself (re-entrant use)
                return None if on_miss == 'none' else ('m', k)
        self.fn = fn
        self.c = cls(max_size=max_size, on_miss=fn)


class SourceFailed(Exception):
    pass


class KeysOnlyMapping:
    """The minimal mapping protocol dict.update() accepts: keys() and __getitem__ (e.g. sqlite3.Row)."""

    def __init__(self, pairs):
        self._d = dict(pairs)

    def keys(self):
        return list(self._d)

    def __getitem__(self, k):
        return self._d[k]


class DictSubclass(dict):
    pass


def impl_apply(c, op):
    name = op[0]
    try:
        if name == 'set':
            c[op[1]] = op[2]; return ('ok', None)
        if name == 'getitem':
            return ('ok', c[op[1]])
        if name == 'get':
            return ('ok', c.get(op[1]))
        if name == 'getd':
            return ('ok', c.get(op[1], op[2]))
        if name == 'del':
            del c[op[1]]; return ('ok', None)
        if name == 'pop':
            return ('ok', c.pop(op[1]))
        if name == 'popd':
            return ('ok', c.pop(op[1], op[2]))
        if name == 'popitem':
            return ('ok', c.popitem())
        if name == 'setdefault':
            return ('ok', c.setdefault(op[1]))
        if name == 'setdefaultd':
            return ('ok', c.setdefault(op[1], op[2]))
        if name == 'update_map':
            return ('ok', c.update(dict(op[1])))
        if name == 'update_pairs':
            return ('ok', c.update([tuple(p) for p in op[1]]))
        if name == 'update_iter':
            return ('ok', c.update(iter([tuple(p) for p in op[1]])))
        if name == 'update_kw':
            return ('ok', c.update((), **dict(op[1])))
        if name == 'update_mapkw':
            return ('ok', c.update(dict(op[1]), **dict(op[2])))
        if name == 'update_keysonly':
            return ('ok', c.update(KeysOnlyMapping(op[1])))
        if name == 'update_dictsub':
            return ('ok', c.update(DictSubclass(op[1])))
        if name == 'update_partial':
            def failing():
                for pair in op[1]:
                    yield tuple(pair)
                raise SourceFailed('the source of the update failed')
            return ('ok', c.update(failing()))
        if name == 'update_badpair':
            return ('ok', c.update([tuple(pair) for pair in op[1]] + ['x']))
        if name == 'update_pairskw':
            return ('ok', c.update([tuple(p) for p in op[1]], **dict(op[2])))
        if name == 'update_self':
            return ('ok', c.update(c))
        if name == 'ior':
            c2 = c
            c2 |= dict(op[1])
            if c2 is not c:
                return ('ok', '<|= rebound the name to another object>')
            return ('ok', None)
        if name == 'clear':
            return ('ok', c.clear())
    except Exception as e:
        return ('exc', type(e).__name__)
    raise AssertionError(op)


def ring(c):
    """Ring walked from the anchor, oldest first, as ((k, v), ...); step-limited.  None if absent."""
    anchor = getattr(c, '_anchor', None)
    if anchor is None:
        return None
    out, link, n = [], anchor[1], 0
    while link is not anchor and n < RING_LIMIT:
        out.append((link[2], link[3]))
        link = link[1]
        n += 1
    if n >= RING_LIMIT:
        out.append('<ring does not close>')
    return tuple(out)


def ring_back(c):
    anchor = getattr(c, '_anchor', None)
    if anchor is None:
        return None
    out, link, n = [], anchor[0], 0
    while link is not anchor and n < RING_LIMIT:
        out.append((link[2], link[3]))
        link = link[0]
        n += 1
    return tuple(reversed(out))


def probe(c, max_size):
    """Black-box eviction order: insert fresh keys one at a time, record the order old keys disappear in."""
    try:
        old = list(dict.keys(c))
        gone = []
        for i in range(max_size + 1):
            c[('probe', i)] = i
            if len(c) > max_size:
                return ('over capacity', len(c))
            for k in old:
                if k not in gone and not dict.__contains__(c, k):
                    gone.append(k)
            if len(gone) == len(old):
                break
        return tuple(gone)
    except Exception as e:
        return ('unusable', type(e).__name__)


def canon(st):
    c = st.c
    r = ring(c)
    ll = getattr(c, '_link_lookup', None)
    return (type(c).__name__, c.max_size, r, tuple(dict.items(c)),
            tuple(sorted(ll, key=repr)) if ll is not None else None, c.on_miss is not None)


class Spec:
    def __init__(self, clsname, max_size, on_miss, nkeys=None, values=VALUES):
        self.clsname, self.max_size, self.on_miss = clsname, max_size, on_miss
        self.values = tuple(values)
        self.keys = ALLKEYS[:nkeys or (max_size + 1)]
        self.config = {'class': clsname, 'max_size': max_size, 'on_miss': on_miss, 'keys': list(self.keys),
                       'values': list(self.values)}
        self.menu = self._menu()

    def cls(self):
        from boltons import cacheutils
        return getattr(cacheutils, self.clsname)

    def _menu(self):
        K, m = self.keys, []
        for k in K:
            for v in self.values:
                m.append(('set', k, v))
        for k in K:
            m += [('getitem', k), ('get', k), ('getd', k, 'D'), ('del', k), ('pop', k), ('popd', k, 'D'),
                  ('setdefault', k)]
            # caller defaults that are the very object a key may hold (identity shortcuts such as `ret is default`)
            m += [('popd', k, 0), ('getd', k, 1)]
            for v in self.values:
                m.append(('setdefaultd', k, v))
        m.append(('popitem',))
        first, last = K[0], K[-1]
        m.append(('update_map', ((first, 1),)))
        m.append(('update_map', ((last, 0), (first, 0))))
        m.append(('update_map', tuple((k, 1) for k in K)))            # more items than capacity
        m.append(('update_pairs', ((last, 1), (last, 0))))            # repeated key
        m.append(('update_pairs', ((first, 0), (K[1], 1), (first, 1))))
        # more pairs than the cache holds, the same key twice among the last max_size of them
        m.append(('update_pairs', ((last, 0),) + tuple((k, 1) for k in K[1:-1][:max(0, self.max_size - 2)])
                  + ((first, 1), (first, 0))))
        m.append(('update_iter', ((K[1], 0), (last, 1))))
        m.append(('update_kw', ((last, 1),)))
        m.append(('update_mapkw', ((first, 0),), ((K[1], 1),)))
        # positional and keyword items in one call: E is applied first, then every keyword is *assigned* (a key of E
        # repeated as a keyword becomes the most recent one); a repeated key inside the pairs next to keywords
        m.append(('update_mapkw', ((first, 1), (K[1], 0)), ((first, 0),)))
        m.append(('update_pairskw', ((first, 1), (K[1], 0), (first, 0)), ((last, 1),)))
        # further argument shapes: a mapping that offers only keys() and __getitem__, a dict subclass; sources that fail
        # after some pairs (a generator that raises, a malformed pair) - also with more pairs than the cache holds
        m.append(('update_keysonly', ((first, 1), (last, 0))))
        m.append(('update_dictsub', ((K[1], 1), (first, 0))))
        m.append(('update_partial', ((last, 1),)))
        m.append(('update_partial', tuple((k, 0) for k in K)))
        m.append(('update_badpair', tuple((k, 1) for k in reversed(K))))
        m.append(('update_self',))
        m.append(('ior', ((first, 1),)))
        m.append(('ior', ((last, 0), (K[1], 0))))
        m.append(('ior', tuple((k, 0) for k in K)))
        m.append(('clear',))
        m.append(('copy',))
        return m

    def initial(self):
        return [()]

    def build(self, hist):
        st = St(self.cls(), self.max_size, self.on_miss)
        ref = Ref(self.clsname == 'LRU', self.max_size, self.on_miss)
        for op in hist:
            if op[0] == 'copy':
                st2 = St.__new__(St)
                st2.log, st2.fn = st.log, st.fn
                st2.c = st.c.copy()
                st = st2
                ref = ref.copy()
                ref.on_miss = ref.on_miss if st.c.on_miss is not None else False
                ref.log = list(st.log)
            else:
                r = impl_apply(st.c, op)
                ref.apply(op, r)
        ref.log = list(st.log)   # after a sound prefix both agree; compare deltas from here on
        return st, ref

    def root_key(self, hist):
        return canon(self.build(hist)[0])

    # ------------------------------------------------------------------------------------------
    def case(self, hist, op):
        return {'config': self.config, 'history': [list(o) for o in hist] + [list(op)]}

    def expand(self, hist):
        out = []
        for op in self.menu:
            st, ref = self.build(hist)
            viols, ok, label, st, ref = self.step(st, ref, op, hist)
            key = canon(st) if ok else None
            if ok and not self.probe_check(st, ref, op, hist, viols):
                key = None
            out.append((op, key, label, viols))
        return out

    def step(self, st, ref, op, hist):
        """Apply op to both sides; state oracle, then (if sound) read battery.  Returns
        (violations, ok, label, successor St)."""
        V = []
        case = self.case(hist, op)
        name = op[0]

        def bad(kind, what, exp, obs, tags=()):
            sig = 'C02|read:%s' % what if kind == 'read' else 'C02|op:%s|%s' % (name, what)
            if self.on_miss == 'keyerror' and kind != 'read' and 'b' in st.log[log0:]:
                tags = tuple(tags) + ('on_miss_raised_KeyError',)
            V.append((sig, case, exp, obs, None, tags))

        c = st.c
        cnt0 = (c.hit_count, c.miss_count, c.soft_miss_count)
        m0 = (ref.hit, ref.miss, ref.soft)
        log0 = len(st.log)
        if name == 'copy':
            return self.step_copy(st, ref, hist, V, case)
        r_i = impl_apply(c, op)
        r_m = ref.apply(op, r_i)
        label = (name, r_i[0] if r_i[0] == 'ok' else r_i[1])
        ok = True
        if r_i != r_m:
            bad('op', 'result', r_m, r_i); ok = False
        if dict(dict.items(c)) != ref.contents():
            bad('op', 'contents', ref.contents(), dict(dict.items(c))); ok = False
        if len(c) > self.max_size:
            bad('op', 'len>max_size', self.max_size, len(c)); ok = False
        d_i = tuple(b - a for a, b in zip(cnt0, (c.hit_count, c.miss_count, c.soft_miss_count)))
        d_m = tuple(b - a for a, b in zip(m0, (ref.hit, ref.miss, ref.soft)))
        if d_i != d_m:
            bad('op', 'counters(hit,miss,soft)', d_m, d_i); ok = False
        if c.soft_miss_count > c.miss_count:
            bad('op', 'soft_miss_count>miss_count', None, (c.miss_count, c.soft_miss_count)); ok = False
        if st.log[log0:] != ref.log[log0:]:
            bad('op', 'on_miss calls', ref.log[log0:], st.log[log0:]); ok = False
        if ok:
            ok = self.structure(st, ref, hist + (op,), bad)
        if ok:
            self.battery(st, ref, bad)
        return V, ok, label, st, ref

    def probe_check(self, st, ref, op, hist, V):
        """Black-box eviction order of the state just reached.  Destructive (inserts fresh keys), so it runs last, on
        the object that is discarded anyway."""
        got = probe(st.c, self.max_size)
        want = tuple(k for k, _ in ref.order)
        if got != want:
            V.append(('C02|op:%s|eviction-order(probe)' % op[0], self.case(hist, op), list(want), got, None, ()))
            return False
        return True

    def structure(self, st, ref, hist, bad):
        """Ring/dict/lookup agreement and black-box eviction order, on the state reached by hist."""
        c = st.c
        ok = True
        want = tuple((k, v) for k, v in ref.order)
        r = ring(c)
        if r is not None:
            if r != want:
                bad('op', 'recency-ring', want, r); ok = False
            elif ring_back(c) != want:
                bad('op', 'recency-ring(backward)', want, ring_back(c)); ok = False
            ll = getattr(c, '_link_lookup', None)
            if ll is not None and sorted(ll, key=repr) != sorted((k for k, _ in want), key=repr):
                bad('op', 'link-lookup keys', sorted((k for k, _ in want), key=repr), sorted(ll, key=repr)); ok = False
        return ok

    def battery(self, st, ref, bad):
        c = st.c
        cont = ref.contents()
        k0 = canon(st)
        cnt0 = (c.hit_count, c.miss_count, c.soft_miss_count)

        def read(nm, fn, want):
            try:
                got = fn()
            except RecursionError:
                got = 'raised RecursionError'
            except Exception as e:
                got = 'raised ' + type(e).__name__
            if got != want:
                bad('read', nm, want, got)

        for k in self.keys:
            read('in', lambda: k in c, k in cont)
        read('len', lambda: len(c), len(cont))
        read('iter', lambda: sorted(c, key=repr), sorted(cont, key=repr))
        read('keys', lambda: sorted(c.keys(), key=repr), sorted(cont, key=repr))
        read('items', lambda: sorted(c.items(), key=repr), sorted(cont.items(), key=repr))
        read('values', lambda: sorted(map(repr, c.values())), sorted(map(repr, cont.values())))
        read('==dict(equal)', lambda: c == dict(cont), True)
        read('!=dict(equal)', lambda: c != dict(cont), False)
        read('dict==cache', lambda: dict(cont) == c, True)
        other = dict(cont); other['zz'] = 0
        read('==dict(extra key)', lambda: c == other, False)
        if cont:
            k = sorted(cont, key=repr)[0]
            ch = dict(cont); ch[k] = 'other'
            read('==dict(value differs)', lambda: c == ch, False)
            read('!=dict(value differs)', lambda: c != ch, True)
            less = dict(cont); del less[k]
            read('==dict(missing key)', lambda: c == less, False)
        cls = type(c)
        same = cls(max_size=self.max_size + 1)
        for k, v in cont.items():
            dict.__setitem__(same, k, v)     # contents only; never operated on
        read('==cache(equal)', lambda: c == same, True)
        read('==self', lambda: c == c, True)
        read('repr', lambda: isinstance(repr(c), str), True)
        if canon(st) != k0:
            bad('read', 'reads changed the state', k0, canon(st))
        if (c.hit_count, c.miss_count, c.soft_miss_count) != cnt0:
            bad('read', 'reads changed counters', cnt0, (c.hit_count, c.miss_count, c.soft_miss_count))

    def step_copy(self, st, ref, hist, V, case):
        def bad(kind, what, exp, obs, tags=()):
            sig = 'C02|read:%s' % what if kind == 'read' else 'C02|op:copy|%s' % what
            V.append((sig, case, exp, obs, None, tags))
        c = st.c
        k0 = canon(st)
        cnt0 = (c.hit_count, c.miss_count, c.soft_miss_count)
        ok = True
        try:
            c2 = c.copy()
        except Exception as e:
            bad('op', 'result', 'a copy', 'raised ' + type(e).__name__)
            return V, False, ('copy', type(e).__name__), st, ref
        label = ('copy', 'ok')
        if type(c2) is not type(c):
            bad('op', 'type', type(c).__name__, type(c2).__name__); ok = False
        if c2 is c:
            bad('op', 'independent object', 'new object', 'same object'); ok = False
        if getattr(c2, 'max_size', None) != self.max_size:
            bad('op', 'capacity', self.max_size, getattr(c2, 'max_size', None)); ok = False
        if dict(dict.items(c2)) != ref.contents():
            bad('op', 'contents', ref.contents(), dict(dict.items(c2))); ok = False
        # the original: contents, eviction order, counters unchanged
        if canon(st) != k0:
            bad('op', 'source state changed', k0, canon(st)); ok = False
        if (c.hit_count, c.miss_count, c.soft_miss_count) != cnt0:
            bad('op', 'source counters changed', cnt0, (c.hit_count, c.miss_count, c.soft_miss_count)); ok = False
        if not ok:
            return V, False, label, st, ref
        st2 = St.__new__(St)
        st2.log, st2.fn, st2.c = st.log, st.fn, c2
        ref2 = ref.copy()
        ref2.on_miss = ref.on_miss if c2.on_miss is not None else False
        ref2.log = list(st.log)
        # eviction order of the copy and (still) of the source
        h2 = hist + (('copy',),)
        ok = self.structure(st2, ref2, h2, bad)
        src_twin, _ = self.build(hist)
        src_twin.c.copy()
        got = probe(src_twin.c, self.max_size)
        if got != tuple(k for k, _ in ref.order):
            bad('op', 'source eviction order changed', [k for k, _ in ref.order], got); ok = False
        # independence: no shared link, and single ops on one side leave the other untouched
        if ok:
            a1, a2 = getattr(c, '_anchor', None), getattr(c2, '_anchor', None)
            if a1 is not None and a2 is not None:
                ids1, ids2 = set(), set()
                for a, ids in ((a1, ids1), (a2, ids2)):
                    link, n = a, 0
                    while n < RING_LIMIT:
                        ids.add(id(link)); link = link[1]; n += 1
                        if link is a:
                            break
                if ids1 & ids2:
                    bad('op', 'shares ring links with source', 'disjoint', 'shared'); ok = False
            if getattr(c, '_link_lookup', 1) is getattr(c2, '_link_lookup', 2):
                bad('op', 'shares lookup table with source', 'disjoint', 'shared'); ok = False
        if ok:
            K = self.keys
            for mut in (('set', K[-1], 1), ('del', K[0]), ('getitem', K[0]), ('clear',), ('popitem',),
                        ('update_map', ((K[1], 1),)), ('setdefaultd', K[-1], 0)):
                for side in (0, 1):
                    s1, _ = self.build(hist)
                    o = s1.c
                    cp = o.copy()
                    tgt, oth = (cp, o) if side == 0 else (o, cp)
                    w = St.__new__(St); w.c = oth
                    before = canon(w)
                    impl_apply(tgt, mut)
                    if canon(w) != before:
                        bad('op', 'not independent (%s mutated via %s)' % ('source' if side == 0 else 'copy', mut[0]),
                            before, canon(w)); ok = False
        if ok:
            self.battery(st2, ref2, bad)
        return V, ok, label, st2, ref2


# ----------------------------------------------------------------------------------------------------
# keys of a user class whose __eq__ only understands its own kind ("arbitrary hashable keys"): the cache must never
# compare a key with anything but another key (e.g. with an internal sentinel)

class StrictKey:
    # the attribute name is deliberately unusual: boltons' sentinel objects have a ``name`` attribute of their own
    def __init__(self, name):
        self.strict_key_ident = name

    def __hash__(self):
        return hash(self.strict_key_ident)

    def __eq__(self, other):
        return self.strict_key_ident == other.strict_key_ident   # AttributeError for anything that is not a StrictKey

    def __repr__(self):
        return 'StrictKey(%r)' % self.strict_key_ident


# Key families: what the names 'a', 'b', ... stand for in one search.  "arbitrary hashable keys" includes keys that are
# falsy, None, tuples (which %-formatting treats as argument lists), numbers of several types, bytes, frozensets.
KEY_FAMILIES = {
    'StrictKey objects': lambda n: StrictKey(n),
    'tuples': {'a': (), 'b': ('b',), 'c': ('c', 1), 'd': (('d',), None)}.__getitem__,
    'None and falsy': {'a': None, 'b': 0, 'c': '', 'd': b''}.__getitem__,
    'numbers, bytes, frozenset': {'a': 2.5, 'b': 10 ** 30, 'c': b'x', 'd': frozenset([1])}.__getitem__,
}


def family_history(clsname, ms, family, hist, om=False):
    """One history over the keys of a family on a fresh cache: [(signature, expected, observed)].  om: no on_miss,
    True (returns ('m', key name)) or 'keyerror' (the same, but raises KeyError for the key named 'b')."""
    from boltons import cacheutils
    cls = getattr(cacheutils, clsname)
    names = ALLKEYS[:ms + 1]
    KO = {n: KEY_FAMILIES[family](n) for n in names}
    REV = {o: n for n, o in KO.items()}
    sig = 'C02|%s|' % ('strict-keys' if family == 'StrictKey objects' else 'key-kinds')
    out = []

    def tr(op):     # names -> key objects in an operation
        if op[0] in ('update_pairs', 'ior'):
            return (op[0], tuple((KO[k], v) for k, v in op[1]))
        return op if len(op) == 1 else (op[0], KO[op[1]]) + tuple(op[2:])

    def contents(cache):
        return {REV.get(k, repr(k)): v for k, v in dict.items(cache)}

    log, fn = [], None
    if om:
        def fn(k):
            n = REV.get(k, repr(k))
            log.append(n)
            if om == 'keyerror' and n == 'b':
                raise KeyError(k)
            return ('m', n)

    def counts(cache):
        return (cache.hit_count, cache.miss_count, cache.soft_miss_count)

    c = cls(max_size=ms, on_miss=fn)
    ref = Ref(clsname == 'LRU', ms, om)
    for i, op in enumerate(hist):
        cnt0, m0 = counts(c), (ref.hit, ref.miss, ref.soft)
        try:
            if op[0] == 'copy':
                try:
                    c2 = c.copy()
                except Exception as e:
                    return [(sig + 'op:copy|raised', 'an equal independent cache', type(e).__name__)]
                if contents(c2) != ref.contents():
                    return [(sig + 'op:copy|contents', ref.contents(), contents(c2))]
                c = c2
                ref = ref.copy()
                ref.on_miss = om if c.on_miss is not None else False
                ref.log = list(log)
                continue
            r_i = impl_apply(c, tr(op))
            if op[0] == 'popitem' and r_i[0] == 'ok':
                r_i = ('ok', (REV.get(r_i[1][0], repr(r_i[1][0])), r_i[1][1]))
        except Exception as e:           # an exception escaping the guarded apply (should not happen)
            r_i = ('exc', type(e).__name__)
        r_m = ref.apply(op, r_i)
        if r_i != r_m:
            return [(sig + 'op:%s|result' % op[0], r_m, r_i)]
        if contents(c) != ref.contents():
            return [(sig + 'op:%s|contents' % op[0], ref.contents(), contents(c))]
        if len(c) > ms:
            return [(sig + 'op:%s|len>max_size' % op[0], '<= %d' % ms, len(c))]
        d_i = tuple(b - a for a, b in zip(cnt0, counts(c)))
        d_m = tuple(b - a for a, b in zip(m0, (ref.hit, ref.miss, ref.soft)))
        if d_i != d_m:
            return [(sig + 'op:%s|counters(hit,miss,soft)' % op[0], d_m, d_i)]
        if log != ref.log:
            return [(sig + 'op:%s|on_miss calls' % op[0], list(ref.log), list(log))]
    # reads with key objects, and the eviction order by further inserts of key objects
    for n in names:
        try:
            r = KO[n] in c
        except Exception as e:
            r = 'raised ' + type(e).__name__
        if r != (n in ref.contents()):
            out.append((sig + 'read:in', n in ref.contents(), r))
    try:
        it = sorted((REV.get(k, repr(k)) for k in c), key=repr)
    except Exception as e:
        it = 'raised ' + type(e).__name__
    if it != sorted(ref.contents(), key=repr):
        out.append((sig + 'read:iter', sorted(ref.contents(), key=repr), it))
    try:
        same = (c == {KO[k]: v for k, v in ref.contents().items()})
    except Exception as e:
        same = 'raised ' + type(e).__name__
    if same is not True:
        out.append((sig + 'read:==dict(equal)', True, same))
    try:
        rp = repr(c)
    except Exception as e:
        out.append((sig + 'read:repr', 'a string', 'raised ' + type(e).__name__))
    gone = []
    try:
        for j in range(ms + 1):
            c[StrictKey('probe%d' % j) if family == 'StrictKey objects' else ('probe', j)] = j
            for n in names:
                if n in ref.contents() and n not in gone and not dict.__contains__(c, KO[n]):
                    gone.append(n)
    except Exception as e:
        gone = 'raised ' + type(e).__name__
    want = [k for k, _ in ref.order]
    if gone != want:
        out.append((sig + 'eviction-order(probe)', want, gone))
    return out


def strict_shard(arg):
    clsname, ms, lead, family, om = arg
    from mc.inputs import Tally
    t = Tally()
    names = ALLKEYS[:ms + 1]
    ops = []
    for n in names:
        ops += [('set', n, 0), ('getitem', n), ('getd', n, 'D'), ('del', n), ('popd', n, 'D'), ('setdefaultd', n, 1)]
        if om:
            ops += [('get', n), ('setdefault', n)]
    ops += [('popitem',), ('clear',), ('copy',), ('update_pairs', ((names[0], 1), (names[-1], 0))),
            ('ior', ((names[-1], 1),))]
    import itertools
    for rest in itertools.product(ops, repeat=2):
        hist = (lead,) + rest
        case = {'config': {'class': clsname, 'max_size': ms, 'keys': family, 'on_miss': om},
                'history': [list(o) for o in hist]}
        t.count(nontrivial=True, sample=case)
        for sg, exp, got in family_history(clsname, ms, family, hist, om):
            t.bad(sg, case, exp, got)
    return t


# ----------------------------------------------------------------------------------------------------
# directed large caches (not exhaustive): capacities far above the fixpoint searches, so that behaviour that depends on
# a size threshold (a "fast path above N items") meets the same reference model

def large_plan(ms):
    """A fixed operation sequence over ~1.5 * ms integer keys that passes through: fill to capacity, lookups of every third
    key, inserts that evict, a bulk update longer than the capacity with repeated keys, removals, defaulted lookups,
    |= with a mapping larger than the capacity, copy (continuing on the copy), clear and refill."""
    ops = [('set', k, k) for k in range(ms)]
    ops += [('getitem', k) for k in range(0, ms, 3)]
    ops += [('set', ms + k, -k) for k in range(ms // 2)]
    ops += [('getd', k, 'D') for k in range(0, ms + ms // 2, 7)]
    ops.append(('update_pairs', tuple((k % (ms + 5), k) for k in range(2 * ms + 3))))
    ops += [('del', k) for k in range(6, ms, 5)] + [('popd', k, 'D') for k in range(1, ms, 11)]
    ops += [('setdefaultd', k, 's') for k in range(0, ms + 20, 4)]
    ops.append(('copy',))
    ops.append(('ior', tuple((k, 'i') for k in range(ms // 2, 2 * ms))))
    ops += [('getitem', k) for k in range(ms, 2 * ms, 2)]
    ops.append(('update_map', tuple((k, 'm') for k in range(0, ms + 1))))
    ops += [('popitem',)] * 3
    ops.append(('clear',))
    ops += [('set', k, 1) for k in range(ms + 2)]
    return ops


def large_shard(arg):
    clsname, ms, om = (tuple(arg) + (False,))[:3]
    from boltons import cacheutils
    from mc.inputs import Tally
    t = Tally()
    cls = getattr(cacheutils, clsname)
    log, fn = [], None
    if om:
        def fn(k):
            log.append(k)
            return ('m', k)
    c, ref = cls(max_size=ms, on_miss=fn), Ref(clsname == 'LRU', ms, bool(om))
    case = {'config': {'class': clsname, 'max_size': ms, 'keys': 'directed-large', 'on_miss': bool(om)},
            'history': 'large_plan(%d)' % ms}
    plan = large_plan(ms)

    def agree(i, op):
        if len(c) > ms:
            t.bad('C02|large|len>max_size', case, '<= %d' % ms, {'step': i, 'op': repr(op)[:80], 'len': len(c)})
            return False
        r = ring(c)
        if r is not None and list(map(list, r)) != ref.order:
            t.bad('C02|large|recency-ring', case, 'as the reference', {'step': i, 'op': repr(op)[:80]})
            return False
        if dict(dict.items(c)) != ref.contents():
            t.bad('C02|large|contents', case, 'as the reference', {'step': i, 'op': repr(op)[:80]})
            return False
        if log != ref.log:
            t.bad('C02|large|on_miss calls', case, 'one call per lookup of an absent key', {'step': i, 'op': repr(op)[:80]})
            return False
        if (c.hit_count - base[0], c.miss_count - base[1], c.soft_miss_count - base[2]) != (ref.hit, ref.miss, ref.soft):
            t.bad('C02|large|counters(hit,miss,soft)', case, (ref.hit, ref.miss, ref.soft),
                  {'step': i, 'op': repr(op)[:80],
                   'got': (c.hit_count - base[0], c.miss_count - base[1], c.soft_miss_count - base[2])})
            return False
        return True

    base = (0, 0, 0)      # counters of the object in use when it was obtained (a copy's start values are left open)

    global RING_LIMIT
    saved, RING_LIMIT = RING_LIMIT, 4 * ms + 64
    try:
        for i, op in enumerate(plan):
            t.count(nontrivial=True)
            if op[0] == 'copy':
                try:
                    c2 = c.copy()
                except Exception as e:
                    t.bad('C02|large|op:copy|raised', case, 'a copy', type(e).__name__)
                    break
                c, ref = c2, ref.copy()
                ref.on_miss, ref.log = bool(om) and c.on_miss is not None, list(log)
                base = (c.hit_count, c.miss_count, c.soft_miss_count)
            else:
                r_i = impl_apply(c, op)
                r_m = ref.apply(op, r_i)
                if r_i != r_m:
                    t.bad('C02|large|op:%s|result' % op[0], case, repr(r_m)[:80], {'step': i, 'op': repr(op)[:80], 'got': repr(r_i)[:80]})
                    break
            bulk = op[0] in ('update_pairs', 'update_map', 'ior', 'copy', 'clear')
            if (bulk or i % 64 == 0 or i == len(plan) - 1) and not agree(i, op):
                break
        else:
            # black box: each further insert evicts exactly the reference's oldest key
            for j in range(ms + 1):
                victim = ref.order[0][0] if len(ref.order) >= ms else None
                c[('probe', j)] = j
                ref.set(('probe', j), j)
                t.count(nontrivial=True)
                if len(c) > ms or (victim is not None and dict.__contains__(c, victim)):
                    t.bad('C02|large|eviction-order(probe)', case, 'evicts %r' % (victim,), {'probe': j, 'len': len(c)})
                    break
    finally:
        RING_LIMIT = saved
    return t


def configs(tier):
    sizes = (1, 2, 3) if tier == 'quick' else (1, 2, 3, 4)
    out = []
    for cls in ('LRI', 'LRU'):
        for ms in sizes:
            for om in (False, True):
                if ms >= 4 and om:
                    continue      # on_miss values multiply the max_size=4 space beyond a 10-minute search
                out.append((cls, ms, om))
        # callbacks that return None (a value that looks like "nothing") or raise for one key
        for ms in ((2,) if tier == 'quick' else (1, 2, 3)):
            out.append((cls, ms, 'none'))
            out.append((cls, ms, 'raise'))
            out.append((cls, ms, 'store'))
            out.append((cls, ms, 'keyerror'))
    return out


# ------------------------------------------------------------------------------------------------------
# Iteration interleaved with other operations.  "iteration" is in the statement's operation list and a sequence of
# operations may well sit *between* two steps of one iterator (`for k in cache: cache[k]`).  A dict allows every operation
# that does not change its size while it is iterated; the iteration then still reports the contents: every cached key
# exactly once.  Fill a cache, open an iterator (iter / keys / items / values), between any two next() calls run one
# body operation out of a menu of size-preserving ones (on the key just yielded or on a fixed other key) - every
# sequence of body operations up to the length of the cache.

ITER_VIEWS = ('iter', 'keys', 'items', 'values')
ITER_BODIES = ('none', 'getitem-yielded', 'getitem-other', 'get-yielded', 'get-absent', 'setdefault-yielded',
               'assign-yielded', 'assign-other', 'contains', 'len', 'eq', 'repr')


def iter_case(cls_name, ms, n, om, view, bodies):
    return {'config': {'class': cls_name, 'max_size': ms, 'keys': 'interleaved-iteration', 'on_miss': om},
            'filled_with': n, 'view': view, 'between_steps': list(bodies)}


def iter_check(cls_name, ms, n, om, view, bodies):
    """-> [(sig, expected, observed)]."""
    from boltons import cacheutils
    cls = getattr(cacheutils, cls_name)
    c = cls(max_size=ms, on_miss=(lambda k: ('m', k)) if om else None)
    keys = ['k%d' % i for i in range(n)]
    for i, k in enumerate(keys):
        c[k] = i
    want = {k: i for i, k in enumerate(keys)}
    src = {'iter': lambda: iter(c), 'keys': lambda: iter(c.keys()), 'items': lambda: iter(c.items()),
           'values': lambda: iter(c.values())}[view]
    name = '%s.iteration(%s) interleaved with size-preserving operations' % (cls_name, view)
    out = []
    try:
        it = src()
        got = []
        for step in range(n + 1):
            try:
                x = next(it)
            except StopIteration:
                break
            got.append(x)
            k = x if view in ('iter', 'keys') else x[0] if view == 'items' else keys[min(step, n - 1)]
            b = bodies[step] if step < len(bodies) else 'none'
            other = keys[0] if k != keys[0] else keys[-1]
            if b == 'getitem-yielded':
                c[k]
            elif b == 'getitem-other':
                c[other]
            elif b == 'get-yielded':
                c.get(k)
            elif b == 'get-absent':
                if not om:                       # with an on_miss the lookup of an absent key inserts it: not size-preserving
                    c.get('absent-key', None)
            elif b == 'setdefault-yielded':
                c.setdefault(k, 'D')
            elif b == 'assign-yielded':
                c[k] = want[k]
            elif b == 'assign-other':
                c[other] = want[other]
            elif b == 'contains':
                k in c
            elif b == 'len':
                len(c)
            elif b == 'eq':
                c == want
            elif b == 'repr':
                repr(c)
    except Exception as e:                                     # noqa
        out.append(('C02|read:%s|raised' % name, 'no exception (no operation changes the size)', type(e).__name__))
        return out
    if view in ('iter', 'keys'):
        exp, obs = sorted(keys), sorted(got, key=repr)
    elif view == 'items':
        exp, obs = sorted(want.items()), sorted(got, key=repr)
    else:
        exp, obs = sorted(want.values()), sorted(got, key=repr)
    if exp != obs:
        out.append(('C02|read:%s|reports-the-contents' % name, exp, obs))
    return out


def iter_shard(arg):
    from mc import inputs
    cls_name, ms, om = arg
    t = inputs.Tally()
    for n in range(1, ms + 1):
        for view in ITER_VIEWS:
            for bodies in itertools.product(ITER_BODIES, repeat=min(n, 3)):
                case = iter_case(cls_name, ms, n, om, view, bodies)
                t.count(nontrivial=n > 1 and any(b != 'none' for b in bodies), sample=case if len(t.samples) < 2 else None)
                for sig, exp, obs in iter_check(cls_name, ms, n, om, view, bodies):
                    t.bad(sig, case, exp, obs)
    return t


def run(ctx):
    parts = []
    for cls, ms, om in configs(ctx.tier):
        # quick: the max_size=3 searches use one value (values only multiply the state space: no code path depends on
        # them except the identity shortcuts, for which 0 is kept); thorough: both values everywhere
        spec = Spec(cls, ms, om, values=(0,) if (ctx.quick() and ms >= 3) or ms >= 4 else VALUES)
        res = histories.explore(spec, ctx, time_budget=None if ctx.quick() else 900)
        parts.append((spec.config, res))
        ctx.note('%s max_size=%d on_miss=%s: states=%d transitions=%d depth=%d fixpoint=%s'
                 % (cls, ms, om, res.states, res.transitions, res.depth, res.fixpoint))
    from mc import inputs
    sk_tasks = []
    for cls in ('LRI', 'LRU'):
        for ms in (1, 2):
            names = ALLKEYS[:ms + 1]
            for lead in [('set', n, 1) for n in names] + [('update_pairs', tuple((n, 0) for n in names))]:
                for family in KEY_FAMILIES:
                    for om in (False, True, 'keyerror'):
                        sk_tasks.append((cls, ms, lead, family, om))
    inputs.run_shards(ctx, strict_shard, sk_tasks, part='key-kinds', rule=(
        'every history of 3 operations (the first one an insert) per key family - keys of a class whose __eq__ accepts '
        'only its own kind; tuples of length 0-2; None and falsy keys; floats, big ints, bytes, frozensets - without on_miss, '
        'with an on_miss that returns a value, and with one that raises KeyError for one key - against the reference cache '
        '(results, contents, counter deltas, on_miss calls, final reads and eviction order)'))
    inputs.run_shards(ctx, iter_shard, [(cls, ms, om) for cls in ('LRI', 'LRU') for ms in ((2, 3, 4) if ctx.quick() else (2, 3, 4, 5))
                                        for om in (False, True)], part='interleaved-iteration', rule=(
        'a cache filled with 1..max_size keys, an iterator over it / its keys() / items() / values(), and between any two '
        'next() calls one of %d size-preserving operations on the key just yielded or on another key: every sequence of '
        'such operations up to length 3; the iteration yields every cached key (item, value) exactly once'
        % len(ITER_BODIES)))
    sizes = (64, 257, 1025) if ctx.quick() else (64, 129, 257, 513, 1025, 4097)
    inputs.run_shards(ctx, large_shard, [(cls, ms, om) for cls in ('LRI', 'LRU') for ms in sizes for om in (False, True)], part='directed-large', rule=(
        'directed, NOT exhaustive: one fixed operation sequence per capacity (see large_plan), without and with an on_miss, '
        'against the reference cache, '
        'ring and contents compared after every bulk operation and every 64th step, then one eviction probe per slot'))
    cov = histories.merge_coverage(ctx, parts, rule=(
        'BFS to fixpoint over all histories of the op menu (keys = max_size+1, values as listed per search); a state is the '
        'canonical form of the real object (ring walk, dict items in dict order, lookup keys, on_miss flag)'))
    cov['exhaustive'] = all(r.fixpoint for _, r in parts)
    ctx.assumptions += ['keys in the fixpoint searches are plain strings; other key kinds only in the depth-3 key-kinds part',
                        'counters do not influence behaviour and are compared as per-step deltas',
                        'popitem may remove any present item (the reference follows the implementation)']


def replay(ctx, data):
    cfg = data['case']['config']
    if cfg.get('keys') == 'interleaved-iteration':
        c = data['case']
        return ['%s expected=%r observed=%r' % v for v in iter_check(cfg['class'], cfg['max_size'], c['filled_with'],
                                                                      cfg.get('on_miss', False), c['view'], c['between_steps'])]
    if cfg.get('keys') == 'directed-large':
        t = large_shard((cfg['class'], cfg['max_size'], cfg.get('on_miss', False)))
        return ['%s expected=%r observed=%r' % (rec[6], rec[1], rec[2]) for rec in t.viols.values()]
    if isinstance(cfg.get('keys'), str):         # a key-kinds history
        hist = [tuple(tuple(tuple(y) for y in x) if isinstance(x, list) else x for x in op) for op in data['case']['history']]
        return ['%s expected=%r observed=%r' % v for v in family_history(cfg['class'], cfg['max_size'], cfg['keys'], hist,
                                                                                    cfg.get('on_miss', False))]
    spec = Spec(cfg['class'], cfg['max_size'], cfg['on_miss'], nkeys=len(cfg['keys']), values=cfg.get('values', VALUES))
    hist = [tuple(tuple(tuple(y) if isinstance(y, list) else y for y in x) if isinstance(x, list) else x
                  for x in op) for op in data['case']['history']]
    msgs = []
    for i in range(len(hist)):
        st, ref = spec.build(tuple(hist[:i]))
        V, ok, label, st2, ref2 = spec.step(st, ref, hist[i], tuple(hist[:i]))
        if ok:
            ok = spec.probe_check(st2, ref2, hist[i], tuple(hist[:i]), V)
        for v in V:
            msgs.append('step %d %r: %s expected=%r observed=%r' % (i, hist[i], v[0], v[2], v[3]))
        if not ok:
            break
    return msgs

"""C04 - atomic_save never exposes a partially written destination, at any crash point.

Engine E4 (mc.envfaults), crash-point enumeration.  Each (configuration, body) scenario is executed on the real
AtomicSaver over a real scratch directory with the fileutils `os` seam traced.  Every event (file-system call, raw
write/close of the part file, body checkpoint) is a crash point:
  1. process death  - the directory as it is at that instant (snapshot) must show dest in {old/absent, complete new};
  2. power loss     - every durable state derivable from the event-log prefix (any prefix of the metadata operations,
                      any subset of the raw writes issued after the file's last fsync lost) must show the same;
  3. normal exit    - dest == new content, nothing else left in the directory;
plus direct ordering assertions on the log (write < fsync < close < one publishing rename/link, O_EXCL part file in the
destination's directory).  Conformance: every crash point is re-run in a forked child that really dies there
(os._exit) and the real directory is compared with the snapshot; scenarios are also run unpatched under strace and the
syscalls touching the scratch directory are compared with the event log.
"""
import itertools
import json
import os
import shutil
import subprocess
import sys

from mc import core, envfaults

PROPERTY = 'C04'
LEVEL = 'fault_enumeration'

OLD = b'OLD-CONTENT-0123456789\n'
OLD_MODE = 0o640
SNAPSHOT = 'snapshot-hardlink-of-dest'
FIRST = b'content of the first save with this saver object\n'
BIG = 3 * 8192 + 5


def body_plan(kind):
    """List of body statements: ('write', data) | ('flush',) | ('seek', pos).  Data as str (encoded for binary)."""
    if kind == 'none':
        return []
    if kind == 'one':
        return [('write', 'new-1\n')]
    if kind == 'two':
        return [('write', 'second-save\n'), ('write', 'more\n')]
    if kind == 'many':
        return [('write', 'line-%d\n' % i) for i in range(5)]
    if kind == 'big':
        return [('write', ''.join(chr(97 + (i * 7) % 26) for i in range(BIG)))]
    if kind == 'mix':
        return [('write', 'head\n'), ('write', 'Z' * BIG), ('write', 'tail\n')]
    if kind == 'flush':
        return [('write', 'first\n'), ('flush',), ('write', 'second\n')]
    if kind == 'seek':
        return [('write', 'abcdefghij'), ('seek', 3), ('write', 'XYZ'), ('seek', 10), ('write', '!\n')]
    if kind == 'bigflush':
        return [('write', 'Q' * BIG), ('flush',), ('write', 'R' * 9000), ('write', 'end\n')]
    if kind == 'huge':           # beyond every buffer-size threshold one might meet (a 2 MiB write, then 64 KiB pieces)
        return [('write', 'H' * (2 * 1024 * 1024 + 3))] + [('write', chr(65 + i) * 65536) for i in range(4)] + [('write', 'end\n')]
    if kind == 'sysexit':        # the process ends itself inside the block (sys.exit(), a SIGTERM handler ...)
        return [('write', 'half-of-the-new-content\n'), ('flush',), ('abort', 'SystemExit'), ('write', 'never\n')]
    if kind == 'kbint':
        return [('write', 'X' * BIG), ('abort', 'KeyboardInterrupt')]
    if kind == 'raises':         # an ordinary error inside the block after a partial (flushed) write
        return [('write', 'half-of-the-new-content\n'), ('flush',), ('abort', 'ValueError'), ('write', 'never\n')]
    if kind == 'closes':         # the body closes the part file itself (a nested `with f:`) and ends normally
        return [('write', 'written-then-closed-by-the-body\n'), ('close',)]
    if kind == 'samelen':        # as long as the old content, on a file system with coarse timestamps (1-2 s ticks on ext3,
        # FAT, many network mounts): the part file carries the very mtime of the destination it is about to replace
        return [('write', 'NEW-CONTENT-9876543210\n'), ('flush',), ('stamp',)]
    raise AssertionError(kind)


def stamp_like_dest(f, dest):
    """Both files were last written within one tick of the file system's clock."""
    try:
        st = os.stat(dest)
    except OSError:
        return
    os.utime(f.fileno(), ns=(st.st_atime_ns, st.st_mtime_ns))


def expected_content(plan):
    buf = bytearray()
    pos = 0
    for st in plan:
        if st[0] == 'write':
            data = st[1].encode('utf-8')
            buf[pos:pos + len(data)] = data
            pos += len(data)
        elif st[0] == 'seek':
            pos = st[1]
    return bytes(buf)


def configs(tier):
    out = []
    bodies = ['none', 'one', 'many', 'big', 'mix', 'flush', 'seek', 'bigflush']
    for text in (False, True):
        for present in (False, True):
            for overwrite in ((True, False) if not present else (True,)):
                for perms in (None, 0o600):
                    for b in bodies:
                        out.append({'text_mode': text, 'dest_present': present, 'overwrite': overwrite,
                                    'file_perms': perms, 'body': b})
    base = list(out)
    # non-default buffering (unbuffered binary, line-buffered text, tiny buffer) on the bodies that write
    for c in base:
        if c['file_perms'] is None and c['body'] in ('one', 'mix', 'flush', 'seek'):
            for buf in ((0, 16) if not c['text_mode'] else (1, 16)):
                out.append(dict(c, buffering=buf))
    # a stale part file taken over with overwrite_part=True: independent file, or (left by a save that died between
    # link and unlink) a second hard link of the destination
    for c in base:
        if c['file_perms'] is None and c['body'] in ('none', 'one', 'big') and c['overwrite']:
            kinds = ['stale'] + (['hardlink'] if c['dest_present'] else [])
            for kind in kinds:
                out.append(dict(c, overwrite_part=True, part=kind))
    # the process leaves the with-block through SystemExit / KeyboardInterrupt after a partial write
    for c in base:
        if c['file_perms'] is None and c['body'] == 'one':
            for b in ('sysexit', 'kbint'):
                out.append(dict(c, body=b))
    # the body closes the part file itself; a destination name at the file-name length limit (no room for ".part")
    for c in base:
        if c['file_perms'] is None and c['body'] == 'one':
            out.append(dict(c, body='closes'))
            if c['overwrite']:
                out.append(dict(c, dest_name='n' * 251 + '.txt'))
    # a write-protected destination (0444 / 0400: a generated file, a lock file); an error inside the block with either
    # setting of rm_part_on_exc (keeping the part file for inspection is a documented choice; publishing it is not);
    # the sync of the part file fails (EIO / ENOSPC from fsync): the data is not durable, nothing may be published
    for c in base:
        if c['file_perms'] is None and c['body'] in ('one', 'big') and c['overwrite'] and c['dest_present']:
            for mode in (0o444, 0o400):
                out.append(dict(c, dest_mode=mode))
        if c['file_perms'] is None and c['body'] == 'one':
            for rm in (True, False):
                for b in ('raises', 'sysexit', 'kbint'):
                    if rm and b != 'raises':
                        continue
                    out.append(dict(c, body=b, rm_part_on_exc=rm))
        if c['file_perms'] is None and c['body'] in ('one', 'big', 'flush'):
            for en in ('EIO', 'ENOSPC'):
                out.append(dict(c, fsync_fails=en))
    # new content exactly as long as the old one, written within the same tick of a coarse file-system clock
    for c in base:
        if c['file_perms'] is None and c['body'] == 'one' and c['overwrite'] and c['dest_present']:
            out.append(dict(c, body='samelen'))
            out.append(dict(c, body='samelen', api='manual'))
            out.append(dict(c, body='samelen', api='reuse'))
    # other ways of using the class than one `with atomic_save(...)`: ONE AtomicSaver object used for two saves in a row
    # ('reuse': first a complete save of FIRST, then the body), the documented explicit form setup() / part_file.write /
    # __exit__(None, None, None) ('manual'), and an explicit-form saver that is abandoned after a partial write and
    # garbage-collected ('abandon': nothing may be published)
    for c in base:
        if c['file_perms'] is None and c['body'] in ('one', 'big', 'none') and c['overwrite']:
            for api in ('reuse', 'manual', 'abandon'):
                if api == 'abandon' and c['body'] == 'none':
                    continue
                out.append(dict(c, api=api))
    for c in base:
        if c['file_perms'] is None and c['body'] == 'one' and c['overwrite'] and c['dest_present']:
            out.append(dict(c, body='huge'))
    # the destination has a second hard link (a `cp -l` snapshot): the save must still replace the *name*, never rewrite
    # the shared inode - the snapshot keeps the previous content
    for c in base:
        if c['file_perms'] is None and c['body'] in ('one', 'big', 'none') and c['overwrite'] and c['dest_present']:
            out.append(dict(c, dest_hardlinked=True))
    # a saver whose first, explicit-form attempt was given up after a partial write (no __exit__), used again with `with`:
    # refusing (the part file is in the way) or saving the second attempt's content are right, publishing a mixture is not
    for c in base:
        if c['file_perms'] is None and c['body'] in ('one', 'big') and c['overwrite']:
            for op in (False, True):
                out.append(dict(c, api='abandon_retry', overwrite_part=op))
    # the save runs while another exception is being handled (an error report written from an `except:` block), and the
    # saver object was built in this process but its with-block runs in a forked child (a pre-built saver handed to a
    # worker): a normal exit of the body must publish in both
    for c in base:
        if c['file_perms'] is None and c['body'] in ('one', 'big') and c['overwrite']:
            out.append(dict(c, api='inside_except'))
            out.append(dict(c, api='fork_child'))
    # two savers: B enters while A is leaving its with-block - after the k-th file-system event of A's exit (k beyond the
    # last event = right after A's exit).  B may be refused at entry (A's part file is still there); if it is let in and
    # its body ends normally, its save must complete and the destination must hold B's content
    for c in base:
        if c['file_perms'] is None and c['body'] == 'one' and not c['text_mode']:
            for k in range(0, 8):
                out.append(dict(c, interleaved=True, b_enters_after_exit_event=k))
    # two savers of one destination whose with-blocks overlap (the second one is refused, and retried)
    for c in base:
        if c['file_perms'] is None and c['body'] in ('one', 'big') and c['overwrite']:
            out.append(dict(c, interleaved=True))
    # the part file named by an absolute path on another file system (rename cannot be atomic there)
    for c in base:
        if c['file_perms'] is None and c['body'] in ('one', 'big') and c['overwrite'] and not c['text_mode']:
            out.append(dict(c, part_other_fs=True))
    return out


class Scenario:
    def __init__(self, cfg, d):
        self.cfg, self.d = cfg, d
        self.name = cfg.get('dest_name') or 'dest.txt'
        self.dest = os.path.join(d, self.name)
        self.plan = body_plan(cfg['body'])
        self.aborts = any(st[0] == 'abort' for st in self.plan)
        # complete contents the destination may legitimately show; none if the body never completes
        self.new = None if self.aborts else expected_content(self.plan)
        self.news = [] if self.aborts else [self.new]
        if cfg.get('interleaved'):
            self.new_b = b'CONTENT-OF-THE-SECOND-SAVER\n' * 3
            self.news.append(self.new_b)
        self.api = cfg.get('api')
        if self.api == 'reuse':
            self.news.append(FIRST)        # the complete content of the first save may be what a crash leaves
        if self.api == 'abandon':
            self.aborts, self.new, self.news = True, None, []
        self.other_dir = cfg.get('other_dir')

        self.initial = self.initial_state()
        ent = self.initial.get(self.name)
        self.old = None if ent is None else ent[1]

    def initial_state(self):
        """{name: (mode, content, link group)} - files of one group are hard links of each other."""
        cfg = self.cfg
        if cfg.get('initial') is not None:
            return {k: (v[0], v[1].encode('latin-1'), v[2]) for k, v in cfg['initial'].items()}
        st = {}
        if cfg['dest_present']:
            st[self.name] = (cfg.get('dest_mode', OLD_MODE), OLD, 0)
        if cfg.get('dest_hardlinked') and cfg['dest_present']:
            st[SNAPSHOT] = (cfg.get('dest_mode', OLD_MODE), OLD, 0)
        if cfg.get('part') == 'stale':
            st[self.name + '.part'] = (0o600, b'STALE-PART-FROM-AN-EARLIER-SAVE', 1)
        elif cfg.get('part') == 'hardlink':
            st[self.name + '.part'] = (OLD_MODE, OLD, 0)
        return st

    def prepare(self):
        os.makedirs(self.d)
        first = {}
        for name, (mode, data, grp) in sorted(self.initial.items()):
            p = os.path.join(self.d, name)
            if grp in first:
                os.link(first[grp], p)
                continue
            with open(p, 'wb') as f:
                f.write(data)
            os.chmod(p, mode)
            first[grp] = p

    def run(self, env):
        """Executes the save.  Returns None or the exception the caller saw."""
        from boltons import fileutils
        cfg = self.cfg
        proxy = envfaults.OSProxy(env)
        saved = fileutils.os
        fileutils.os = proxy
        try:
            kw = save_kwargs(cfg)
            if cfg.get('part_other_fs'):
                kw['part_file'] = os.path.join(self.other_dir, 'elsewhere-%d.part' % os.getpid())
            env.decide({'name': 'checkpoint', 'key': ('before with',)})
            if cfg.get('b_enters_after_exit_event') is not None:
                return self.run_interleaved_exit(env, fileutils, kw)
            if cfg.get('interleaved'):
                return self.run_interleaved(env, fileutils, kw)
            if self.api:
                return self.run_api(env, fileutils, kw)
            with fileutils.atomic_save(self.dest, **kw) as f:
                env.decide({'name': 'checkpoint', 'key': ('enter',)})
                for i, st in enumerate(self.plan):
                    if st[0] == 'write':
                        f.write(st[1] if cfg['text_mode'] else st[1].encode('utf-8'))
                    elif st[0] == 'flush':
                        f.flush()
                    elif st[0] == 'seek':
                        f.seek(st[1])
                    elif st[0] == 'close':
                        f.close()
                    elif st[0] == 'stamp':
                        stamp_like_dest(f, self.dest)
                    elif st[0] == 'abort':
                        raise {'SystemExit': SystemExit, 'KeyboardInterrupt': KeyboardInterrupt, 'ValueError': ValueError}[st[1]]('leaving')
                    env.decide({'name': 'checkpoint', 'key': ('body', i)})
            env.decide({'name': 'checkpoint', 'key': ('after with',)})
            return None
        except envfaults.Crash:
            raise
        except BaseException as e:      # noqa - SystemExit / KeyboardInterrupt bodies are part of the alphabet
            return e
        finally:
            fileutils.os = saved

    def do_plan(self, env, f):
        for i, st in enumerate(self.plan):
            if st[0] == 'write':
                f.write(st[1] if self.cfg['text_mode'] else st[1].encode('utf-8'))
            elif st[0] == 'flush':
                f.flush()
            elif st[0] == 'seek':
                f.seek(st[1])
            elif st[0] == 'stamp':
                stamp_like_dest(f, self.dest)
            env.decide({'name': 'checkpoint', 'key': ('body', i)})

    def run_api(self, env, fileutils, kw):
        import gc
        cfg = self.cfg
        saver = fileutils.AtomicSaver(self.dest, **kw)
        if self.api == 'reuse':
            with saver as f:
                f.write(FIRST.decode('utf-8') if cfg['text_mode'] else FIRST)
            env.decide({'name': 'checkpoint', 'key': ('first save done',)})
            with saver as f:
                env.decide({'name': 'checkpoint', 'key': ('enter',)})
                self.do_plan(env, f)
        elif self.api == 'manual':
            saver.setup()
            env.decide({'name': 'checkpoint', 'key': ('enter',)})
            self.do_plan(env, saver.part_file)
            saver.__exit__(None, None, None)
        elif self.api == 'inside_except':
            try:
                raise RuntimeError('the error being reported')
            except RuntimeError:
                with saver as f:
                    env.decide({'name': 'checkpoint', 'key': ('enter',)})
                    self.do_plan(env, f)
        elif self.api == 'fork_child':
            env.decide({'name': 'checkpoint', 'key': ('before fork',)})
            pid = os.fork()
            if pid == 0:
                code = 1
                try:
                    env.closed = True          # the child's file-system calls go straight to the OS
                    with saver as f:
                        for st in self.plan:
                            if st[0] == 'write':
                                f.write(st[1] if cfg['text_mode'] else st[1].encode('utf-8'))
                    code = 0
                finally:
                    os._exit(code)
            _, status = os.waitpid(pid, 0)
            env.decide({'name': 'checkpoint', 'key': ('child done',)})
            if os.waitstatus_to_exitcode(status) != 0:
                return RuntimeError('the save raised in the forked child')
        elif self.api == 'abandon_retry':
            saver.setup()
            saver.part_file.write('GIVEN-UP-ATTEMPT ' if cfg['text_mode'] else b'GIVEN-UP-ATTEMPT ')
            saver.part_file.flush()
            env.decide({'name': 'checkpoint', 'key': ('first attempt given up',)})
            with saver as f:
                env.decide({'name': 'checkpoint', 'key': ('enter',)})
                self.do_plan(env, f)
        else:                   # abandon: the caller never reaches __exit__ (an exception elsewhere, a forgotten call)
            saver.setup()
            self.do_plan(env, saver.part_file)
            saver.part_file.flush()
            env.decide({'name': 'checkpoint', 'key': ('before abandoning',)})
            del saver
            gc.collect()
            env.decide({'name': 'checkpoint', 'key': ('abandoned and collected',)})
            return None
        env.decide({'name': 'checkpoint', 'key': ('after with',)})
        return None

    def run_interleaved_exit(self, env, fileutils, kw):
        cfg = self.cfg
        k = cfg['b_enters_after_exit_event']
        text_a = ''.join(st[1] for st in self.plan if st[0] == 'write').encode('utf-8')
        A, B = fileutils.atomic_save(self.dest, **kw), fileutils.atomic_save(self.dest, **kw)
        st = {'n': None, 'fb': None, 'refused': None, 'done': False}

        def b_enters():
            st['done'] = True
            try:
                st['fb'] = B.__enter__()
            except OSError as e:
                st['refused'] = e

        def hook(env_, phase, ev):
            if phase != 'after' or st['n'] is None or st['done'] or ev['name'] in ('checkpoint', 'fdopen'):
                return
            st['n'] += 1
            if st['n'] == k + 1:
                b_enters()
        fa = A.__enter__()
        fa.write(text_a)
        env.hooks.append(hook)
        st['n'] = 0
        err = None
        try:
            A.__exit__(None, None, None)
        except OSError as e:
            err = e
        finally:
            env.hooks.remove(hook)
        if not st['done']:
            b_enters()
        env.decide({'name': 'checkpoint', 'key': ('A done',)})
        self.expect_final = self.new
        if st['fb'] is not None:
            st['fb'].write(self.new_b)
            try:
                B.__exit__(None, None, None)
                self.expect_final = self.new_b
            except OSError as e:
                err = err or RuntimeError('the second saver was let in, its body ended normally, its save raised %r' % (e,))
        env.decide({'name': 'checkpoint', 'key': ('after with',)})
        return err

    def run_interleaved(self, env, fileutils, kw):
        """Saver A is inside its with-block when saver B tries to save the same destination (B must be refused: the part
        file exists), B tries again, A finishes.  If B is (wrongly) let in, it writes half, A finishes, B finishes."""
        cfg = self.cfg
        enc = (lambda x: x) if cfg['text_mode'] else (lambda x: x.encode('utf-8'))
        text_a = ''.join(st[1] for st in self.plan if st[0] == 'write')
        text_b = self.new_b.decode('utf-8')
        A, B = fileutils.atomic_save(self.dest, **kw), fileutils.atomic_save(self.dest, **kw)
        fa = A.__enter__()
        fa.write(enc(text_a[:len(text_a) // 2]))
        env.decide({'name': 'checkpoint', 'key': ('A half',)})
        fb = None
        for attempt in (1, 2):
            try:
                fb = B.__enter__()
                break
            except OSError:
                env.decide({'name': 'checkpoint', 'key': ('B refused', attempt)})
        if fb is not None:
            fb.write(enc(text_b[:len(text_b) // 2]))
            fb.flush()
            env.decide({'name': 'checkpoint', 'key': ('B half',)})
        fa.write(enc(text_a[len(text_a) // 2:]))
        err = None
        try:
            A.__exit__(None, None, None)
        except OSError as e:
            err = e
        env.decide({'name': 'checkpoint', 'key': ('A done',)})
        if fb is not None:
            fb.write(enc(text_b[len(text_b) // 2:]))
            try:
                B.__exit__(None, None, None)
            except OSError as e:
                err = err or e
        env.decide({'name': 'checkpoint', 'key': ('after with',)})
        return err


def save_kwargs(cfg):
    kw = {'text_mode': cfg['text_mode'], 'overwrite': cfg['overwrite']}
    if cfg['file_perms'] is not None:
        kw['file_perms'] = cfg['file_perms']
    if cfg.get('buffering') is not None:
        kw['buffering'] = cfg['buffering']
    if cfg.get('overwrite_part'):
        kw['overwrite_part'] = True
    if cfg.get('rm_part_on_exc') is not None:
        kw['rm_part_on_exc'] = cfg['rm_part_on_exc']
    return kw


def link_state(raw):
    """{name: [mode, content(latin-1), link group]} from a raw snapshot (files with one inode share a group)."""
    groups = {}
    out = {}
    for name in sorted(raw):
        mode, data, ino = raw[name]
        g = groups.setdefault(ino, len(groups))
        out[name] = [mode, data.decode('latin-1'), g]
    return out


def norm_snap(snap):
    return {k: (v[0], v[1]) for k, v in snap.items()}


def dest_ok(snap, sc):
    """dest content in {old or absent, complete new}; returns None if ok else description."""
    ent = snap.get(sc.name)
    if ent is None:
        return None if sc.old is None else 'destination vanished'
    data = ent[1]
    if sc.old is not None and data == sc.old:
        return None
    if data in sc.news:
        return None
    return 'destination holds %d bytes that are neither the previous nor the complete new content (new=%s bytes): %r' \
        % (len(data), [len(n) for n in sc.news], data[:40])


# ----------------------------------------------------------------------------------------------------
# power-loss model

def durable_states(log, k, sc):
    """All durable (name -> content) views of dest after a power loss following the first k log events.
    Model: metadata operations persist in order, any prefix; a raw write issued after the file's last completed fsync may be
    lost independently of the others (holes read as zeros)."""
    files = {}          # fid -> {'writes': [(off, data, synced)], }
    names = {}          # name -> fid   (volatile namespace as executed)
    fdmap = {}
    meta = []           # metadata ops in order: ('bind', name, fid) / ('unbind', name)
    nextfid = [0]
    for name, (mode, data, grp) in sorted(sc.initial.items()):
        fid = 'init%d' % grp
        files.setdefault(fid, {'writes': [[0, data, True]]})
        names[name] = fid
    base_names = dict(names)
    for ev in log[:k]:
        nm = ev['name']
        res = ev.get('result')
        failed = isinstance(res, str) and res.startswith('errno')
        if failed:
            continue
        if nm == 'open':
            path = os.path.basename(ev['args'][0])
            flags = ev['args'][1] if len(ev['args']) > 1 else 0
            if path not in names and flags & os.O_CREAT:
                fid = 'f%d' % nextfid[0]; nextfid[0] += 1
                files[fid] = {'writes': []}
                names[path] = fid
                meta.append(('bind', path, fid))
            elif path in names and flags & os.O_TRUNC:
                files[names[path]]['writes'].append([None, b'', False])     # truncation of an existing file
            fdmap[res] = names.get(path)
        elif nm == 'raw_write':
            fid = fdmap.get(ev['fd'])
            if fid is not None:
                files[fid]['writes'].append([ev['offset'], ev['data'], False])
        elif nm in ('fsync', 'fdatasync'):
            fid = fdmap.get(ev['args'][0])
            if fid is not None:
                for w in files[fid]['writes']:
                    w[2] = True
        elif nm in ('rename', 'replace'):
            src, dst = (os.path.basename(x) for x in ev['args'][:2])
            if src in names:
                names[dst] = names.pop(src)
                meta.append(('rename', src, dst))
        elif nm == 'link':
            src, dst = (os.path.basename(x) for x in ev['args'][:2])
            if src in names:
                names[dst] = names[src]
                meta.append(('bind', dst, names[src]))
        elif nm in ('unlink', 'remove'):
            p = os.path.basename(ev['args'][0])
            if p in names:
                names.pop(p)
                meta.append(('unbind', p))
    states = []
    for j in range(len(meta) + 1):
        ns = dict(base_names)
        for m in meta[:j]:
            if m[0] == 'bind':
                ns[m[1]] = m[2]
            elif m[0] == 'unbind':
                ns.pop(m[1], None)
            elif m[0] == 'rename':
                if m[1] in ns:
                    ns[m[2]] = ns.pop(m[1])
        fid = ns.get(sc.name)
        if fid is None:
            states.append((j, None, None))
            continue
        ws = files[fid]['writes']
        vol = [i for i, w in enumerate(ws) if not w[2]]
        if len(vol) > 12:
            vol = vol[-12:]        # cap (reported): older unsynced writes treated as durable
        for keep in itertools.product((True, False), repeat=len(vol)):
            lost = {i for i, kp in zip(vol, keep) if not kp}
            buf = bytearray()
            for i, (off, data, _) in enumerate(ws):
                if i in lost:
                    continue
                if off is None:
                    buf = bytearray()
                    continue
                if len(buf) < off:
                    buf.extend(b'\0' * (off - len(buf)))
                buf[off:off + len(data)] = data
            states.append((j, tuple(sorted(lost)), bytes(buf)))
    return states


def check_log_order(log, sc, bad, exc=None, _second=False):
    if sc.cfg.get('interleaved') or sc.cfg.get('part_other_fs') or sc.api == 'fork_child':
        return          # two savers / a foreign part path / a save whose events happen in a child process: the
        # single-save ordering rules below do not apply
    if sc.api == 'reuse' and not _second:
        # two saves in a row: the single-save rules apply to the events after the first save's publication
        for i, ev in enumerate(log):
            if ev['name'] in ('rename', 'replace', 'link') and not str(ev.get('result', '')).startswith('errno') \
                    and len(ev['args']) > 1 and ev['args'][1] == sc.dest:
                return check_log_order(log[i + 1:], sc, bad, exc, True)
        bad('order', 'publishing calls', 'one rename/link onto the destination per save', 0)
        return
    if (sc.cfg.get('dest_name') or sc.cfg['body'] == 'closes' or sc.api == 'abandon_retry') and exc is not None:
        # a refused save: nothing may have been published
        for ev in log:
            if ev['name'] in ('rename', 'replace', 'link') and not str(ev.get('result', '')).startswith('errno') \
                    and len(ev['args']) > 1 and ev['args'][1] == sc.dest:
                bad('order', 'publishing call by a save that raised', 'no rename/link onto the destination', ev['name'])
        return
    part = sc.dest + '.part'
    idx = {n: [] for n in ('raw_write', 'fsync', 'raw_close', 'publish', 'open_part')}
    for i, ev in enumerate(log):
        nm = ev['name']
        failed = isinstance(ev.get('result'), str) and str(ev['result']).startswith('errno')
        if nm == 'raw_write' and ev.get('path') == part:
            idx['raw_write'].append(i)
        elif nm == 'fsync' and ev.get('path') == part:
            idx['fsync'].append(i)
        elif nm == 'raw_close' and ev.get('path') == part:
            idx['raw_close'].append(i)
        elif nm in ('rename', 'replace', 'link') and not failed and len(ev['args']) > 1 and ev['args'][1] == sc.dest:
            idx['publish'].append(i)
        elif nm == 'open':
            if ev['args'][0] == sc.dest:
                bad('order', 'destination opened directly', 'only the part file is opened', repr(ev['args']))
            elif os.path.dirname(ev['args'][0]) == os.path.dirname(sc.dest):
                idx['open_part'].append(i)
                flags = ev['args'][1]
                if not (flags & os.O_EXCL and flags & os.O_CREAT):
                    bad('order', 'part file not created exclusively', 'O_CREAT|O_EXCL', oct(flags))
            else:
                bad('order', 'temporary file outside the destination directory', os.path.dirname(sc.dest),
                    ev['args'][0])
        elif nm in ('truncate', 'write', 'sendfile', 'copy_file_range'):
            bad('order', 'unexpected %s call' % nm, 'none', repr(ev.get('args')))
    if sc.aborts:
        if idx['publish']:
            bad('order', 'publishing call although the body did not complete', 'no rename/link onto the destination',
                len(idx['publish']))
        return
    if sc.cfg.get('fsync_fails'):
        if idx['publish']:
            bad('order', 'publishing call although the part file could not be synced',
                'no rename/link onto the destination', len(idx['publish']))
        return
    if len(idx['publish']) != 1:
        bad('order', 'publishing calls', 'exactly one rename/link onto the destination', len(idx['publish']))
        return
    pub = idx['publish'][0]
    if not idx['fsync']:
        bad('order', 'no fsync of the part file before publication', 'fsync', 'none')
        return
    fs = idx['fsync'][-1]
    if idx['raw_write'] and idx['raw_write'][-1] > fs:
        bad('order', 'data written after the last fsync', 'last raw write < fsync', 'write after fsync')
    if fs > pub:
        bad('order', 'fsync after publication', 'fsync < publish', 'publish first')
    if not idx['raw_close'] or idx['raw_close'][-1] > pub:
        bad('order', 'part file closed after publication', 'close < publish', 'publish first')


# ----------------------------------------------------------------------------------------------------

class FsyncFailsEnv(envfaults.Env):
    """The environment of the configurations with `fsync_fails`: every fsync/fdatasync takes its one alternative."""

    def __init__(self, en):
        super().__init__(menu=lambda ev: [('raise', en)] if ev['name'] in ('fsync', 'fdatasync') else [])

    def decide(self, ev):
        if not self.closed and ev['name'] in ('fsync', 'fdatasync'):
            self.script = self.choices + [1]
        return super().decide(ev)


def make_env(cfg):
    if cfg.get('fsync_fails'):
        import errno
        return FsyncFailsEnv(getattr(errno, cfg['fsync_fails']))
    return envfaults.Env()


def run_config(task):
    cfg, base, do_fork = task
    from mc.inputs import Tally
    t = Tally()
    tag = json.dumps(cfg, sort_keys=True)
    d = os.path.join(base, 'c%d' % abs(hash(tag)))
    shutil.rmtree(d, ignore_errors=True)
    sc = Scenario(cfg, d)
    sc.prepare()

    def bad(kind, what, exp, obs, extra=None):
        t.bad('C04|%s|%s' % (kind, what), {'config': cfg, 'detail': extra}, exp, obs)

    snaps = {}        # point index -> snapshot before that point
    env = make_env(cfg)

    def hook(env_, phase, ev):
        pass
    # snapshot before every point: wrap decide
    orig_decide = env.decide

    raw_states = {}

    def decide(ev):
        raw = envfaults.snapshot(d)
        snaps[len(env.choices)] = norm_snap(raw)
        st = link_state(raw)
        raw_states.setdefault(json.dumps(st, sort_keys=True), st)
        return orig_decide(ev)
    env.decide = decide
    exc = sc.run(env)
    env.closed = True
    final = norm_snap(envfaults.snapshot(d))
    npoints = len(env.points)
    t.add('events', len(env.log))
    t.add('crash_points', npoints + 1)
    # 3. normal completion
    fdest = final.get(sc.name, (None, None))[1]
    if sc.api == 'abandon':
        # nobody called __exit__: whatever the object does when it is collected, it must not publish the partial content
        if exc is not None:
            bad('normal', 'abandoned saver raised', 'no exception', repr(exc))
        if fdest != sc.old:
            bad('normal', 'destination after an abandoned save', sc.old, fdest)
    elif sc.aborts:
        # the body left through SystemExit/KeyboardInterrupt: that exception reaches the caller, nothing is published
        if not isinstance(exc, (SystemExit, KeyboardInterrupt, ValueError)):
            bad('normal', 'exception of an aborted body', 'the exception of the body propagates', repr(exc))
        if fdest != sc.old:
            bad('normal', 'destination after an aborted body', sc.old, fdest)
    elif cfg.get('fsync_fails'):
        # the part file could not be made durable: the save must fail with the destination untouched
        if not isinstance(exc, OSError):
            bad('normal', 'save after a failed fsync', 'OSError reaches the caller', repr(exc))
        if fdest != sc.old:
            bad('normal', 'destination after a failed fsync', sc.old, fdest)
    elif cfg.get('part_other_fs') or cfg.get('dest_name') or cfg['body'] == 'closes' or sc.api == 'abandon_retry':
        # a rename across file systems cannot be atomic; a 255-character name leaves no room for the part file's suffix; a
        # part file closed by the body cannot be flushed and synced any more: refusing (an exception) with the destination
        # untouched is right, so is completing the save properly - a half-way result is not
        ok = (isinstance(exc, Exception) and fdest == sc.old) or (exc is None and fdest == sc.new)
        if not ok:
            bad('normal', 'part file on another file system', 'OSError and destination untouched, or a completed save',
                (repr(exc), fdest if fdest is None else fdest[:40]))
    elif exc is not None:
        bad('normal', 'save raised', 'no exception', repr(exc))
    else:
        if getattr(sc, 'expect_final', None) is not None and fdest != sc.expect_final:
            bad('normal', 'destination content after both savers finished', sc.expect_final[:60], fdest)
        elif fdest != sc.news[0] and not (cfg.get('interleaved') and fdest in sc.news):
            bad('normal', 'destination content after normal exit', sc.news[0][:60], fdest)
        left = sorted(k for k in final if k != sc.name and k != SNAPSHOT)
        if left:
            bad('normal', 'files left behind', [], left)
    if SNAPSHOT in sc.initial:
        # every state, crash or not: the other hard link keeps the previous content
        for i, snap in sorted(snaps.items()) + [('end', final)]:
            ent = snap.get(SNAPSHOT)
            if ent is None or ent[1] != OLD:
                bad('crash', 'another hard link of the previous file was rewritten', OLD[:30],
                    None if ent is None else ent[1][:30], {'crash_before_point': i})
                break
    # 1. process death at every point
    for i in range(npoints + 1):
        snap = snaps.get(i, final) if i < npoints else final
        t.count(nontrivial=(sc.name + '.part' in snap or (i > 0 and snap != snaps.get(0))),
                sample={'config': cfg, 'crash_before_point': i, 'event': env.points[i][2] if i < npoints else 'end'})
        why = dest_ok(snap, sc)
        if why:
            bad('crash', 'process death', 'dest in {previous, complete new}', why,
                {'crash_before_point': i, 'event': env.points[i][2] if i < npoints else 'end'})
    # 2. power loss after every log prefix
    nstates = 0
    for k in range(len(env.log) + 1):
        for j, lost, content in durable_states(env.log, k, sc):
            nstates += 1
            if content is None:
                if sc.old is not None:
                    bad('crash', 'power loss', 'dest in {previous, complete new}', 'destination name lost',
                        {'log_prefix': k, 'metadata_prefix': j})
                continue
            if content in sc.news or (sc.old is not None and content == sc.old):
                continue
            bad('crash', 'power loss', 'dest in {previous, complete new}',
                'durable destination holds %d bytes, neither previous nor complete new content' % len(content),
                {'log_prefix': k, 'metadata_prefix': j, 'lost_writes': lost,
                 'events': [e['name'] for e in env.log[:k]]})
    t.add('power_loss_states', nstates)
    t.count(nontrivial=True, n=0)
    t.evaluations += nstates
    t.nontrivial += nstates
    # log order
    check_log_order(env.log, sc, lambda *a: bad(*a), exc)
    # conformance (a): fork-kill at every point
    if do_fork:
        for i in range(npoints):
            d2 = d + '-k%d' % i
            shutil.rmtree(d2, ignore_errors=True)
            sc2 = Scenario(cfg, d2)
            sc2.prepare()
            pid = os.fork()
            if pid == 0:
                try:
                    env2 = make_env(cfg)
                    env2.child_exit_at = i
                    sc2.run(env2)
                finally:
                    os._exit(78)
            _, status = os.waitpid(pid, 0)
            code = os.waitstatus_to_exitcode(status)
            real = norm_snap(envfaults.snapshot(d2))
            t.add('fork_kill_replays')
            if code != 77:
                bad('conformance', 'fork-kill child did not reach the crash point', 77, code, {'point': i})
            elif i not in snaps:
                bad('conformance', 'crash point of the re-run has no counterpart in the in-process run',
                    'the same sequence of events in both runs', 'point %d of %d' % (i, len(snaps)), {'point': i})
            elif real != snaps[i]:
                bad('conformance', 'directory after a real kill differs from the in-process snapshot',
                    {k: (v[0], len(v[1])) for k, v in snaps[i].items()},
                    {k: (v[0], len(v[1])) for k, v in real.items()}, {'point': i, 'event': env.points[i][2]})
            why = dest_ok(real, sc)
            if why:
                bad('crash', 'process death (real kill)', 'dest in {previous, complete new}', why, {'point': i})
            shutil.rmtree(d2, ignore_errors=True)
    t.extra['log_sample'] = 0
    shutil.rmtree(d, ignore_errors=True)
    t.crash_states = list(raw_states.values())
    return t, [(e['name'],) + tuple(a if not isinstance(a, str) else os.path.basename(a) for a in e.get('args', ()))
               for e in env.log]


# ----------------------------------------------------------------------------------------------------
# strace conformance: the same scenario, unpatched, in a child interpreter under strace

DRIVER = r'''
import json, os, sys
sys.path.insert(0, sys.argv[1])
cfg = json.loads(sys.argv[2]); d = sys.argv[3]
sys.path.insert(0, sys.argv[4])
from checks import c04_atomic_crash as m
sc = m.Scenario(cfg, d)
class NullEnv:
    def decide(self, ev): return None
from boltons import fileutils
kw = m.save_kwargs(cfg)
if cfg.get('part_other_fs'): kw['part_file'] = os.path.join(cfg['other_dir'], 'elsewhere-%d.part' % os.getpid())
os.write(1, b'BEGIN\n')
try:
    with fileutils.atomic_save(sc.dest, **kw) as f:
        for st in sc.plan:
            if st[0] == 'write': f.write(st[1] if cfg['text_mode'] else st[1].encode('utf-8'))
            elif st[0] == 'flush': f.flush()
            elif st[0] == 'seek': f.seek(st[1])
except OSError:
    if not cfg.get('part_other_fs'): raise
os.write(1, b'END\n')
'''


def strace_run(task):
    import re
    cfg, base, names = task
    d = os.path.join(base, 's%d' % abs(hash(json.dumps(cfg, sort_keys=True))))
    shutil.rmtree(d, ignore_errors=True)
    sc = Scenario(cfg, d)
    sc.prepare()
    out = d + '.strace'
    cmd = ['strace', '-f', '-o', out, '-e', 'trace=%file,%desc,fsync,fdatasync,write', '-s', '16',
           sys.executable, '-c', DRIVER, core.repo_root(), json.dumps(cfg), d, core.VERIF]
    p = subprocess.run(cmd, stdout=subprocess.PIPE, stderr=subprocess.PIPE, timeout=120,
                       env=dict(os.environ, PYTHONDONTWRITEBYTECODE='1'))
    res = {'config': cfg, 'ok': p.returncode == 0, 'stderr': p.stderr.decode()[-300:], 'problems': []}
    try:
        lines = open(out, encoding='latin-1').read().splitlines()
    except OSError:
        lines = []
    # keep syscalls between the BEGIN and END markers that touch the scratch directory or an fd opened in it
    seq, fds, active = [], set(), False
    for ln in lines:
        m = re.match(r'^\d+\s+(\w+)\((.*)\)\s+=\s+(-?\d+|\?)', ln)
        if not m:
            continue
        name, args, ret = m.group(1), m.group(2), m.group(3)
        if name == 'write' and args.startswith('1, "BEGIN'):
            active = True
            continue
        if name == 'write' and args.startswith('1, "END'):
            active = False
            continue
        if not active:
            continue
        touches = d in args
        fdm = re.match(r'^(\d+)[,)]?', args)
        onfd = fdm and int(fdm.group(1)) in fds and name not in ('openat', 'open')
        if not (touches or onfd):
            continue
        if name in ('openat', 'open') and ret not in ('?',) and int(ret) >= 0:
            fds.add(int(ret))
        if name == 'close' and fdm and int(fdm.group(1)) in fds:
            fds.discard(int(fdm.group(1)))
        seq.append((name, args, ret))
    res['syscalls'] = [(n, r) for n, a, r in seq]
    # the destination path may appear only in stat-like calls and as the *target* of rename/link
    for name, args, ret in seq:
        if ('"%s"' % sc.dest) in args:
            if name in ('stat', 'lstat', 'newfstatat', 'statx', 'access', 'faccessat', 'faccessat2', 'readlink'):
                continue
            if name in ('rename', 'renameat', 'renameat2', 'link', 'linkat'):
                parts = re.findall(r'"([^"]*)"', args)
                if parts and parts[-1] == sc.dest and parts[0] != sc.dest:
                    continue
            res['problems'].append('destination touched by %s(%s)' % (name, args))
    # normalised comparison with the proxy's event log
    norm = []
    for name, args, ret in seq:
        if name in ('openat', 'open'):
            norm.append('open')
        elif name in ('rename', 'renameat', 'renameat2'):
            norm.append('rename')
        elif name in ('link', 'linkat'):
            norm.append('link')
        elif name in ('unlink', 'unlinkat'):
            norm.append('unlink')
        elif name in ('chmod', 'fchmodat', 'fchmod'):
            norm.append('chmod')
        elif name in ('fsync', 'fdatasync'):
            norm.append('fsync')
        elif name == 'write':
            norm.append('raw_write')
        elif name == 'close':
            norm.append('raw_close')
        elif name in ('ftruncate', 'truncate', 'sendfile', 'copy_file_range', 'pwrite64', 'writev'):
            norm.append(name)
    want = [n for n in names if n in ('open', 'rename', 'link', 'unlink', 'chmod', 'fsync', 'raw_write', 'raw_close',
                                      'replace')]
    want = ['rename' if n == 'replace' else n for n in want]
    final = norm_snap(envfaults.snapshot(d))
    fdest = final.get(sc.name, (None, None))[1]
    if cfg.get('part_other_fs'):
        # the part file lives outside the traced directory: only the rule about the destination path is checked
        if not (fdest == sc.old or fdest == sc.new):
            res['problems'].append('unpatched run left %r' % {k: len(v[1]) for k, v in final.items()})
    else:
        if norm != want:
            res['problems'].append('syscall sequence %r differs from traced event sequence %r' % (norm, want))
        if fdest != sc.new or sorted(k for k in final if k != SNAPSHOT) != [sc.name]:
            res['problems'].append('unpatched run left %r' % {k: len(v[1]) for k, v in final.items()})
    shutil.rmtree(d, ignore_errors=True)
    try:
        os.unlink(out)
    except OSError:
        pass
    return res


def run(ctx):
    from mc import inputs
    base = core.scratch_dir('c04')
    other = None
    try:
        cfgs = configs(ctx.tier)
        other = None
        for cand in ('/var/tmp', '/tmp', os.path.expanduser('~')):
            try:
                if os.stat(cand).st_dev != os.stat(base).st_dev and os.access(cand, os.W_OK):
                    import tempfile
                    other = tempfile.mkdtemp(prefix='verif-c04-otherfs-', dir=cand)
                    break
            except OSError:
                pass
        if other is None:
            ctx.note('no second file system available: part_other_fs configurations skipped')
            cfgs = [c for c in cfgs if not c.get('part_other_fs')]
        else:
            cfgs = [dict(c, other_dir=other) if c.get('part_other_fs') else c for c in cfgs]
        tasks = [(cfg, base, True) for cfg in cfgs]
        results = core.pmap(run_config, tasks, chunksize=2)
        total = inputs.Tally()
        for t, _ in results:
            total.merge(t)
        # second wave - histories of two saves: every distinct directory state in which a first save can die is the
        # initial state of a recovery save (overwrite_part=True), whose crash points are enumerated in turn
        seen2, tasks2 = set(), []
        for (cfg, _, _), (t, _) in zip(tasks, results):
            if cfg.get('initial') is not None or cfg['body'] not in ('one', 'big') or cfg['file_perms'] is not None \
                    or cfg.get('buffering') is not None:
                continue
            for st in t.crash_states:
                if 'dest.txt.part' not in st:
                    continue
                for body2 in (('two',) if ctx.quick() else ('two', 'none', 'mix')):
                    cfg2 = {'text_mode': cfg['text_mode'], 'dest_present': 'dest.txt' in st, 'overwrite': True,
                            'file_perms': None, 'body': body2, 'overwrite_part': True, 'initial': st}
                    key = json.dumps(cfg2, sort_keys=True)
                    if key not in seen2:
                        seen2.add(key)
                        tasks2.append((cfg2, base, not ctx.quick()))
        results2 = core.pmap(run_config, tasks2, chunksize=2)
        for t, _ in results2:
            total.merge(t)
        ctx.coverage['two_save_histories'] = len(tasks2)
        for key in sorted(total.viols):
            case, exp, obs, detail, tags, occ, sig = total.viols[key]
            ctx.violation(sig, case, exp, obs, detail, tags)
            ctx.add_occurrences(sig, occ - 1, tags)
        cov = ctx.coverage
        cov['evaluations'] = total.evaluations
        cov['distinct_nontrivial'] = total.nontrivial
        cov['configurations'] = len(cfgs)
        cov.update({k: v for k, v in total.extra.items() if k != 'log_sample'})
        cov['samples'] = [core.jsonable(s) for s in total.samples[:3]]
        cov['samples'].append({'config': cfgs[0], 'event_log': [list(map(str, e)) for e in results[0][1]]})
        # strace conformance
        if shutil.which('strace'):
            # the strace driver runs one plain `with atomic_save(...)` whose body writes, flushes and seeks: every such
            # configuration in the thorough tier
            plain = ('none', 'one', 'two', 'many', 'big', 'mix', 'flush', 'seek', 'bigflush', 'huge')
            sel = [i for i, c in enumerate(cfgs) if not c.get('interleaved') and not c.get('fsync_fails')
                   and not c.get('api') and not c.get('dest_name') and c['body'] in plain] \
                if not ctx.quick() else \
                [i for i, c in enumerate(cfgs) if c['body'] in ('mix', 'seek') and c['file_perms'] is None
                 and c.get('buffering') is None][:6] + \
                [i for i, c in enumerate(cfgs) if c.get('buffering') == 0][:2] + \
                [i for i, c in enumerate(cfgs) if c.get('part')][:3] + \
                [i for i, c in enumerate(cfgs) if c.get('part_other_fs')][:2]
            stasks = [(cfgs[i], base, [e[0] for e in results[i][1]]) for i in sel]
            sres = core.pmap(strace_run, stasks)
            cov['strace_traces_compared'] = len(sres)
            for r in sres:
                if not r['ok']:
                    ctx.violation('C04|conformance|unpatched run under strace failed', {'config': r['config']},
                                  'exit 0', r['stderr'])
                for pb in r['problems']:
                    kind = pb.split(' ')[0] + ' ' + pb.split(' ')[1]
                    ctx.violation('C04|conformance|strace: %s' % kind, {'config': r['config']}, 'conforms', pb)
            cov['samples'].append({'strace_syscalls': sres[0]['syscalls'][:40], 'config': sres[0]['config']})
        else:
            cov['strace_traces_compared'] = 0
            ctx.note('strace not available: syscall conformance skipped')
        cov['rule'] = ('one evaluation = one crash state examined: a process-death snapshot at a crash point, or one '
                       'durable power-loss state (log prefix x metadata prefix x subset of unsynced raw writes lost); '
                       'non-trivial = the part file exists or the directory differs from the initial one, and every '
                       'power-loss state')
        cov['exhaustive'] = True
        cov['bounds'] = {'bodies': ['none', 'one', 'many', 'big', 'mix', 'flush', 'seek', 'bigflush'],
                         'big_write_bytes': BIG, 'max_unsynced_writes_enumerated': 12}
        ctx.note('two-save histories=%d' % len(tasks2))
        ctx.note('configs=%d crash_points=%d power_loss_states=%d fork_kill=%d strace=%d'
                 % (len(cfgs), cov.get('crash_points', 0), cov.get('power_loss_states', 0),
                    cov.get('fork_kill_replays', 0), cov.get('strace_traces_compared', 0)))
        ctx.assumptions += ['power-loss model: metadata operations persist in order (any prefix); raw writes after the '
                            'last fsync of the file may each be lost; holes read as zeros',
                            'the traced seam (fileutils.os proxy + traced raw FileIO) sees every file-system action of '
                            'the save - validated by fork-kill and strace conformance']
    finally:
        shutil.rmtree(base, ignore_errors=True)
        if other is not None:
            shutil.rmtree(other, ignore_errors=True)


def replay(ctx, data):
    base = core.scratch_dir('c04r')
    try:
        t, _ = run_config((data['case']['config'], base, True))
        return ['%s: expected %r observed %r' % (sig, v[1], v[2]) for sig, v in sorted(t.viols.items())]
    finally:
        shutil.rmtree(base, ignore_errors=True)

"""C07 - URL.navigate implements RFC 3986 section 5.2 reference resolution, normalized result.

Engine E2 (mc.inputs): bounded exhaustive enumeration.  Every (base URL, relative reference) pair of a stated
finite space is resolved by the real ``boltons.urlutils.URL.navigate`` and by a literal transcription of
RFC 3986 section 5.2.2 (transform references), 5.2.3 (merge) and 5.2.4 (remove_dot_segments) that works on
strings only and shares nothing with boltons' tuple-of-segments representation.

Parts
  navigate        bases x every reference path of <= N segments over {. .. '' g h} x {path-absolute,
                  path-relative, empty path} x {no query, ?y, ?} x {no fragment, #s}
  navigate-names  the same with segments that merely look like dot segments ('...', '.g', 'g..')
  navigate-delims queries and fragments that contain the characters they may legally contain ('/', '?', ':', '@') up
                  to whole URLs ('n=http://x/y', '#x://h/p', '?//h/p'): text that merely looks like a scheme, an
                  authority or a component delimiter inside a query / fragment must not be taken for one
  navigate-encoded bases and references whose segments carry percent-encoded delimiters ('x%2Fy', '%2F', '%2F..',
                  'q%3Fr', 'h%23s') or reserved characters that are legal inside a segment ('x:', 'a:b@c', 'p;k=v',
                  hence also 'g/x://h' - a "://" inside a path): a segment is one segment whatever it decodes to
  navigate-hostless  absolute bases without a host: rootless ('urn:a', 'mailto:x@y', 'foo:a/b'), rooted ('foo:/a/b') and
                  with an empty authority ('file:///a/b').  Two classes of cases are left out (counted as skipped_*): those
                  where the literal 5.2.4 algorithm turns a rootless path into a rooted one ('foo:a/b' + '..' -> 'foo:/'), and
                  targets whose path would begin with '//' without a host (not a URI, RFC 3986 3.3 / URL cannot hold it)
  navigate-hosts  bases / absolute references whose host is an internationalized name that URL renders back unchanged
                  (lower-case letters whose case folding, compatibility form or upper-lower round trip is another
                  letter: sharp s, final sigma, long s, ligatures, dotless i ...) and mixed-case ASCII hosts / schemes
                  (compared modulo ASCII case of scheme and host, RFC 3986 6.2.2.1; userinfo is case-sensitive)
  navigate-pct    segments with an escaped percent sign ('%252e%252e' is the literal text '%2e%2e', an ordinary
                  segment): compared in the fully quoted rendering, the one that writes a literal '%' as '%25'
  navigate-queries queries whose keys / values carry percent-encoded query delimiters ('k%3D1=v', '%26', 'x%2By=%3D'; one
                  and two pairs, with / without '='), as the reference's query and as the base's (inherited or dropped)
  navigate-self   base.navigate(base): the base object itself as the (absolute) reference, parsed and after normalize()
  navigate-history every case (references of <= history_maxseg segments, a few chains, references with their own scheme
                  and host, normalize twice) as the LAST step of a history of other URLs handled by the same process: URLs of
                  the same scheme with an authority (other hosts, ports, userinfo, paths), without one (rooted, rootless,
                  empty), both, URLs of other schemes plus register_scheme() of unrelated names, parses / navigations that
                  raise, the very same resolution done before with its result (and reference object) changed by the
                  caller, and one base object that has already been navigated from.  Victims: bases with and without authority of a scheme no other shard uses (so what the process
                  saw first of that scheme is controlled) and of registered schemes.  Oracle: the RFC target, as always
  navigate-long   directed (not exhaustive): references and base paths of 15 .. 1025 repeated units
  absolute        references that carry their own scheme and host (replace the base entirely)
  chain           base.navigate(r1).navigate(r2) against the reference applied step by step
  normalize       URL.normalize() applied twice equals applied once

Per resolution: rendered result == expected text (for references of <= object_maxseg segments and whenever an escape is
involved also the fully quoted rendering, to_text(full_quote=True)); no '.'/'..' segment in the result; the base object is
unchanged (text, every public attribute, ``base == pristine copy``) also after the returned URL is mutated;
passing the reference as a URL object gives the same result as passing that object's text.
For references of <= object_maxseg segments the reference is also handed in as a URL object in every internal
state the library itself produces (after normalize(), as the outcome of a navigate() between relative references,
as a copy URL(URL(ref))), and the base as a URL object after normalize(): each must resolve to the RFC target of
the text that object renders to.

Equivalences (DESIGN 5.1): the expected text is the 5.2 target with dot segments removed; both sides are
compared modulo "empty path under an authority == '/'" and "explicit default port == no port".
"""
import multiprocessing
import re
import signal

from mc import core, inputs

PROPERTY = 'C07'
LEVEL = 'exploration'

# ----------------------------------------------------------------------------------------------------
# Reference: RFC 3986 on strings.  A URI is the 5-tuple (scheme, authority, path, query, fragment);
# an undefined component is None, path is always a string (possibly empty).

_APPENDIX_B = re.compile(r'^(([^:/?#]+):)?(//([^/?#]*))?([^?#]*)(\?([^#]*))?(#(.*))?', re.S)


def split_uri(text):
    m = _APPENDIX_B.match(text)
    return (m.group(2), m.group(4), m.group(5), m.group(7), m.group(9))


def remove_dot_segments(path):
    """RFC 3986 5.2.4, steps 1, 2A-2E, 3, transcribed literally."""
    inp, out = path, []
    while inp:
        if inp.startswith('../'):                      # 2A
            inp = inp[3:]
        elif inp.startswith('./'):                     # 2A
            inp = inp[2:]
        elif inp.startswith('/./'):                    # 2B
            inp = '/' + inp[3:]
        elif inp == '/.':                              # 2B
            inp = '/'
        elif inp.startswith('/../'):                   # 2C
            inp = '/' + inp[4:]
            if out:
                out.pop()
        elif inp == '/..':                             # 2C
            inp = '/'
            if out:
                out.pop()
        elif inp == '.' or inp == '..':                # 2D
            inp = ''
        else:                                          # 2E: first segment incl. its leading '/', if any
            i = inp.find('/', 1)
            if i < 0:
                i = len(inp)
            out.append(inp[:i])
            inp = inp[i:]
    return ''.join(out)


def merge(base_authority, base_path, ref_path):
    """RFC 3986 5.2.3."""
    if base_authority is not None and base_path == '':
        return '/' + ref_path
    return base_path[:base_path.rfind('/') + 1] + ref_path


def transform(base, ref):
    """RFC 3986 5.2.2 (strict).  base, ref: 5-tuples."""
    bs, ba, bp, bq, _bf = base
    rs, ra, rp, rq, rf = ref
    if rs is not None:
        ts, ta, tp, tq = rs, ra, remove_dot_segments(rp), rq
    else:
        if ra is not None:
            ta, tp, tq = ra, remove_dot_segments(rp), rq
        else:
            if rp == '':
                tp = bp
                tq = rq if rq is not None else bq
            else:
                if rp.startswith('/'):
                    tp = remove_dot_segments(rp)
                else:
                    tp = remove_dot_segments(merge(ba, bp, rp))
                tq = rq
            ta = ba
        ts = bs
    return (ts, ta, tp, tq, rf)


def recompose(t):
    """RFC 3986 5.3."""
    s, a, p, q, f = t
    out = []
    if s is not None:
        out += [s, ':']
    if a is not None:
        out += ['//', a]
    out.append(p)
    if q is not None:
        out += ['?', q]
    if f is not None:
        out += ['#', f]
    return ''.join(out)


def expected_target(base, ref):
    """The 5.2 target with dot segments removed from its path (the statement demands a normalized result;
    this only matters when the base itself has dot segments and the reference has an empty path)."""
    s, a, p, q, f = transform(base, ref)
    return (s, a, remove_dot_segments(p), q, f)


_DEFAULT_PORT = {'http': '80', 'https': '443', 'ftp': '21'}     # from the schemes' own specifications


def canon(t):
    """Equivalences of DESIGN 5.1: empty path under an authority == '/'; explicit default port == no port."""
    s, a, p, q, f = t
    if a is not None:
        if p == '':
            p = '/'
        dp = _DEFAULT_PORT.get(s)
        if dp is not None:
            hostport = a.rpartition('@')[2]
            tail = hostport.rpartition(']')[2] if hostport.startswith('[') else hostport
            if tail.endswith(':' + dp) and tail.count(':') == 1:
                a = a[:-len(dp) - 1]
    return (s, a, p, q, f)


_ASCII_LOWER = {c: c + 32 for c in range(ord('A'), ord('Z') + 1)}


def has_ascii_upper(t):
    """Scheme or host of the split URI t contains an ASCII capital."""
    s, a = t[0] or '', (t[1] or '').rpartition('@')[2]
    return (s + a).translate(_ASCII_LOWER) != s + a


def fold_case(t):
    """RFC 3986 6.2.2.1: scheme and host are case-insensitive (ASCII letters only; userinfo is left alone)."""
    s, a, p, q, f = t
    if s is not None:
        s = s.translate(_ASCII_LOWER)
    if a is not None:
        ui, at, hostport = a.rpartition('@')
        a = ui + at + hostport.translate(_ASCII_LOWER)
    return (s, a, p, q, f)


def hostless_skip(bs, rs):
    """Cases of a base without a host that are left out, decided on the reference model alone:
    'rooted'  - the literal 5.2.4 algorithm makes a rooted path out of a rootless one ('a/..' -> '/', 'a/../b' -> '/b')
    'slashes' - the target path would begin with '//' although there is no host"""
    if rs[0] is not None or rs[1] is not None:
        return None
    if rs[2] == '':
        p = bs[2]
    elif rs[2].startswith('/'):
        p = rs[2]
    else:
        p = merge(bs[1], bs[2], rs[2])
    t = remove_dot_segments(p)
    if not p.startswith('/') and t.startswith('/'):
        return 'rooted'
    if not bs[1] and t.startswith('//'):
        return 'slashes'
    return None


_COMPONENTS = ('scheme', 'authority', 'path', 'query', 'fragment')


def differences(exp, obs):
    """exp, obs canonical 5-tuples -> names of the observables that disagree: at most one "hard" component
    (the first in URI order) and, separately, the present-but-empty query whose "?" was dropped."""
    hard, delim = None, False
    for name, e, o in zip(_COMPONENTS, exp, obs):
        if e != o:
            if name == 'query' and e == '' and o is None:
                delim = True
            elif hard is None:
                hard = name
    return hard, delim


# ----------------------------------------------------------------------------------------------------
# The enumerated space

SEGMENTS = ('.', '..', '', 'g', 'h')
NAME_SEGMENTS = ('.', '..', '', '...', '.g', 'g..')       # names that only look like dot segments
QUERIES = (None, 'y', '')
FRAGMENTS = (None, 's')

BASES = (
    'http://a', 'http://a/', 'http://a/b', 'http://a/b/', 'http://a/b/c', 'http://a/b/c/',
    'http://a/b/c/d;p?q',                                           # the base of RFC 3986 5.4
    'http://a?q', 'http://a#f', 'http://a/?q#f', 'http://a/b?q=1&r=2', 'http://a/b/c?q#f', 'http://a/b/#f',
    'http://a/b?t=1&u=2&t=3',                                       # a query that repeats a key
    'http://a//', 'http://a//b', 'http://a/b//c', 'http://a/b//', 'http://a/b///c/',
    'http://a/./b', 'http://a/b/../c', 'http://a/b/c/..', 'http://a/b/c/.', 'http://a/../b',
    'http://a/b/./c/../d?q',
    'http://a:8080', 'http://a:8080/b/c', 'http://a:80/b/c', 'https://a:443', 'https://a/b/c?q',
    'ftp://a:21/b/',
    'http://u@a/b/c', 'http://u:pw@a', 'http://u:pw@a:8080/b/c?q#f',
    'http://[::1]', 'http://[::1]/b/c', 'http://[::1]:8080/b/c', 'http://127.0.0.1:8080/b/',
    'x://h', 'x://h/p/q', 'git+ssh://u@h/p/q/',
)
# Segments that decode to text containing delimiters / that contain reserved characters legal in a segment.  Only
# spellings that URL renders back unchanged are used (upper-case hex, only delimiters that must stay encoded): the
# statement is about resolution, not about percent-encoding normalization.
ENC_SEGMENTS = ('.', '..', '', 'g', 'x%2Fy', '%2F', '%2F..', 'x:')
RESERVED_SEGMENTS = ('..', 'g', 'q%3Fr', 'h%23s', 'a:b@c', 'p;k=v')
CHAIN_ENC_SEGMENTS = ('..', '', 'g', 'x%2Fy', '%2F')
ENC_BASES = (
    # the first `encoded_deep_bases` of these get the longer references
    'http://a/b%2Fc/d', 'http://a/b%2Fc/d/', 'http://a/x/b%2Fc/d?q=1#f', 'http://a/%2F/d', 'http://a/b%2F/',
    'http://a/b%2F..%2Fc/d', 'http://a/b/..%2F/d',                   # decode to text with dot segments inside
    'http://u:pw@a:8080/r%2Fs/t/', 'http://a/b:c/d@e/f;p=1',
    'http://a/b%2Fc', 'http://a/b/%2F', 'http://a/%2Fb/c', 'http://a/%2F%2F/%2F', 'http://a/b%2F%2Fc/d',
    'http://a/b%2F./c', 'x://h/p%2Fq/r',
    'http://a/b%3Fc/d%23e/f', 'http://a/b/http://x/y', 'http://a/\u00e9/d',
    'http://a/b/c?x=a%26b&y=%3D', 'http://a/b/c?n=http://x/y#x://h',
    'http://u%40x:p%3Aw@a/b/c', 'http://u%3Ax:p%2Fw@a:8080/b/c?q#f%23g',       # encoded delimiters in the userinfo
)
CHAIN_ENC_BASES = ('http://a/b%2Fc/d', 'http://a', 'http://u:pw@a:8080/r%2Fs/t/?q#f')
DELIM_QUERIES = (None, 'y/z?w', 'n=http://x/y', '//h/p', 'a:b@c')
DELIM_FRAGMENTS = (None, 's?t/u', '?', '/', 'x://h/p', '//h', 'a:b@c', 's%23t')
NAME_BASES = ('http://a', 'http://a/b/c', 'http://a/b/c/', 'http://a/.g/...', 'http://a/b/g../', 'x://h/p')
CHAIN_BASES = ('http://a', 'http://a/b/c/d;p?q', 'https://host/a/', 'http://a/b//c?q#f',
               'http://u:pw@a:8080/b/c', 'x://h/p/q', 'http://a/', 'http://a/b/c/..', 'http://a:80/b',
               'http://127.0.0.1/b/c/')
ABS_BASES = ('http://a', 'http://a/b/c/d;p?q', 'http://u:pw@a:8080/b/c?q#f', 'http://[::1]:8080/b/c',
             'x://h/p/q', 'https://a/b/../c', 'http://a/b/#f', 'git+ssh://u@h/p/q/')
ABS_SCHEMES = ('http', 'https', 'x')
ABS_AUTHORITIES = ('h', 'a', 'h:8080', 'u:pw@h', '[::2]:8080')
NORMALIZE_PREFIXES = ('', 'http://a', 'HTTP://A.b:8080', 'x://h', 'http://[::1]', 'http://u:pw@a')


HOSTLESS_BASES = (
    'urn:a', 'mailto:x@y', 'foo:bar', 'foo:a/b', 'foo:a/b/', 'foo:a/b/c?q#f', 'foo:/a/b', 'foo:/', 'foo:/a/b/?q',
    'foo:', 'foo:?q', 'foo:a#f', 'foo:a//b', 'foo:a/../b', 'foo:/a/./b/..',
    'file:///a/b', 'file:///', 'file:///a/b/?q#f', 'file:///a/../b',
)


def _special_lower_letters():
    """Lower-case BMP letters (c.lower() == c) that some other case / compatibility mapping turns into different text:
    found by introspection of the Unicode tables of the running Python, grouped by the mapping."""
    import unicodedata
    fold, compat, round_trip = [], [], []
    for cp in range(0x80, 0x3000):
        c = chr(cp)
        if not c.isalpha() or c.lower() != c or unicodedata.normalize('NFC', c) != c:
            continue
        if c.casefold() != c:
            fold.append(c)
        elif unicodedata.normalize('NFKC', c) != c:
            compat.append(c)
        elif c.upper().lower() != c:
            round_trip.append(c)
    return fold, compat, round_trip


def host_bases():
    fold, compat, round_trip = _special_lower_letters()
    names = ['stra\u00dfe', '\u03bf\u03b4\u03cc\u03c2', '\u017ftore', '\ufb01x', '\u0131x', '\u00e9', 'e\u0301', '\u00aa',
             '\u4f8b\u3048']
    for group in (fold, compat[:48], round_trip[:24]):
        names += [''.join(group[i:i + 8]) for i in range(0, len(group), 8)]
    bases = ['http://%s.example/b/c' % n for n in names]
    bases += ['http://u:pw@stra\u00dfe.example:8080/b/c?q#f', 'x://ma\u00dfe/p', 'https://\u03c2.example',
              'http://User:Pw@A.Example:8080/b/c', 'HTTP://A/b/c?q', 'http://A.B', 'X://H/p/q']
    return bases


HOST_REF_BASES = ('http://a/b/c', 'x://h')
PCT_SEGMENTS = ('..', '', 'g', '%252e%252e', '%252E', '%2525', '100%25', '%25252e')
PCT_BASES = ('http://a/b/c', 'http://a/%252e%252e/b', 'http://a/100%2525/x?q', 'http://a/b/%252E/', 'http://a')
PCT_QF = ((None, None), ('k=%2541', '%2523'))
CHAIN_PCT_SEGMENTS = ('..', 'g', '%252e%252e', '%2525')


# Queries as key/value lists whose keys and values carry percent-encoded query delimiters ('=' %3D, '&' %26, '+' %2B,
# '#' %23): a pair is one pair and a key is one key whatever they decode to.  Spellings that URL renders back unchanged.
QUERY_KEYS = ('k', 'k%3D1', '%3D', 'a%26b', 'x%2By', 'h%23s')
QUERY_VALUES = (None, '', 'v', '%3D', 'v%26w', 'p%2Bq')         # None: a key without '='
QUERY_REF_BASES = ('http://a', 'http://a/b/c?q', 'http://u:pw@a:8080/b/c/?t=1&k%3D1=0#f')


def _pair(k, v):
    return k if v is None else k + '=' + v


def enc_queries():
    """Every single pair over QUERY_KEYS x QUERY_VALUES, then every two pairs over the first 3 keys x first 4 values."""
    out = [_pair(k, v) for k in QUERY_KEYS for v in QUERY_VALUES]
    small = [_pair(k, v) for k in QUERY_KEYS[:3] for v in QUERY_VALUES[:4]]
    out += [a + '&' + b for a in small for b in small]
    return out


def ref_paths(kind, alphabet, maxseg):
    """All reference paths of the kind with <= maxseg segments, shortest first, each text exactly once.
    'abs'  : '' (empty path), then '/' + segments (first segment non-empty: '//' would start an authority)
    'rel'  : segments joined by '/', first segment non-empty (path-noscheme; the alphabet has no ':')
    'abempty': every '/' + segments, as allowed after an authority (first segment may be empty)."""
    if kind == 'abs':
        yield ''
        for segs in inputs.strings(alphabet, maxseg):
            if not segs or segs[0] != '':
                yield '/' + '/'.join(segs)
    elif kind == 'rel':
        for segs in inputs.strings(alphabet, maxseg, 1):
            if segs[0] != '':
                yield '/'.join(segs)
    else:
        yield ''
        for segs in inputs.strings(alphabet, maxseg, 1):
            yield '/' + '/'.join(segs)


def make_ref(path, query, fragment):
    return path + ('' if query is None else '?' + query) + ('' if fragment is None else '#' + fragment)


def path_is_nontrivial(path):
    """Rule for distinct_nontrivial: a '.' or '..' segment, an empty segment other than one trailing
    slash, or an empty path (same-document / query-only / fragment-only reference)."""
    if path == '':
        return True
    segs = path.split('/')
    if '.' in segs or '..' in segs:
        return True
    inner = segs[1:-1] if path.startswith('/') else segs[:-1]
    return '' in inner


# ----------------------------------------------------------------------------------------------------
# Evaluation of one case on the real code (shared by the explorer and by replay)

def snapshot(u):
    return (u.scheme, u.username, u.password, u.family, u.host, u.port, tuple(u.path_parts),
            tuple(u.query_params.items(multi=True)), u.fragment, bool(u.uses_netloc), u.to_text())


def ref_shape(r):
    if r[0] is not None:
        return 'absolute-url'
    if r[2] == '':
        if r[3] is not None:
            return 'query-only'
        return 'fragment-only' if r[4] is not None else 'empty'
    return 'path-absolute' if r[2].startswith('/') else 'path-relative'


def _tags(base, r):
    tags = []
    if base[1] and '[' in base[1]:
        tags.append('base_ipv6')
    if not base[1]:
        tags.append('base_hostless')
    if base[2] == '':
        tags.append('base_path_empty')
    if base[3] is not None:
        tags.append('base_has_query')
    bsegs = base[2].split('/')
    if '.' in bsegs or '..' in bsegs:
        tags.append('base_has_dot_segments')
    if '%' in base[2]:
        tags.append('base_path_has_encoded_char')
    if '%' in r[2]:
        tags.append('ref_path_has_encoded_char')
    if r[3] == '':
        tags.append('ref_query_empty')
    rsegs = r[2].split('/')
    if '.' in rsegs or '..' in rsegs:
        tags.append('ref_has_dot_segments')
    if '' in (rsegs[1:-1] if r[2].startswith('/') else rsegs[:-1]):
        tags.append('ref_has_empty_segment')
    return tags


def compare(fn, exp_t, obs_text, shape, out, tags, fold=False):
    """Compare a rendered result with the expected target; append (sig, expected, observed, tags).
    fold: the inputs carry ASCII capitals in scheme / host - compare modulo their case (never set otherwise)."""
    exp_c = canon(exp_t)
    obs_c = canon(split_uri(obs_text))
    if fold:
        exp_c, obs_c = canon(fold_case(exp_c)), canon(fold_case(obs_c))
    what, delim = differences(exp_c, obs_c)
    if what is not None:
        if what in ('path', 'query', 'fragment'):
            what = '%s(ref=%s)' % (what, shape)
        out.append(('C07|fn:%s|%s' % (fn, what), recompose(exp_c), obs_text, tags))
    if delim:
        out.append(('C07|fn:%s|empty-query-delimiter-dropped' % fn, recompose(exp_c), obs_text, tags))
    psegs = obs_c[2].split('/')
    if '.' in psegs or '..' in psegs:
        out.append(('C07|fn:%s|dot-segment-in-result' % fn, recompose(exp_c), obs_text, tags))
    return what is None and not delim


class BaseInfo:
    """Per-base data computed once: reference split, pristine copy and its snapshot."""

    def __init__(self, URL, text):
        self.text = text
        self.split = split_uri(text)
        self.pristine = URL(text)
        self.snap = snapshot(self.pristine)


def in_domain(r):
    """The reference shapes the statement covers: no authority at all, or its own scheme and host."""
    if r[0] is None:
        return r[1] is None
    return bool(r[1])


DEST_STATES = ('normalized', 'navigated', 'copied')


def dest_in_state(URL, ref, state):
    """The reference as a URL object in an internal state that the library itself produces (a parsed URL keeps
    its segments in a tuple, normalize() and navigate() leave a list, ...)."""
    if state == 'normalized':
        d = URL(ref)
        d.normalize()
        return d
    if state == 'navigated':
        return URL('').navigate(ref)
    return URL(URL(ref))


def _mutate_result(res):
    """What a caller may do with the URL it got back."""
    res.query_params.add('zz', 'zz')
    res.fragment = 'zz'
    if isinstance(res.path_parts, list):
        res.path_parts.append('zz')
    else:
        res.path_parts = tuple(res.path_parts) + ('zz',)


def eval_object_states(URL, bi, ref, obs, out, stats=None):
    """The reference / the base handed in as URL objects in other internal states.  An object stands for the
    reference that it renders to (only when that text parses back to an equal object and is a reference shape
    the statement covers); the result must be the RFC target for that text."""
    for state in DEST_STATES:
        try:
            d = dest_in_state(URL, ref, state)
            d_text = d.to_text()
            d_snap = snapshot(d)
            if snapshot(URL(d_text)) != d_snap:
                continue
        except Exception:
            continue                   # building the object is not what the statement is about
        rs = split_uri(d_text)
        if not in_domain(rs):
            continue
        if stats is not None:
            stats['object_dest_resolutions'] = stats.get('object_dest_resolutions', 0) + 1
        tags = _tags(bi.split, rs) + ['dest_is_URL_object', 'dest_' + state]
        exp_t = expected_target(bi.split, rs)
        try:
            base = URL(bi.text)
            o = base.navigate(d).to_text()
        except Exception as e:
            out.append(('C07|fn:navigate|raised(URL-object-dest)', recompose(canon(exp_t)),
                        'raised %s' % type(e).__name__, tags))
            continue
        compare('navigate(URL-object-dest)', exp_t, o, ref_shape(rs), out, tags,
                has_ascii_upper(bi.split) or has_ascii_upper(rs) or has_ascii_upper(split_uri(ref)))
        try:
            after = snapshot(base)
        except Exception as e:
            after = 'raised %s' % type(e).__name__
        if after != bi.snap:
            out.append(('C07|fn:navigate|base-modified', bi.snap, after, tags))
    # the base as a URL object that has been normalized (only where that leaves the base as it was)
    try:
        base = URL(bi.text)
        base.normalize()
        same = snapshot(base) == bi.snap
    except Exception:
        same = False
    if same:
        if stats is not None:
            stats['normalized_base_resolutions'] = stats.get('normalized_base_resolutions', 0) + 1
        r = split_uri(ref)
        tags = _tags(bi.split, r) + ['base_normalized']
        exp_t = expected_target(bi.split, r)
        try:
            res = base.navigate(ref)
            o = res.to_text()
        except Exception as e:
            out.append(('C07|fn:navigate|raised(normalized-base)', recompose(canon(exp_t)),
                        'raised %s' % type(e).__name__, tags))
            return
        if o != obs:
            out.append(('C07|fn:navigate|normalized-base-resolves-differently', obs, o, tags))
        try:
            after = snapshot(base)
        except Exception as e:
            after = 'raised %s' % type(e).__name__
        if after != bi.snap:
            out.append(('C07|fn:navigate|base-modified', bi.snap, after, tags))
            return
        # a normalized base keeps its segments in a list: the result must not share it (nor the query)
        try:
            _mutate_result(res)
            after = snapshot(base)
            if after != bi.snap:
                out.append(('C07|fn:navigate|result-shares-mutable-state-with-base', bi.snap, after, tags))
        except Exception as e:
            out.append(('C07|fn:navigate|result-not-a-usable-URL', None, 'raised %s' % type(e).__name__, tags))


def _render(u, fq):
    return u.to_text(full_quote=True) if fq else u.to_text()


def wants_full_quote(*texts):
    """An escaped percent sign is involved: URL holds the decoded text and only its fully quoted rendering writes a
    literal '%' back as '%25' (the plain rendering of 'http://a/%252e' is 'http://a/%2e', another URI)."""
    return any('%25' in t for t in texts)


def eval_navigate(URL, bi, ref, objects=False, stats=None):
    """One resolution with every per-resolution oracle.  Returns a list of (sig, expected, observed, tags)."""
    out = []
    r = split_uri(ref)
    shape = ref_shape(r)
    tags = _tags(bi.split, r)
    exp_t = expected_target(bi.split, r)
    fq = wants_full_quote(bi.text, ref)
    fold = has_ascii_upper(bi.split) or has_ascii_upper(r)
    if fq:
        objects = False                # the object states are compared through the plain rendering
        tags = tags + ['escaped_percent']
    try:
        base = URL(bi.text)
        res = base.navigate(ref)
        obs = _render(res, fq)
    except Exception as e:
        out.append(('C07|fn:navigate|raised', recompose(canon(exp_t)), 'raised %s' % type(e).__name__, tags))
        return out
    ok = compare('navigate', exp_t, obs, shape, out, tags, fold)
    if ok and not fq and (objects or '%' in obs) and obs.isascii():
        # the target is an ASCII URI made of characters that are legal where they stand (escapes included), so
        # its fully quoted rendering is the same text; a result that holds e.g. still-encoded segments renders to
        # the target only by accident of the lenient default quoting
        try:
            fq = res.to_text(full_quote=True)
            if fq != obs:
                out.append(('C07|fn:navigate|fully-quoted-rendering-differs(%s)' % shape, obs, fq, tags))
        except Exception as e:
            out.append(('C07|fn:navigate|raised(full_quote)', obs, 'raised %s' % type(e).__name__, tags))
    rsegs = [str(p) for p in res.path_parts]
    if '.' in rsegs or '..' in rsegs:
        out.append(('C07|fn:navigate|dot-segment-in-result', 'no "." or ".." in path_parts', rsegs, tags))
    # base left unmodified
    modified = False
    try:
        after = snapshot(base)
        if after != bi.snap:
            modified = True
            out.append(('C07|fn:navigate|base-modified', bi.snap, after, tags))
        elif not (base == bi.pristine) or base != bi.pristine:
            modified = True
            out.append(('C07|fn:navigate|base-modified', 'base == pristine copy', 'unequal', tags))
    except Exception as e:
        modified = True
        out.append(('C07|fn:navigate|base-modified', bi.snap, 'raised %s' % type(e).__name__, tags))
    # the reference given as a URL object resolves like that object's text
    try:
        dest = URL(ref)
        dest_text = _render(dest, fq)
        base2 = URL(bi.text)
        obs_obj = _render(base2.navigate(dest), fq)
        obs_txt = obs if dest_text == ref else _render(URL(bi.text).navigate(dest_text), fq)
        if obs_obj != obs_txt:
            out.append(('C07|fn:navigate|URL-object-dest-differs-from-its-text', obs_txt, obs_obj, tags))
        after = snapshot(base2)
        if after != bi.snap and not modified:
            out.append(('C07|fn:navigate|base-modified', bi.snap, after, tags + ['dest_is_URL_object']))
        if objects:
            # second use of the same reference object: again the target of the text it renders to (now)
            now_text = _render(dest, fq)
            obs_obj2 = _render(URL(bi.text).navigate(dest), fq)
            obs_txt2 = obs_txt if now_text == dest_text else _render(URL(bi.text).navigate(now_text), fq)
            if obs_obj2 != obs_txt2:
                out.append(('C07|fn:navigate|URL-object-dest-second-use-differs-from-its-text', obs_txt2, obs_obj2,
                            tags + ['dest_is_URL_object']))
    except Exception as e:
        out.append(('C07|fn:navigate|raised(URL-object-dest)', None, 'raised %s' % type(e).__name__, tags))
    # the returned URL is a new object: using it must not reach back into the base
    if not modified:
        try:
            _mutate_result(res)
            after = snapshot(base)
            if after != bi.snap:
                out.append(('C07|fn:navigate|result-shares-mutable-state-with-base', bi.snap, after, tags))
        except Exception as e:
            out.append(('C07|fn:navigate|result-not-a-usable-URL', None, 'raised %s' % type(e).__name__, tags))
    if objects:
        eval_object_states(URL, bi, ref, obs, out, stats)
    return out


def eval_self(URL, bi):
    """The base handed to its own navigate() as the reference *object* (base.navigate(base); a page resolving a list
    of links that contains its own URL object), fresh and after normalize(): a reference with its own scheme and host,
    so the target is the base text resolved against itself; the base object must come out as it went in and the result
    must be another object that shares no mutable state with it."""
    out = []
    if not in_domain(bi.split) or bi.split[0] is None:
        return out
    exp_t = expected_target(bi.split, bi.split)
    fq = wants_full_quote(bi.text)     # only with SELF_ESCAPED_PERCENT (see shard_self)
    fold = has_ascii_upper(bi.split)
    for state in ('parsed', 'normalized'):
        tags = _tags(bi.split, bi.split) + ['dest_is_base_object', 'base_' + state]
        try:
            base = URL(bi.text)
            if state == 'normalized':
                base.normalize()
            before = snapshot(base)
            before_fq = _render(base, True)
        except Exception:
            continue                   # normalize() on its own is the normalize part's business
        try:
            res = base.navigate(base)
            obs = _render(res, fq)
        except Exception as e:
            out.append(('C07|fn:navigate(self)|raised', recompose(canon(exp_t)), 'raised %s' % type(e).__name__, tags))
            continue
        compare('navigate(self)', exp_t, obs, 'absolute-url', out, tags, fold)
        try:
            after = snapshot(base)
            if after == before and _render(base, True) != before_fq:
                after = _render(base, True)
        except Exception as e:
            after = 'raised %s' % type(e).__name__
        if after != before:
            out.append(('C07|fn:navigate(self)|base-modified', before, after, tags))
            continue
        if res is base:
            out.append(('C07|fn:navigate(self)|result-is-the-base-object', 'a new URL', 'the base itself', tags))
            continue
        try:
            _mutate_result(res)
            after = snapshot(base)
            if after != before:
                out.append(('C07|fn:navigate(self)|result-shares-mutable-state-with-base', before, after, tags))
        except Exception as e:
            out.append(('C07|fn:navigate(self)|result-not-a-usable-URL', None, 'raised %s' % type(e).__name__, tags))
    return out


def eval_chain(URL, bi, r1, r2, u1=None):
    """base.navigate(r1).navigate(r2) against the reference applied step by step (each step normalized)."""
    out = []
    s1, s2 = split_uri(r1), split_uri(r2)
    e1 = expected_target(bi.split, s1)
    e2 = expected_target(e1, s2)
    tags = _tags(e1, s2)
    fq = wants_full_quote(bi.text, r1, r2)
    fold = has_ascii_upper(bi.split) or has_ascii_upper(s1) or has_ascii_upper(s2)
    try:
        if u1 is None:
            u1 = URL(bi.text).navigate(r1)
        res = u1.navigate(r2)
        obs = _render(res, fq)
    except Exception as e:
        out.append(('C07|fn:navigate-chain|raised', recompose(canon(e2)), 'raised %s' % type(e).__name__, tags))
        return out
    compare('navigate-chain', e2, obs, ref_shape(s2), out, tags, fold)
    rsegs = [str(p) for p in res.path_parts]
    if '.' in rsegs or '..' in rsegs:
        out.append(('C07|fn:navigate-chain|dot-segment-in-result', 'no "." or ".." in path_parts', rsegs, tags))
    return out


def eval_normalize(URL, text, with_case):
    out = []
    try:
        u = URL(text)
        u.normalize(with_case=with_case)
        s1 = (u.to_text(), tuple(u.path_parts), u.scheme, u.host)
        u.normalize(with_case=with_case)
        s2 = (u.to_text(), tuple(u.path_parts), u.scheme, u.host)
    except Exception as e:
        return [('C07|fn:normalize|raised', None, 'raised %s' % type(e).__name__, [])]
    if s1 != s2:
        out.append(('C07|fn:normalize|not-idempotent', s1, s2, []))
    return out


# ----------------------------------------------------------------------------------------------------
# Shards (run in worker processes)

class _Hang(BaseException):
    pass


class _Abort(BaseException):
    pass


def _on_timer(signum, frame):
    raise _Hang()


CASE_CPU_BUDGET_S = 5.0     # process CPU time for one case (a case needs ~0.0002 s)
MAX_HANGS_PER_SHARD = 3
_HANG_SEEN = multiprocessing.Value('i', 0)     # shared with the forked workers


class Guard:
    """Runs every case under a CPU-time budget, so that a hang in the code under test becomes a violation
    of that case instead of hanging the checker.  After MAX_HANGS_PER_SHARD hangs (or one, once any worker
    has seen a hang) the rest of the shard is abandoned and the coverage is reported as not exhaustive."""

    def __init__(self, t, part):
        self.t, self.part, self.hangs = t, part, 0

    def call(self, case, fn, *args):
        signal.setitimer(signal.ITIMER_VIRTUAL, CASE_CPU_BUDGET_S)
        try:
            try:
                return fn(*args)
            finally:
                signal.setitimer(signal.ITIMER_VIRTUAL, 0)
        except _Hang:
            self.hangs += 1
            self.t.add('hangs')
            self.t.bad('C07|fn:%s|hang' % self.part, case, 'terminates',
                       'no result within %g CPU seconds' % CASE_CPU_BUDGET_S)
            if self.hangs >= MAX_HANGS_PER_SHARD or _HANG_SEEN.value:
                _HANG_SEEN.value = 1
                self.t.add('shards_abandoned_after_hang')
                raise _Abort()
            _HANG_SEEN.value = 1
            return None


def _guarded(shard):
    def run(arg):
        t = inputs.Tally()
        old = signal.signal(signal.SIGVTALRM, _on_timer)
        try:
            shard(arg, t, Guard(t, arg['part']))
        except _Abort:
            pass
        finally:
            signal.setitimer(signal.ITIMER_VIRTUAL, 0)
            signal.signal(signal.SIGVTALRM, old)
        return t
    return run


def _url():
    from boltons.urlutils import URL
    return URL


def _record(t, case, results):
    for sig, exp, obs, tags in results or ():
        t.bad(sig, case, exp, obs, tags=tags)


def _base_info(g, URL, part, base):
    bi = g.call({'part': part, 'base': base, 'refs': ['']}, BaseInfo, URL, base)
    if bi is None:
        raise _Abort()
    return bi


def n_segments(path):
    if not path:
        return 0
    return len(path.split('/')) - (1 if path.startswith('/') else 0)


def _flush(t, stats):
    for k in sorted(stats):
        t.add(k, stats[k])


def shard_navigate(arg, t, g):
    URL = _url()
    bi = _base_info(g, URL, arg['part'], arg['base'])
    stats = {}
    relative_only = arg.get('relative_only', False)
    hostless = arg.get('hostless', False)
    qf = arg.get('qf') or [(q, f) for q in arg['queries'] for f in arg['fragments']]
    try:
        for path in ref_paths(arg['kind'], arg['alphabet'], arg['maxseg']):
            nontrivial = path_is_nontrivial(path)
            objects = n_segments(path) <= arg.get('object_maxseg', -1)
            for q, f in qf:
                ref = make_ref(path, q, f)
                if relative_only and split_uri(ref)[:2] != (None, None):
                    t.add('skipped_not_a_relative_reference')
                    continue                   # e.g. 'x:/g': a scheme without a host, outside the statement
                if hostless:
                    why = hostless_skip(bi.split, split_uri(ref))
                    if why:
                        t.add('skipped_rfc_roots_a_rootless_path' if why == 'rooted'
                              else 'skipped_target_path_begins_with_two_slashes_without_host')
                        continue
                case = {'part': arg['part'], 'base': bi.text, 'refs': [ref]}
                if objects:
                    case['objects'] = True
                t.count(nontrivial=nontrivial, sample=case if len(t.samples) < 3 else None)
                _record(t, case, g.call(case, eval_navigate, URL, bi, ref, objects, stats))
    finally:
        _flush(t, stats)


LONG_SIZES = (15, 16, 17, 63, 64, 65, 255, 256, 257, 1023, 1024, 1025)
LONG_OBJECTS_MAX = 300      # URL-object states of the reference / base only up to this many units
LONG_BASES = ('http://a', 'http://a/b/c/d;p?q', 'http://u:pw@a:8080/b%2Fc/d/?q#f')


def long_refs(n):
    """Directed long references of about n (.. 2n) segments: climbing, descending, both, no-ops, empty segments."""
    return ['../' * n + 'g', './' * n + 'g', 'g/' * n, 'g/' * n + '../' * n + 'h', 'g/../' * n + 'h',
            '/' + 'g/' * n + '../' * (n - 1), 'g' + '/' * n, '/g/' + '../' * n + '/' * n + 'h', '/' + 'g/./h/..//' * n,
            '../' * n + '?y', 'g/' * n + '..' + '#s']


def long_base(n):
    return 'http://a/' + 'b/' * n + 'c?q'


def shard_long(arg, t, g):
    URL = _url()
    n = arg['n']
    objects = n <= LONG_OBJECTS_MAX
    for base in LONG_BASES + (long_base(n),):
        bi = _base_info(g, URL, 'navigate-long', base)
        refs = long_refs(n) + (['../' * (n // 2) + 'g', '../' * (n + 1) + 'g', '', '.'] if base == long_base(n) else [])
        for ref in refs:
            case = {'part': 'navigate-long', 'base': bi.text, 'refs': [ref]}
            if objects:
                case['objects'] = True
            t.count(nontrivial=True, sample={'part': 'navigate-long', 'n': n, 'base': base[:40], 'ref': ref[:40]}
                    if len(t.samples) < 2 else None)
            _record(t, case, g.call(case, eval_navigate, URL, bi, ref, objects, None))


# Genuine defect seen on the unchanged tree (fixes/C07-5-url-copy-keeps-escaped-percent): URL(url_object) copies through
# the plain rendering, so base.navigate(base) of 'http://a/%252e%252e/b' gives 'http://a/b'.  Switch on once that is fixed.
SELF_ESCAPED_PERCENT = True


def self_bases(hosts):
    """Every base text of the other parts that has a host, plus long and mixed-case ones with dot segments."""
    out = []
    for b in (BASES + ENC_BASES + NAME_BASES + CHAIN_BASES + ABS_BASES + PCT_BASES + LONG_BASES + QUERY_REF_BASES
              + tuple(hosts) + tuple(long_base(n) for n in LONG_SIZES)
              + tuple('http://a/' + 'b/./c/../' * n + '?q#f' for n in LONG_SIZES)
              + ('HTTP://Www.Example.COM/docs/./v1/../v2/?k=v#top', 'HTTP://A', 'http://A/b/..', 'X://H/p/./q',
                 'http://u:pw@A:8080/b/../c', 'http://[::1]/b/../c/.', 'http://a/b/c?k%3D1=v&%26=%3D#f')):
        if b not in out:
            out.append(b)
    return out


def shard_self(arg, t, g):
    URL = _url()
    for base in arg['bases']:
        try:
            URL(base)
        except Exception:
            t.add('skipped_host_not_accepted_by_URL')
            continue
        if wants_full_quote(base) and not SELF_ESCAPED_PERCENT:
            # URL(url_object) copies through the plain rendering, which writes an escaped percent sign back as a bare
            # '%' ('/%252e%252e/' -> '/%2e%2e/' -> '..'): as everywhere else, URL objects as references are not
            # explored for these texts
            t.add('skipped_escaped_percent_with_URL_object_reference')
            continue
        bi = _base_info(g, URL, 'navigate-self', base)
        case = {'part': 'navigate-self', 'base': bi.text, 'refs': [bi.text], 'self': True}
        t.count(nontrivial=path_is_nontrivial(bi.split[2]), sample=case if len(t.samples) < 2 else None)
        _record(t, case, g.call(case, eval_self, URL, bi))


HOST_REFS = ('', 'g', './g', '../g', '/g', 'g/', '..', '../../h/./i?y#s', '?y', '#s', '/')


def shard_hosts(arg, t, g):
    """One base with a special host: a few references, chains, and the base text (plus path, query, fragment) as an
    absolute reference from other bases."""
    URL = _url()
    try:
        URL(arg['base'])
    except Exception:
        t.add('skipped_host_not_accepted_by_URL')      # not a base URL at all (URL() validates hosts through IDNA)
        return
    bi = _base_info(g, URL, 'navigate-hosts', arg['base'])
    stats = {}
    try:
        for ref in HOST_REFS:
            case = {'part': 'navigate-hosts', 'base': bi.text, 'refs': [ref], 'objects': True}
            t.count(nontrivial=path_is_nontrivial(split_uri(ref)[2]), sample=case if len(t.samples) < 2 else None)
            _record(t, case, g.call(case, eval_navigate, URL, bi, ref, True, stats))
        for r1, r2 in (('g/', '../h'), ('', '#s'), ('/x/y', 'z?y')):
            case = {'part': 'navigate-hosts', 'base': bi.text, 'refs': [r1, r2]}
            t.count(nontrivial=True)
            _record(t, case, g.call(case, _chain_fresh, URL, bi, r1, r2))
        s, a = bi.split[:2]
        for other in HOST_REF_BASES:
            obi = _base_info(g, URL, 'navigate-hosts', other)
            for tail in ('', '/', '/x/../y?z#w', '/x/./y/..'):
                ref = '%s://%s%s' % (s, a, tail)
                case = {'part': 'navigate-hosts', 'base': obi.text, 'refs': [ref], 'objects': True}
                t.count(nontrivial=path_is_nontrivial(tail))
                _record(t, case, g.call(case, eval_navigate, URL, obi, ref, True, stats))
            case = {'part': 'navigate-hosts', 'base': obi.text, 'refs': ['%s://%s/x/y' % (s, a), '../z']}
            t.count(nontrivial=True)
            _record(t, case, g.call(case, _chain_fresh, URL, obi, case['refs'][0], case['refs'][1]))
    finally:
        _flush(t, stats)


def shard_absolute(arg, t, g):
    URL = _url()
    bi = _base_info(g, URL, 'absolute', arg['base'])
    stats = {}
    try:
        for path in ref_paths('abempty', SEGMENTS, arg['maxseg']):
            nontrivial = path_is_nontrivial(path)
            objects = n_segments(path) <= arg.get('object_maxseg', -1)
            for scheme in ABS_SCHEMES:
                for auth in ABS_AUTHORITIES:
                    for q in (None, 'y'):
                        for f in (None, 's'):
                            ref = make_ref('%s://%s%s' % (scheme, auth, path), q, f)
                            case = {'part': 'absolute', 'base': bi.text, 'refs': [ref]}
                            if objects:
                                case['objects'] = True
                            t.count(nontrivial=nontrivial, sample=case if len(t.samples) < 3 else None)
                            _record(t, case, g.call(case, eval_navigate, URL, bi, ref, objects, stats))
    finally:
        _flush(t, stats)


def chain_refs(maxseg, queries, fragments, alphabet=SEGMENTS):
    out = []
    for kind in ('abs', 'rel'):
        for path in ref_paths(kind, alphabet, maxseg):
            for q in queries:
                for f in fragments:
                    out.append((make_ref(path, q, f), path_is_nontrivial(path)))
    return out


def _first_step(URL, bi, r1):
    try:
        u1 = URL(bi.text).navigate(r1)
        return u1, snapshot(u1)
    except Exception:
        return None, None              # reported per case (eval_chain repeats the first step)


def _chain_fresh(URL, bi, r1, r2):
    """Chain case with its own intermediate URL, plus: the second step leaves the intermediate unmodified."""
    res = eval_chain(URL, bi, r1, r2)
    try:
        v = URL(bi.text).navigate(r1)
        before = snapshot(v)
        v.navigate(r2)
        if snapshot(v) != before:
            res.append(('C07|fn:navigate-chain|intermediate-modified', before, snapshot(v), []))
    except Exception:
        pass
    return res


def shard_chain(arg, t, g):
    URL = _url()
    bi = _base_info(g, URL, 'chain', arg['base'])
    refs2 = arg['refs2']
    hostless = not bi.split[1]
    for r1, nt1 in arg['refs1']:
        u1, snap1 = g.call({'part': 'chain', 'base': bi.text, 'refs': [r1]}, _first_step, URL, bi, r1) or (None, None)
        rows = []
        todo = []
        for r2, nt2 in refs2:
            if hostless:               # same two classes left out as in the navigate-hostless part, at either step
                s1 = split_uri(r1)
                if hostless_skip(bi.split, s1) or hostless_skip(expected_target(bi.split, s1), split_uri(r2)):
                    t.add('skipped_hostless_rooted_or_two_slashes')
                    continue
            todo.append((r2, nt2))
            case = {'part': 'chain', 'base': bi.text, 'refs': [r1, r2]}
            t.count(nontrivial=nt1 or nt2, sample=case if len(t.samples) < 3 else None)
            rows.append((case, g.call(case, eval_chain, URL, bi, r1, r2, u1)))
        # the intermediate URL was shared by the inner loop: if any step changed it, redo this row with a
        # fresh intermediate per case so that every reported case stands on its own
        dirty = False
        if u1 is not None:
            try:
                dirty = snapshot(u1) != snap1
            except Exception:
                dirty = True
        if dirty:
            rows = []
            for r2, nt2 in todo:
                case = {'part': 'chain', 'base': bi.text, 'refs': [r1, r2]}
                rows.append((case, g.call(case, _chain_fresh, URL, bi, r1, r2)))
        for case, res in rows:
            _record(t, case, res)


def shard_normalize(arg, t, g):
    URL = _url()
    prefix = arg['prefix']
    kinds = ('abempty',) if prefix else ('abs', 'rel')
    for kind in kinds:
        for path in ref_paths(kind, arg['alphabet'], arg['maxseg']):
            nontrivial = path_is_nontrivial(path)
            for suffix in ('', '?q#f'):
                for with_case in (True, False):
                    case = {'part': 'normalize', 'url': prefix + path + suffix, 'with_case': with_case}
                    t.count(nontrivial=nontrivial, sample=case if len(t.samples) < 3 else None)
                    _record(t, case, g.call(case, eval_normalize, URL, case['url'], with_case))


# ----------------------------------------------------------------------------------------------------
# History: a resolution must not depend on which other URLs the process has handled before

HISTORY_KINDS = ('none', 'authority-siblings', 'authority-less-siblings', 'mixed-siblings', 'other-schemes',
                 'failed-calls', 'same-case-before', 'base-object-reused')
# victims; {s} is a scheme used by no other shard (so "first URL of that scheme seen by the process" is controlled);
# the second field says whether the two hostless classes of the navigate-hostless part are left out
HISTORY_CUSTOM_VICTIMS = (('{s}:/a/b/c', True), ('{s}:/', True), ('{s}:a/b', True), ('{s}:a', True),
                          ('{s}://h/p/q', False), ('{s}://h', False), ('{s}://u:pw@h:8080/b/c/?q#f', False))
HISTORY_REGISTERED_VICTIMS = (('http://a/b/c', False), ('http://a', False), ('http://u:pw@a:8080/b/c?q#f', False),
                              ('https://a/b/c/?q', False), ('file:///a/b', True), ('urn:a', True), ('mailto:x@y', True))
HISTORY_AUTHORITY_SIBLINGS = ('{s}://other:99/artifacts', '{s}://h/p/q', '{s}://h', '{s}://u:pw@h2/', '{s}://[::1]:8080/x/y?q#f',
                              '{s}://a/b/c', '{s}://a:8080/../b/./c/')
HISTORY_AUTHORITY_LESS_SIBLINGS = ('{s}:/x/y', '{s}:/', '{s}:x/y', '{s}:x', '{s}:', '{s}:?q', '{s}:///x/y', '{s}:/a/b/c', '{s}:a/b')
HISTORY_OTHER_SCHEMES = ('http://a/b/c', 'http:/a/b', 'http:a', 'file:///a/b', 'file:/a/b', 'urn:a', 'zq://h/p', 'zq:/p',
                         'zq:p', 'git+ssh://u@h/p', '//h/p', '/p', 'p', '')
HISTORY_FAILING = ('{s}://[::1/p', '{s}://h:port/p', '{s}://[zz]/p', '{s}://h:1:2/', 'http://[::1/p')
HISTORY_REFS = ('../x/./y?y#s', '/x', '?y', '#s', '', 'x/', '..')
_REG_COUNT = [0]


def _scramble(u):
    """What the owner of a URL object may do with it afterwards."""
    _mutate_result(u)
    u.scheme, u.host, u.port, u.username = 'zz', 'zz.example', 99, 'zz'


def _use(URL, text):
    """An unrelated URL is parsed and used (every step on its own, exceptions swallowed as a caller would)."""
    steps = (lambda u: u.to_text(), lambda u: u.to_text(full_quote=True), lambda u: URL(u),
             lambda u: [u.navigate(r).to_text() for r in HISTORY_REFS], lambda u: u.navigate(URL('x/../y')),
             lambda u: u.normalize(), lambda u: u.to_text(),
             lambda u: URL.from_parts(scheme=u.scheme, host=u.host, path_parts=u.path_parts).to_text(),
             lambda u: _scramble(u.navigate('k')), lambda u: _scramble(u))
    try:
        u = URL(text)
    except Exception:
        return
    for step in steps:
        try:
            step(u)
        except Exception:
            pass


def apply_history(URL, kind, scheme):
    """The process-wide part of a history (the per-case part is in eval_after_history)."""
    fill = lambda texts: [x.replace('{s}', scheme) for x in texts]
    if kind == 'authority-siblings':
        texts = fill(HISTORY_AUTHORITY_SIBLINGS)
    elif kind == 'authority-less-siblings':
        texts = fill(HISTORY_AUTHORITY_LESS_SIBLINGS)
    elif kind == 'mixed-siblings':
        texts = fill(HISTORY_AUTHORITY_LESS_SIBLINGS[:4] + HISTORY_AUTHORITY_SIBLINGS + HISTORY_AUTHORITY_LESS_SIBLINGS[4:])
    elif kind == 'other-schemes':
        texts = list(HISTORY_OTHER_SCHEMES)
        from boltons import urlutils
        reg = getattr(urlutils, 'register_scheme', None)
        if reg is not None:            # schemes nobody else uses are registered (worker processes are reused: new names)
            for uses_netloc, port in ((True, 99), (True, None), (False, None), (None, None)):
                _REG_COUNT[0] += 1
                name = 'zreg' + ''.join(chr(ord('a') + int(d)) for d in str(_REG_COUNT[0]))
                try:
                    reg(name, uses_netloc=uses_netloc, default_port=port)
                except Exception:
                    pass
                texts += [name + '://h/p', name + ':/p', name + ':p']
    elif kind == 'failed-calls':
        texts = []
        for bad in fill(HISTORY_FAILING):
            for call in (lambda: URL(bad), lambda: URL(scheme + '://h/p/q').navigate(bad),
                         lambda: URL(scheme + ':/p/q').navigate(bad), lambda: URL('http://a/b').navigate(bad),
                         lambda: URL(scheme + '://h/p').navigate(None), lambda: URL(scheme + ':/p').navigate(7),
                         lambda: URL.from_parts(scheme=scheme, host='h', path_parts=None),
                         lambda: URL.from_parts(scheme=scheme, path_parts=('', 'p'), query_params=7)):
                try:
                    call()
                except Exception:
                    pass
    else:
        texts = []
    for text in texts:
        _use(URL, text)


def _same_case_before(URL, bi, ref, scheme):
    """The very same resolution (and its neighbours) has been done before and the caller changed what it got."""
    sib = (scheme + '://other:99/p/q/r') if bi.split[1] else (scheme + ':/p/q/r')
    def with_object():
        d = URL(ref)
        r = URL(bi.text).navigate(d)
        _scramble(r)
        _scramble(d)

    for call in (lambda: _scramble(URL(bi.text).navigate(ref)), with_object,
                 lambda: _scramble(URL(sib).navigate(ref)),
                 lambda: _scramble(URL(bi.text).navigate('zz/../../q?zz#zz')),
                 lambda: _scramble(URL(bi.text))):
        try:
            call()
        except Exception:
            pass


def _after(res, kind):
    if kind == 'none':
        return res
    return [(sig.replace('|fn:', '|fn:after-history:', 1), exp, obs, list(tags) + ['after_history'])
            for sig, exp, obs, tags in res]


class _ReusedBase:
    """Stands for the URL class; hands out one and the same, already used object whenever the base text is parsed."""

    def __init__(self, URL, text):
        self._URL, self._text, self._shared = URL, text, URL(text)
        for r in HISTORY_REFS:
            for dest in (lambda: r, lambda: URL(r)):
                try:
                    self._shared.navigate(dest()).to_text()
                except Exception:
                    pass

    def __call__(self, *args, **kwargs):
        if args == (self._text,) and not kwargs:
            return self._shared
        return self._URL(*args, **kwargs)

    def __getattr__(self, name):
        return getattr(self._URL, name)


def eval_after_history(URL, bi, refs, kind, scheme, per_case_only=False, with_case=True):
    """A navigate / chain case as the last step of a history.  The oracle is the one of the fresh state (the RFC
    target): signatures are renamed so that they stand apart from those of the same case without a history."""
    if not per_case_only:
        apply_history(URL, kind, scheme)
    if kind == 'same-case-before':
        for r in refs or ():
            _same_case_before(URL, bi, r, scheme)
    if kind == 'base-object-reused' and refs is not None:
        # navigate() leaves the base unmodified, so a base object that has been navigated from resolves like a new one
        try:
            URL = _ReusedBase(URL, bi.text)
        except Exception:
            pass
    if refs is None:
        res = eval_normalize(URL, bi, with_case)       # bi: the text
    else:
        res = eval_navigate(URL, bi, refs[0]) if len(refs) == 1 else _chain_fresh(URL, bi, refs[0], refs[1])
    return _after(res, kind)


def shard_history(arg, t, g):
    URL = _url()
    kind, scheme, part = arg['history'], arg['scheme'], arg['part']
    base = arg['base'].replace('{s}', scheme)
    case0 = {'part': part, 'base': base, 'refs': [''], 'history': kind, 'scheme': scheme}
    g.call(case0, apply_history, URL, kind, scheme)

    def info(text):
        try:
            return _base_info(g, URL, part, text)
        except Exception as e:         # a base of the stated space that cannot even be parsed / inspected
            t.count(nontrivial=False)
            t.bad('C07|fn:after-history:URL|raised', dict(case0, base=text), 'a URL object',
                  'raised %s' % type(e).__name__, tags=['after_history'])
            return None

    bi = info(base)
    if bi is None:
        return

    def one(b, refs, nontrivial):
        case = {'part': part, 'base': b.text, 'refs': refs, 'history': kind, 'scheme': scheme}
        t.count(nontrivial=nontrivial, sample=case if len(t.samples) < 2 else None)
        _record(t, case, g.call(case, eval_after_history, URL, b, refs, kind, scheme, True))

    for rkind in ('abs', 'rel'):
        for path in ref_paths(rkind, SEGMENTS, arg['maxseg']):
            for q in (None, 'y'):
                for f in FRAGMENTS:
                    ref = make_ref(path, q, f)
                    if arg['hostless'] and hostless_skip(bi.split, split_uri(ref)):
                        t.add('skipped_hostless_rooted_or_two_slashes')
                        continue
                    one(bi, [ref], path_is_nontrivial(path))
    for r1, r2 in (('g/', '../h'), ('', '#s'), ('/x/y', 'z?y'), ('g', '?y')):
        s1 = split_uri(r1)
        if arg['hostless'] and (hostless_skip(bi.split, s1) or hostless_skip(expected_target(bi.split, s1), split_uri(r2))):
            continue
        one(bi, [r1, r2], True)
    # references with their own scheme and host, of the scheme the history is about, from bases of another scheme
    for other in ('http://a/b/c?q', 'zq://h/p') if arg['absolute'] else ():
        obi = info(other)
        for tail in ('://k', '://k/', '://k/x/../y?y#s', '://u@k:81/x/./y/..') if obi is not None else ():
            one(obi, [bi.split[0] + tail], True)
    # normalize() twice == once, for the victim and a dotted sibling
    for text in (bi.text, bi.text.split('?')[0].split('#')[0].rstrip('/') + '/x/../y/./'):
        for with_case in (True, False):
            case = {'part': part, 'url': text, 'with_case': with_case, 'history': kind, 'scheme': scheme}
            t.count(nontrivial=True)
            _record(t, case, g.call(case, eval_after_history, URL, text, None, kind, scheme, True, with_case))


def history_args(maxseg):
    args = []
    for hi, kind in enumerate(HISTORY_KINDS):
        for vi, (victim, hostless) in enumerate(HISTORY_CUSTOM_VICTIMS):
            scheme = 'h' + chr(ord('a') + hi) + chr(ord('a') + vi)
            args.append({'part': 'navigate-history', 'history': kind, 'scheme': scheme, 'base': victim,
                         'hostless': hostless, 'maxseg': maxseg, 'absolute': True})
        for victim, hostless in HISTORY_REGISTERED_VICTIMS:
            if kind == 'none':
                continue               # these very cases without a history are in the other parts
            args.append({'part': 'navigate-history', 'history': kind, 'scheme': victim.split(':')[0], 'base': victim,
                         'hostless': hostless, 'maxseg': maxseg,
                         'absolute': not hostless})    # "urn://k": a scheme registered as having no authority

    return args


# ----------------------------------------------------------------------------------------------------

def bounds(tier):
    if tier == 'quick':
        return {'navigate_maxseg': 4, 'names_maxseg': 3, 'absolute_maxseg': 2, 'chain_maxseg': 2,
                'object_maxseg': 2, 'absolute_object_maxseg': 1, 'encoded_maxseg': 3, 'reserved_maxseg': 2,
                'encoded_deep_bases': 9,
                'chain_bases': 4, 'chain_second': 'path x {"", "?y#s"}', 'normalize_maxseg': 4,
                'hostless_maxseg': 3, 'pct_maxseg': 2, 'history_maxseg': 2}
    return {'navigate_maxseg': 5, 'names_maxseg': 4, 'absolute_maxseg': 3, 'chain_maxseg': 2,
            'object_maxseg': 3, 'absolute_object_maxseg': 2, 'encoded_maxseg': 4, 'reserved_maxseg': 3,
            'encoded_deep_bases': len(ENC_BASES),
            'chain_bases': len(CHAIN_BASES), 'chain_second': 'path x {"", "?y"} x {"", "#s"}', 'normalize_maxseg': 6,
            'hostless_maxseg': 5, 'pct_maxseg': 3, 'history_maxseg': 3}


def run(ctx):
    b = bounds(ctx.tier)
    rule = ("a case is non-trivial when the reference path has a '.' or '..' segment, an empty segment other "
            "than one trailing slash, or is empty (same-document, query-only or fragment-only reference); "
            "for normalize: the URL path has such a segment")

    args = [{'part': 'navigate', 'base': base, 'kind': kind, 'alphabet': SEGMENTS, 'maxseg': b['navigate_maxseg'],
             'queries': QUERIES, 'fragments': FRAGMENTS, 'object_maxseg': b['object_maxseg']}
            for base in BASES for kind in ('abs', 'rel')]
    inputs.run_shards(ctx, _guarded(shard_navigate), args, part='navigate', rule=rule)

    args = [{'part': 'navigate-names', 'base': base, 'kind': kind, 'alphabet': NAME_SEGMENTS,
             'maxseg': b['names_maxseg'], 'queries': (None, 'y'), 'fragments': (None,),
             'object_maxseg': b['object_maxseg']}
            for base in NAME_BASES for kind in ('abs', 'rel')]
    inputs.run_shards(ctx, _guarded(shard_navigate), args, part='navigate-names', rule=rule)

    # queries and fragments that contain the characters they may legally contain ("/", "?", ":", "@"), up to whole
    # URLs ("n=http://x/y", "#x://h/p") - they must not be taken for component delimiters, a scheme or an authority -
    # on references of at most one segment
    delim_qf = [(q, f) for q in DELIM_QUERIES[:2] for f in DELIM_FRAGMENTS[:4]]
    delim_qf += [(q, None) for q in DELIM_QUERIES[2:]] + [(None, f) for f in DELIM_FRAGMENTS[4:]]
    delim_qf += [(DELIM_QUERIES[2], DELIM_FRAGMENTS[4])]
    args = [{'part': 'navigate-delims', 'base': base, 'kind': kind, 'alphabet': SEGMENTS, 'maxseg': 1,
             'qf': delim_qf, 'object_maxseg': 1}
            for base in BASES for kind in ('abs', 'rel')]
    inputs.run_shards(ctx, _guarded(shard_navigate), args, part='navigate-delims', rule=rule)

    # segments with percent-encoded delimiters / reserved characters, in the base and in the reference
    args = [{'part': 'navigate-encoded', 'base': base, 'kind': kind, 'alphabet': alphabet, 'maxseg': maxseg,
             'queries': qs, 'fragments': (None,), 'object_maxseg': b['object_maxseg'], 'relative_only': True}
            for i, base in enumerate(ENC_BASES) for kind in ('abs', 'rel')
            for alphabet, maxseg, qs in ((ENC_SEGMENTS, b['encoded_maxseg'] if i < b['encoded_deep_bases'] else 2, (None,)),
                                         (RESERVED_SEGMENTS, b['reserved_maxseg'], (None, 'n=http://x/y')))]
    args += [{'part': 'navigate-encoded', 'base': base, 'kind': kind, 'alphabet': ENC_SEGMENTS, 'maxseg': 2,
              'queries': (None,), 'fragments': (None,), 'object_maxseg': 1, 'relative_only': True}
             for base in BASES for kind in ('abs', 'rel')]
    inputs.run_shards(ctx, _guarded(shard_navigate), args, part='navigate-encoded', rule=rule)

    # bases without a host
    args = [{'part': 'navigate-hostless', 'base': base, 'kind': kind, 'alphabet': SEGMENTS, 'maxseg': b['hostless_maxseg'],
             'queries': (None, 'y'), 'fragments': FRAGMENTS, 'object_maxseg': 1, 'hostless': True}
            for base in HOSTLESS_BASES for kind in ('abs', 'rel')]
    inputs.run_shards(ctx, _guarded(shard_navigate), args, part='navigate-hostless', rule=rule)

    # hosts with letters that case folding / compatibility mappings would rename, mixed-case ASCII hosts and schemes
    hosts = host_bases()
    args = [{'part': 'navigate-hosts', 'base': base} for base in hosts]
    inputs.run_shards(ctx, _guarded(shard_hosts), args, part='navigate-hosts', rule=rule)

    # segments (query values, fragments) with an escaped percent sign, compared in the fully quoted rendering
    args = [{'part': 'navigate-pct', 'base': base, 'kind': kind, 'alphabet': PCT_SEGMENTS, 'maxseg': b['pct_maxseg'],
             'qf': PCT_QF, 'relative_only': True}
            for base in PCT_BASES for kind in ('abs', 'rel')]
    inputs.run_shards(ctx, _guarded(shard_navigate), args, part='navigate-pct', rule=rule)

    # queries whose keys / values carry percent-encoded query delimiters: in the reference (replaces the base query)
    # and in the base (inherited by path-less references without a query, dropped otherwise)
    eq = enc_queries()
    args = [{'part': 'navigate-queries', 'base': base, 'kind': kind, 'alphabet': SEGMENTS, 'maxseg': 1,
             'qf': [(q, f) for q in eq[i::4] for f in FRAGMENTS], 'object_maxseg': 1}
            for base in QUERY_REF_BASES for kind in ('abs', 'rel') for i in range(4)]
    args += [{'part': 'navigate-queries', 'base': 'http://a/b/c?' + q + frag, 'kind': kind, 'alphabet': SEGMENTS, 'maxseg': 1,
              'qf': [(None, None), (None, 's'), ('y', None)], 'object_maxseg': 1}
             for j, q in enumerate(eq) for frag in (('', '#f')[j % 2],) for kind in ('abs', 'rel')]
    inputs.run_shards(ctx, _guarded(shard_navigate), args, part='navigate-queries', rule=rule)

    # the base object itself as the reference (base.navigate(base)), parsed and after normalize()
    sb = self_bases(hosts)
    args = [{'part': 'navigate-self', 'bases': sb[i::16]} for i in range(16)]
    inputs.run_shards(ctx, _guarded(shard_self), args, part='navigate-self', rule=rule)

    # directed, not exhaustive: references / base paths of many segments (sizes around powers of two)
    args = [{'part': 'navigate-long', 'n': n} for n in LONG_SIZES]
    inputs.run_shards(ctx, _guarded(shard_long), args, part='navigate-long', rule=rule)

    # every case as the last step of a history of other URLs handled by the same process
    args = history_args(b['history_maxseg'])
    inputs.run_shards(ctx, _guarded(shard_history), args, part='navigate-history', rule=rule)

    args = [{'part': 'absolute', 'base': base, 'maxseg': b['absolute_maxseg'],
             'object_maxseg': b['absolute_object_maxseg']} for base in ABS_BASES]
    inputs.run_shards(ctx, _guarded(shard_absolute), args, part='absolute', rule=rule)

    refs1 = chain_refs(b['chain_maxseg'], (None, 'y'), (None, 's'))
    if ctx.quick():
        refs2 = [x for x in chain_refs(b['chain_maxseg'], (None,), (None,))]
        refs2 += [(r + '?y#s', nt) for r, nt in refs2]
    else:
        refs2 = refs1
    args = []
    for base in CHAIN_BASES[:b['chain_bases']]:
        for i in range(4):                         # four slices of the first references per base
            args.append({'part': 'chain', 'base': base, 'refs1': refs1[i::4], 'refs2': refs2})
    enc_refs = chain_refs(2, (None,), (None,), CHAIN_ENC_SEGMENTS)
    enc_refs2 = enc_refs + [(r + '?y#s', nt) for r, nt in enc_refs]
    for base in CHAIN_ENC_BASES:
        for i in range(4):
            args.append({'part': 'chain', 'base': base, 'refs1': enc_refs[i::4], 'refs2': enc_refs2})
    pct_refs = chain_refs(2, (None,), (None,), CHAIN_PCT_SEGMENTS)
    for base in ('http://a/b/c', 'http://a/%252e%252e/b?q', 'foo:a/b/c', 'file:///a/b'):
        args.append({'part': 'chain', 'base': base, 'refs1': pct_refs, 'refs2': pct_refs})
    inputs.run_shards(ctx, _guarded(shard_chain), args, part='chain', rule=rule)

    args = [{'part': 'normalize', 'prefix': p, 'alphabet': SEGMENTS, 'maxseg': b['normalize_maxseg']}
            for p in NORMALIZE_PREFIXES]
    args += [{'part': 'normalize', 'prefix': p, 'alphabet': NAME_SEGMENTS, 'maxseg': b['names_maxseg']}
             for p in ('', 'http://a')]
    args += [{'part': 'normalize', 'prefix': p, 'alphabet': ENC_SEGMENTS, 'maxseg': b['encoded_maxseg']}
             for p in ('', 'http://a')]
    args += [{'part': 'normalize', 'prefix': p, 'alphabet': PCT_SEGMENTS, 'maxseg': b['pct_maxseg']}
             for p in ('', 'http://a', 'foo:a')]
    args += [{'part': 'normalize', 'prefix': p.rsplit('/b/c', 1)[0], 'alphabet': SEGMENTS, 'maxseg': 1} for p in hosts]
    inputs.run_shards(ctx, _guarded(shard_normalize), args, part='normalize', rule=rule)

    cov = ctx.coverage
    cov['rule'] = rule
    hangs = sum(p.get('hangs', 0) for p in cov.get('parts', {}).values())
    cov['exhaustive'] = hangs == 0    # no cap: every case of the stated space is evaluated (unless the code hung)
    if hangs:
        cov['cap_hit'] = '%d case(s) exceeded the CPU budget; shards were abandoned after repeated hangs' % hangs
    cov['bounds'] = dict(b, segments=list(SEGMENTS), name_segments=list(NAME_SEGMENTS),
                         queries=['<none>', '?y', '?'], fragments=['<none>', '#s'], bases=list(BASES),
                         name_bases=list(NAME_BASES), chain_bases=list(CHAIN_BASES[:b['chain_bases']]),
                         absolute_bases=list(ABS_BASES), absolute_schemes=list(ABS_SCHEMES),
                         absolute_authorities=list(ABS_AUTHORITIES), normalize_prefixes=list(NORMALIZE_PREFIXES),
                         chain_first_refs=len(refs1), chain_second_refs=len(refs2),
                         encoded_segments=list(ENC_SEGMENTS), reserved_segments=list(RESERVED_SEGMENTS),
                         encoded_bases=list(ENC_BASES), delim_queries=list(DELIM_QUERIES[1:]),
                         delim_fragments=list(DELIM_FRAGMENTS[1:]), chain_encoded_segments=list(CHAIN_ENC_SEGMENTS),
                         chain_encoded_bases=list(CHAIN_ENC_BASES), chain_encoded_first_refs=len(enc_refs),
                         chain_encoded_second_refs=len(enc_refs2), long_sizes=list(LONG_SIZES),
                         long_bases=list(LONG_BASES) + ['http://a/<n times b/>c?q'],
                         hostless_bases=list(HOSTLESS_BASES), host_bases=hosts, host_refs=list(HOST_REFS),
                         host_ref_bases=list(HOST_REF_BASES), pct_segments=list(PCT_SEGMENTS),
                         pct_bases=list(PCT_BASES), pct_query_fragment=[list(x) for x in PCT_QF],
                         chain_pct_segments=list(CHAIN_PCT_SEGMENTS),
                         query_keys=list(QUERY_KEYS), query_values=['<no "=">' if v is None else v for v in QUERY_VALUES],
                         encoded_queries=len(eq), query_ref_bases=list(QUERY_REF_BASES),
                         query_base='http://a/b/c?<query>[#f]', self_bases=len(sb),
                         history_kinds=list(HISTORY_KINDS),
                         history_victims=[v for v, _ in HISTORY_CUSTOM_VICTIMS + HISTORY_REGISTERED_VICTIMS],
                         history_siblings=list(HISTORY_AUTHORITY_SIBLINGS + HISTORY_AUTHORITY_LESS_SIBLINGS
                                               + HISTORY_OTHER_SCHEMES + HISTORY_FAILING))
    cov['directed_parts'] = {'navigate-long': 'not exhaustive in any sense beyond its own list: %d reference patterns '
                             'of n..5n segments per base, n in long_sizes' % len(long_refs(1))}
    ctx.assumptions += [
        'base URLs are absolute.  Bases without a host (navigate-hostless: rootless, rooted, empty authority) are resolved '
        'except for two classes decided on the reference model alone and counted as skipped_*: cases where the literal RFC '
        '3986 5.2.4 algorithm turns a rootless path into a rooted one ("foo:a/b" + ".." -> "foo:/", URL gives "foo:"), and '
        'targets whose path would begin with "//" without a host (RFC 3986 3.3 forbids it / URL("file:////a") drops the '
        'empty segments).  "foo://" (empty authority, empty path) and "file:/a/b" (URL re-spells it "file:///a/b") are '
        'not explored',
        'hosts are DNS-valid lower-case names or IP literals, internationalized names that URL renders back unchanged '
        '(navigate-hosts; letters found by introspection of the Unicode tables: c.lower() == c but casefold / NFKC / '
        'upper().lower() give other text), or carry ASCII capitals in scheme / host - only these last cases are compared '
        'modulo ASCII case of scheme and host (RFC 3986 6.2.2.1), userinfo exactly.  Punycode ("xn--") hosts are re-spelled '
        'by URL and not explored; a host that URL() itself rejects is counted as skipped_host_not_accepted_by_URL',
        'segments / query values / fragments with an escaped percent sign ("%252e%252e", "%2525", "100%25"; navigate-pct, '
        'chain, normalize) are ordinary text for the RFC reference; these cases are compared in the fully quoted '
        'rendering to_text(full_quote=True), the plain rendering writes a literal "%" unescaped and is not demanded',
        'percent-encoding: only segments that URL renders back unchanged are used (upper-case hex escapes of the '
        'delimiters "/", "?", "#" and of "&", "=" in queries; reserved characters ":", "@", ";", "=" that are legal '
        'in a segment; one non-ASCII letter); an escape is opaque text for the RFC reference.  Escapes that URL '
        're-spells when rendering (%20, %41, %2E, lower-case hex) and encoded dots are not explored: the '
        'statement says nothing about percent-encoding normalization',
        'to_text(full_quote=True) of the result is demanded to equal the plain rendering whenever that is ASCII: every '
        'character of the explored alphabets is legal where it stands, so full quoting has nothing to change',
        'in the navigate-encoded part only relative references are resolved (a first segment such as "x:" would make '
        'the text a reference with a scheme but no host, which the statement does not cover; counted as '
        'skipped_not_a_relative_reference)',
        'references have no authority of their own unless they also carry a scheme (the statement covers '
        'path-absolute, path-relative, query-only, fragment-only, empty and scheme+host references)',
        'expected text = RFC 3986 5.2 target with dot segments removed, compared modulo "empty path under an '
        'authority == /" and "explicit default port (http 80, https 443, ftp 21) == no port"',
        'queries with percent-encoded query delimiters (navigate-queries): every single key[=value] pair over query_keys x '
        'query_values and every two pairs over the first 3 keys x first 4 values, as the query of references of <= 1 '
        'segment and as the query of the base http://a/b/c; "+" / %20 (re-spelled by URL), more than two pairs and ";" '
        'separators are not explored',
        'navigate-self: base.navigate(base) - the base object itself as a reference with its own scheme and host - for every '
        'base text of the other parts that has a host (parsed and after normalize()); bases without a host are left out '
        '(a reference with a scheme but no host is outside the statement), and so are texts with an escaped percent sign '
        '(URL(url_object) copies through the plain rendering; counted as skipped_escaped_percent_with_URL_object_reference).  A reference URL object that is not the base '
        'may be modified by navigate(): the statement protects only the base; its second use must still resolve to the '
        'target of the text it then renders to',
        'chained navigation: the reference is applied step by step, each intermediate result normalized as the '
        'single-step property demands; the chain menu has no empty "?" query',
        'a URL object given as destination is compared with navigating to that object\'s own text',
        'navigate-history: a resolution does not depend on which URLs the process handled before (the statement speaks '
        'of base and reference only): the cases are evaluated after the enumerated histories and must give the RFC target.  '
        'Victim bases with an empty authority of an unregistered scheme ("foo:///a/b") are not explored (such texts are '
        'used as history only); histories are single lists of sibling texts, not every subset / order of them; no threads',
        'URL objects in other internal states (reference after normalize(), as the outcome of URL("").navigate(ref), '
        'as a copy URL(URL(ref)); base after normalize()) are explored for references of <= object_maxseg segments; '
        'such an object stands for the reference it renders to, and is only used when that text parses back to an '
        'equal object and has a shape the statement covers; the normalized base only when normalize() left it as it was',
    ]


def replay(ctx, data):
    case = data['case']
    old = signal.signal(signal.SIGVTALRM, _on_timer)
    signal.setitimer(signal.ITIMER_VIRTUAL, 4 * CASE_CPU_BUDGET_S)
    try:
        return _replay(ctx, data, case)
    except _Hang:
        return ['C07|fn:%s|hang case=%r: no result within %g CPU seconds'
                % (case.get('part'), case, 4 * CASE_CPU_BUDGET_S)]
    finally:
        signal.setitimer(signal.ITIMER_VIRTUAL, 0)
        signal.signal(signal.SIGVTALRM, old)


def _replay(ctx, data, case):
    URL = _url()
    part = case.get('part')
    if part == 'normalize':
        res = eval_normalize(URL, case['url'], case['with_case'])
    elif 'history' in case:
        if 'url' in case:
            res = eval_after_history(URL, case['url'], None, case['history'], case['scheme'], False, case['with_case'])
        else:
            res = eval_after_history(URL, BaseInfo(URL, case['base']), case['refs'], case['history'], case['scheme'])
    else:
        bi = BaseInfo(URL, case['base'])
        refs = case['refs']
        if case.get('self'):
            res = eval_self(URL, bi)
        elif len(refs) == 1:
            res = eval_navigate(URL, bi, refs[0], objects=bool(case.get('objects')))
        else:
            res = _chain_fresh(URL, bi, refs[0], refs[1])
    # violations that KNOWN_FINDINGS.txt already records are not reported again by a replay
    res = [r for r in res if ctx._known_match({'sig': r[0], 'tags': list(r[3])}) is None]
    want = str(data.get('signature'))
    res.sort(key=lambda r: r[0] != want)          # the recorded signature first, if it reproduces
    return ['%s case=%r expected=%r observed=%r' % (sig, case, exp, obs) for sig, exp, obs, _ in res]

"""C20 - cacheutils.ThresholdCounter never over-counts, under-counts boundedly, stays small; derived views consistent.

Engine E1 (mc.histories): breadth-first search over add/update histories driving the *real* ThresholdCounter; every
transition is executed on a freshly replayed object and compared with the true counts of the stream.

Search A (accuracy).  Streams over at most K interchangeable keys, enumerated as restricted-growth strings (the next
new key is always the first unused name; among existing keys with identical records only one is extended).  Canonical
state = (total, current bucket, sorted per-key records (tracked?, count, entry bucket, true count)); the true counts sum
to the total, so `total mod w` is part of the key.  Sorting the records is sound because the class looks at keys only
through hashing/equality and the statement constrains no ordering other than most_common's, which is checked on
every transition *before* states are merged.  Some configurations add a menu of update() calls (iterable: list,
tuple, generator, str; mapping: dict, Counter, mappingproxy, UserDict; keyword counts next to an iterable/mapping;
the counter's own lazy views elements() / iterkeys() as the iterable of keys - the additions are then whatever the
view yields, recorded while update() consumes it).  updates='shapes' configurations pass further argument types:
iterables of keys (set, frozenset, dict keys view, list iterator, deque, list subclass, an object with __iter__ only,
an object with __getitem__/__len__ only), mappings (OrderedDict, defaultdict, ChainMap, dict subclass, a
collections.abc.Mapping subclass that is no dict), objects that implement the whole Mapping protocol without
inheriting from or being registered with collections.abc.Mapping (items()/keys()/values() returning lists, or
one-shot iterators), another ThresholdCounter (the class calls itself a "dict-like Mapping from keys to counts"; the
additions are the pairs its items() reports just before the call; the source is exact, or has culled part of its own
stream so that its total exceeds the sum of its items, or is the counter itself), and empty arguments.  After every
update() the caller empties the container it passed.
updates='failing' configurations add update() calls whose source fails part-way after handing over well-formed keys /
counts (a generator that raises, an iterator whose __next__ raises KeyError, a dict / keyword counts whose last count
is None / 2.5 / '2', a duck-typed mapping whose items() iterator raises, a non-iterable argument) and calls that are
handed an unhashable object where a key is expected (add([]), add({}), ..., update([key, <unhashable>, key]); the
rejected object has no true count and may or may not be counted in total).  Whether update() / add()
raises is not judged.  The statement does not say how many of the handed-over additions count; the object's total
says how many it counted: i = total - additions before must lie in 0..handed over       C20|op:update(failing-source)|total-...
and the stream continues with the first i of them as the additions made; an over-/under-count under that reading is
reported only if no other choice of i of the handed-over unit additions explains the reported counts either.
Thresholds are floats, or (configurations / directed histories whose threshold reads ('F', p, q) / ('D', text)) the exact
rationals fractions.Fraction(p, q) / decimal.Decimal(text): the statement quantifies over all thresholds in (0, 1) and
its formula floor(1/threshold) is unambiguous for them.
Directed histories (complete lists, every listed operation examined like a transition of the searches):
  bulk - a short prefix, ONE update() handing over D distinct new keys (D around the multiples of the bucket width and
  beyond 2/threshold; sources that fail after the last key - generator, iterator, list holding an unhashable object, dict /
  keyword counts with a bad count last, duck-typed mapping - and list / dict / generator / duck-typed mapping that do not
  fail), then three ordinary adds; the size bound and the counts are judged right after the (failed) call;
  wide - thresholds 1/n and 2/(2n+1) as float, Fraction and (finite decimals) Decimal, n dense up to a few hundred and
  around powers of 2, 3, 5, 10: one rare key, a hot key through two bucket boundaries, examined at totals 1, w-1, w, w+1,
  2w-2, 2w-1, 2w, 2w+1.
Key types: most configurations use 1-character strings; 'mixed:<r>' configurations draw the keys from a fixed list
of pairwise unequal hashable objects of different, mutually unorderable types (None, int, str, complex, tuples
holding None, float, bytes, frozenset), rotated by r.  Histories, true counts and reported cases stay in terms of key
*names*; names are translated to the objects at the call boundary and back in everything the object returns.

Search B (size bound).  The tracked set's future depends only on (total mod w, multiset of slack = count + entry -
current bucket); BFS over that abstraction (read off the real object's internals), unlimited fresh keys, the real
object being driven by a representative stream for each abstract state.  All oracles of search A run here too.

Oracles after every operation (state oracle; a failing transition is not expanded):
    the call returns, total == number of additions                       C20|op:<op shape>|raised / total
        (op shapes: add, update(iterable), update(mapping), update(iterable,**counts), update(mapping,**counts),
        update(own-lazy-view), update(duck-typed-mapping), update(ThresholdCounter), add(unhashable-object),
        update(iterable-holding-an-unhashable-object))
    for every key of the stream (and one never-added key), reported = tc[k] if k in tc else 0:
    reported <= true, true - reported <= floor(total / floor(1/threshold))
                                       C20|invariant:over-count / under-count>slack / frequent-key-absent
    len(tc) <= 2/threshold (reported, but the state is still expanded: the other demands are independent of it)
                                       C20|invariant:size<=2/threshold, tagged textbook_lossy_counting_also_exceeds when
                                       the published Lossy Counting algorithm, run on the same stream, itself holds more
                                       than 2/threshold entries and the object holds no more entries than it.
Read oracles (only in sound states): get(k), len, items, keys, values, elements, most_common() and most_common(n)
against the per-key counts (n in 0, 1, 2, len-1, len, len+1, 99); get_common_count() + get_uncommon_count() == total.
Reads are also part of the history: before the operation under examination the caller reads most_common(), items(),
keys(), values(), the two sums and starts an elements() iterator, and edits the lists it was handed (reverse, append a
row) - so every (state, operation) pair is explored as read, operation, read.  Second look (histories of at most
SECOND_LOOK_OPS operations, after a clean first look): the caller edits every list the readers returned and reads
per-key counts, len, items, keys, values, most_common(), most_common(n>=len), most_common(n<len) again with no
addition in between; they must still agree with the per-key counts     C20|read:<reader>|second-read-after-caller-edited-earlier-results
"""
import collections
import collections.abc
import decimal
import fractions
import itertools
import math
import signal
import string
import types

from mc import core, histories

PROPERTY = 'C20'
LEVEL = 'model_checking'

KEYS = string.ascii_lowercase + string.ascii_uppercase
NEVER = 'never_added'
STEP_CPU_S = 10.0
SECOND_LOOK_OPS = 12          # the second look (see Spec.second_look) follows histories of at most this many operations
SIZE_SIG = 'C20|invariant:size<=2/threshold'
SIZE_TAG = 'textbook_lossy_counting_also_exceeds'
# pairwise unequal hashable keys; neighbours are not orderable against each other (TypeError on <)
MIXED = (None, 404, 'timeout', 1j, ('GET', None), 2j, ('GET', 200), 2.5, b'x', frozenset((1,)))
MIXED_NEVER = ('never_added', None)
VIEW_OPS = ('ve', 'vk')
SCRIBBLE = ('<row added by the caller>', 10 ** 6)
# further argument types for update(): iterables of keys ...
ITER_KINDS = {'uS': 'set', 'uF': 'frozenset', 'uv': 'dict-keys-view', 'ui': 'list-iterator', 'uq': 'deque',
              'uI': 'object-with-__iter__-only', 'uG': 'object-with-__getitem__/__len__-only', 'uL': 'list-subclass'}
# ... mappings of key to count that are dict subclasses / collections.abc.Mapping instances ...
MAP_KINDS = {'mo': 'OrderedDict', 'mf': 'defaultdict', 'mh': 'ChainMap', 'ms': 'dict-subclass',
             'ma': 'collections.abc.Mapping-subclass'}
# ... and objects that implement the whole Mapping protocol without inheriting from / being registered with it
DUCK_KINDS = {'mq': 'duck-typed-mapping(lists)', 'mi': 'duck-typed-mapping(iterators)'}
# update() calls whose *source* fails part-way (the keys / counts handed over before the failure are well-formed):
FAIL_KINDS = {'xg': 'generator-that-raises', 'xr': 'iterator-whose-__next__-raises-KeyError',
              'xm': 'dict-with-a-non-integer-count-last', 'xq': 'duck-typed-mapping-whose-items()-raises',
              'xk': 'list,**counts-with-a-non-integer-count-last', 'xn': 'non-iterable',
              # ... and calls that are handed an object that cannot be a key (unhashable) between ordinary keys
              'xa': 'add-of-an-unhashable-object', 'xu': 'list-holding-an-unhashable-object'}
MAX_REJECTED_COUNTED = 2          # unhashable objects are offered while total counts fewer than this many of them
UNH = '<unhashable object>'       # stands for the rejected object in the additions; never a key of the true counts
UNHASHABLE = (list, dict, lambda: ('GET', []), set, bytearray)
BAD_COUNTS = (None, 2.5, '2')     # range(count) refuses them
FAIL_SHAPE = 'update(failing-source)'


def key_name(i):
    return KEYS[i] if i < len(KEYS) else 'k%d' % i


class Budget(BaseException):
    pass


def _on_timer(signum, frame):
    raise Budget()


def detuple(x):
    if isinstance(x, (list, tuple)):
        return tuple(detuple(i) for i in x)
    return x


def make_threshold(t):
    """The threshold object for its JSON-able description: a float, ('F', p, q) = fractions.Fraction(p, q),
    ('D', text) = decimal.Decimal(text)."""
    if isinstance(t, (list, tuple)):
        if t[0] == 'F':
            return fractions.Fraction(int(t[1]), int(t[2]))
        if t[0] == 'D':
            return decimal.Decimal(t[1])
        raise AssertionError(t)
    return t


def widths(threshold):
    """floor(1/threshold) in float arithmetic (what the statement's formula yields when evaluated in Python) and in
    exact rational arithmetic on the float's value; they differ for e.g. 0.2 (5 vs 4) and 0.1 (10 vs 9)."""
    return math.floor(1 / threshold), math.floor(1 / fractions.Fraction(threshold))


def exceeds_bound(n, threshold):
    """n > 2/threshold under the float and the exact reading."""
    return n > 2 / threshold and n > 2 / fractions.Fraction(threshold)


# ----------------------------------------------------------------------------------------------------
# reference side

class Lossy:
    """Textbook Lossy Counting (Manku & Motwani 2002, section 4.2) with bucket width w.  Used *only* to scope the size
    finding (does the published algorithm itself hold more than 2/threshold entries on this stream?), never for a
    verdict."""

    def __init__(self, w):
        self.w, self.n, self.d = w, 0, {}

    def add(self, k):
        self.n += 1
        b = -(-self.n // self.w)                 # b_current = ceil(N / w)
        e = self.d.get(k)
        if e is None:
            self.d[k] = [1, b - 1]               # (e, f=1, delta=b_current-1)
        else:
            e[0] += 1
        if self.n % self.w == 0:                 # bucket boundary: delete entries with f + delta <= b_current
            for x in [x for x, (f, dl) in self.d.items() if f + dl <= b]:
                del self.d[x]


class Model:
    """True counts of the stream and number of additions."""

    def __init__(self):
        self.true = {}
        self.adds = 0
        self.stream = []

    def copy(self):
        m = Model()
        m.true, m.adds, m.stream = dict(self.true), self.adds, list(self.stream)
        return m

    def apply(self, op, fed=None):
        """fed: the (key, 1) additions a view operation was seen to feed (recorded while update() consumed the view)."""
        for k, n in (additions(op) if fed is None else fed):
            if k != UNH:
                self.true[k] = self.true.get(k, 0) + n
            self.adds += n
            self.stream.append((k, n))


def textbook_size(ws, stream):
    """Largest number of entries the published algorithm holds after the (key, n) additions of `stream`, over the
    widths ws."""
    best = 0
    for w in sorted(set(ws)):
        if w < 1:
            continue
        ref = Lossy(w)
        for k, n in stream:
            for _ in range(n):
                ref.add(k)
        best = max(best, len(ref.d))
    return best


def failing(op):
    return not isinstance(op, str) and op[0] in FAIL_KINDS


def offered(op):
    """The unit additions (key, 1) a failing source hands over, in its order, before it fails."""
    kind = op[0]
    if kind == 'xn':
        return []
    if kind == 'xa':
        return [(UNH, 1)]
    if kind == 'xu':
        return [(k, 1) for k in op[1]] + [(UNH, 1)] + [(k, 1) for k in op[2]]
    if kind in ('xg', 'xr'):
        return [(k, 1) for k in op[1]]
    if kind in ('xm', 'xq'):
        return [(k, 1) for k, n in op[1] for _ in range(n)]
    if kind == 'xk':
        return [(k, 1) for k in op[1]] + [(k, 1) for k, n in op[2] for _ in range(n)]
    raise AssertionError(op)


def account(model, op, r, tc):
    """Book the additions of an executed operation r = impl_apply(...) into the true counts.  An update() whose
    source failed stands for the first i unit additions the source handed over, i = total - additions so far (the
    statement leaves open how many of them count; total says how many the object counted).  Returns None, or
    (total, offered units) when total is no such number."""
    if not failing(op):
        model.apply(op, r[2])
        return None
    units = r[2]
    for k, _ in units:
        if k != UNH:
            model.true.setdefault(k, 0)
    total = guarded(lambda: tc.total)
    i = total - model.adds if type(total) is int else -1
    if not 0 <= i <= len(units):
        return (total, units)
    model.apply(op, units[:i])
    return None


def other_reading_possible(before, units, total, reported, slack):
    """Could *some* choice of total - before.adds of the offered unit additions (not necessarily the first ones) be
    the true counts behind the reported ones?  x_k of key k's offered units count, 0 <= x_k <= offered_k,
    sum x_k = total - before.adds, reported_k <= before_k + x_k <= reported_k + slack."""
    off = collections.Counter(k for k, _ in units)
    lo_sum = hi_sum = 0
    for k, c in reported.items():
        tb = before.true.get(k, 0)
        lo, hi = max(0, c - tb), min(off.get(k, 0), slack + c - tb)
        if lo > hi:
            return False
        lo_sum, hi_sum = lo_sum + lo, hi_sum + hi
    hi_sum += off.get(UNH, 0)                  # a rejected object may or may not count as an addition
    return lo_sum <= total - before.adds <= hi_sum


def additions(op):
    """The additions an operation stands for, as (key, n) in the order of the argument."""
    if isinstance(op, str):
        return [(op, 1)]
    kind = op[0]
    if kind in FAIL_KINDS:
        raise AssertionError('the additions of an update() whose source fails are settled by account(): %r' % (op,))
    if kind in ('ul', 'ut', 'ug', 'us') or kind in ITER_KINDS:
        return [(k, 1) for k in op[1]]
    if kind in ('md', 'mc', 'mp', 'mu', 'mt') or kind in MAP_KINDS or kind in DUCK_KINDS:
        return [(k, n) for k, n in op[1]]
    if kind == 'kw':
        return [(k, 1) for k in op[1]] + [(k, n) for k, n in op[2]]
    if kind == 'mkw':
        return [(k, n) for k, n in op[1]] + [(k, n) for k, n in op[2]]
    if kind in VIEW_OPS or kind in ('mT', 'mS'):
        raise AssertionError('the additions of a view operation are only known by executing it: %r' % (op,))
    raise AssertionError(op)


_SHAPE = {'ul': 'update(iterable)', 'ut': 'update(iterable)', 'ug': 'update(iterable)', 'us': 'update(iterable)',
          'md': 'update(mapping)', 'mc': 'update(mapping)', 'mp': 'update(mapping)', 'mu': 'update(mapping)',
          'kw': 'update(iterable,**counts)', 'mkw': 'update(mapping,**counts)',
          've': 'update(own-lazy-view)', 'vk': 'update(own-lazy-view)', 'mt': 'update(ThresholdCounter)'}
_SHAPE.update({k: 'update(iterable)' for k in ITER_KINDS})
_SHAPE.update({k: 'update(mapping)' for k in MAP_KINDS})
_SHAPE.update({k: 'update(duck-typed-mapping)' for k in DUCK_KINDS})
_LABEL = {'ul': 'update(list)', 'ut': 'update(tuple)', 'ug': 'update(generator)', 'us': 'update(str)',
          'md': 'update(dict)', 'mc': 'update(Counter)', 'mp': 'update(mappingproxy)', 'mu': 'update(UserDict)',
          'kw': 'update(list,**counts)', 'mkw': 'update(dict,**counts)',
          've': 'update(self.elements())', 'vk': 'update(self.iterkeys())',
          'mt': 'update(another ThresholdCounter)'}
for _kinds in (ITER_KINDS, MAP_KINDS, DUCK_KINDS, FAIL_KINDS):
    _LABEL.update({k: 'update(%s)' % v for k, v in _kinds.items()})
_SHAPE.update({k: FAIL_SHAPE for k in FAIL_KINDS})
_SHAPE.update({'xa': 'add(unhashable-object)', 'xu': 'update(iterable-holding-an-unhashable-object)',
               'mT': 'update(ThresholdCounter)', 'mS': 'update(ThresholdCounter)'})
_LABEL.update({'xa': 'add(unhashable object)', 'mT': 'update(another ThresholdCounter that has culled keys)',
               'mS': 'update(the counter itself)'})


def opsig(op):
    return 'add' if isinstance(op, str) else _SHAPE[op[0]]


def oplabel(op):
    return 'add' if isinstance(op, str) else _LABEL[op[0]]


# ----------------------------------------------------------------------------------------------------
# implementation side

def _same(k):
    return k


def recording(view, fed, dec):
    """The keys of `view`, each noted (as a name) in `fed` when it is handed to the consumer."""
    for k in view:
        fed.append((dec(k), 1))
        yield k


class IterOnly:
    """An iterable of keys that is nothing else (no __len__, no __getitem__)."""

    def __init__(self, keys):
        self._keys = list(keys)

    def __iter__(self):
        return iter(self._keys)


class LegacySeq:
    """An iterable of keys through the sequence protocol only (__getitem__ with 0, 1, ... until IndexError)."""

    def __init__(self, keys):
        self._keys = list(keys)

    def __getitem__(self, i):
        return self._keys[i]

    def __len__(self):
        return len(self._keys)


class ListSub(list):
    pass


class DictSub(dict):
    pass


class AbcMap(collections.abc.Mapping):
    """A read-only mapping that is not a dict."""

    def __init__(self, pairs):
        self._pairs = list(pairs)

    def __getitem__(self, key):
        for k, v in self._pairs:
            if k == key:
                return v
        raise KeyError(key)

    def __iter__(self):
        return iter([k for k, _ in self._pairs])

    def __len__(self):
        return len(self._pairs)


class DuckMap:
    """A mapping of key to count by protocol only: every method of collections.abc.Mapping, no inheritance from it,
    no registration with it.  lazy=True: keys()/items()/values() are one-shot iterators instead of lists."""

    def __init__(self, pairs, lazy=False):
        self._pairs, self._lazy = list(pairs), lazy

    def _out(self, seq):
        return iter(seq) if self._lazy else seq

    def __getitem__(self, key):
        for k, v in self._pairs:
            if k == key:
                return v
        raise KeyError(key)

    def __iter__(self):
        return iter([k for k, _ in self._pairs])

    def __len__(self):
        return len(self._pairs)

    def __contains__(self, key):
        return any(k == key for k, _ in self._pairs)

    def __eq__(self, other):
        return isinstance(other, DuckMap) and sorted(map(repr, self._pairs)) == sorted(map(repr, other._pairs))

    __hash__ = None

    def get(self, key, default=None):
        for k, v in self._pairs:
            if k == key:
                return v
        return default

    def keys(self):
        return self._out([k for k, _ in self._pairs])

    def values(self):
        return self._out([v for _, v in self._pairs])

    def items(self):
        return self._out(list(self._pairs))

    def clear(self):            # the caller's own later edit (see impl_apply), not part of the protocol update() needs
        del self._pairs[:]


class SourceFailed(Exception):
    pass


def failing_gen(items):
    for x in items:
        yield x
    raise SourceFailed('the source of the keys failed')


class FailingIter:
    """An iterator over keys whose __next__ raises KeyError once they are used up."""

    def __init__(self, keys):
        self._it = iter(list(keys))

    def __iter__(self):
        return self

    def __next__(self):
        for k in self._it:
            return k
        raise KeyError('lookup behind the source failed')


class FailingDuck(DuckMap):
    def items(self):
        return failing_gen(list(self._pairs))


def make_argument(kind, keys, pairs):
    """The positional argument of update() for an operation kind -> (argument, object the caller edits afterwards)."""
    if kind == 'ul':
        a = list(keys)
    elif kind == 'ut':
        return tuple(keys), None
    elif kind == 'ug':
        return (k for k in keys), None
    elif kind == 'us':
        return ''.join(keys), None
    elif kind == 'uS':
        a = set(keys)
    elif kind == 'uF':
        return frozenset(keys), None
    elif kind == 'uv':
        d = dict.fromkeys(keys, 7)
        return d.keys(), None
    elif kind == 'ui':
        return iter(list(keys)), None
    elif kind == 'uq':
        a = collections.deque(keys)
    elif kind == 'uI':
        a = IterOnly(keys)
        return a, a._keys
    elif kind == 'uG':
        a = LegacySeq(keys)
        return a, a._keys
    elif kind == 'uL':
        a = ListSub(keys)
    elif kind in ('md', 'kw', 'mkw'):
        a = dict(pairs) if kind != 'kw' else list(keys)
    elif kind == 'mc':
        a = collections.Counter(dict(pairs))
    elif kind == 'mp':
        d = dict(pairs)
        return types.MappingProxyType(d), d
    elif kind == 'mu':
        a = collections.UserDict(dict(pairs))
    elif kind == 'mo':
        a = collections.OrderedDict(pairs)
    elif kind == 'mf':
        a = collections.defaultdict(int, pairs)
    elif kind == 'mh':
        d = dict(pairs)
        return collections.ChainMap({}, d), d
    elif kind == 'ms':
        a = DictSub(pairs)
    elif kind == 'ma':
        a = AbcMap(pairs)
        return a, a._pairs
    elif kind in DUCK_KINDS:
        a = DuckMap(pairs, lazy=(kind == 'mi'))
    else:
        raise AssertionError(kind)
    return a, a


def impl_apply(tc, op, enc=_same, dec=_same):
    """Execute op -> (status, exception name or None, fed); fed is None unless the additions are only known by
    executing the operation (view operations: the keys the view was seen to yield; another ThresholdCounter as the
    mapping: the pairs it reported just before the call).
    After update() has returned the caller empties the container it passed (its own object): the additions were made
    by the call, later edits of the argument are no additions."""
    fed = None
    try:
        if isinstance(op, str):
            tc.add(enc(op))
            return ('ok', None, fed)
        kind = op[0]
        if kind in VIEW_OPS:
            fed = []
            view = tc.elements() if kind == 've' else tc.iterkeys()
            tc.update(recording(view, fed, dec))
            return ('ok', None, fed)
        if kind == 'mt':
            src = type(tc)(threshold=0.001)          # bucket width 1000: exact for the few additions made here
            for k, n in op[1]:
                for _ in range(n):
                    src.add(enc(k))
            fed = [(dec(k), c) for k, c in src.items()]
            tc.update(src)
            for k, n in op[1]:                       # the caller goes on using its other counter
                src.add(enc(k))
            return ('ok', None, fed)
        if kind == 'mT':
            src = type(tc)(threshold=op[2])          # a counter with a short bucket: it has culled part of its stream
            for k in op[1]:
                src.add(enc(k))
            fed = [(dec(k), c) for k, c in src.items()]
            tc.update(src)
            for k in op[1]:
                src.add(enc(k))
            return ('ok', None, fed)
        if kind == 'mS':                             # the counter itself as the mapping of key to count
            fed = [(dec(k), c) for k, c in tc.items()]
            tc.update(tc)
            return ('ok', None, fed)
        if kind in FAIL_KINDS:
            fed = offered(op)
            if kind == 'xn':
                tc.update(5)
            elif kind == 'xa':
                tc.add(UNHASHABLE[op[1]]())
            elif kind == 'xu':
                tc.update([enc(k) for k in op[1]] + [UNHASHABLE[op[3]]()] + [enc(k) for k in op[2]])
            elif kind == 'xg':
                tc.update(failing_gen([enc(k) for k in op[1]]))
            elif kind == 'xr':
                tc.update(FailingIter([enc(k) for k in op[1]]))
            elif kind == 'xm':
                tc.update(dict([(enc(k), n) for k, n in op[1]] + [(enc(NEVER), BAD_COUNTS[op[2]])]))
            elif kind == 'xq':
                tc.update(FailingDuck([(enc(k), n) for k, n in op[1]]))
            else:
                kw = {enc(k): n for k, n in op[2]}
                kw[enc(NEVER)] = None
                tc.update([enc(k) for k in op[1]], **kw)
            return ('ok', None, fed)
        keys = pairs = None
        if kind[0] == 'm':
            pairs = [(enc(k), n) for k, n in op[1]]
        else:
            keys = [enc(k) for k in op[1]]
        arg, mine = make_argument(kind, keys, pairs)
        if kind in ('kw', 'mkw'):
            tc.update(arg, **{enc(k): n for k, n in op[2]})
        else:
            tc.update(arg)
        if mine is not None:
            mine.clear()
        return ('ok', None, fed)
    except AssertionError:
        raise
    except Exception as e:
        return ('exc', type(e).__name__, fed)


def internals(tc, dec=_same):
    """(total, current bucket, bucket width, {key name: (count, entry)}) read off the object, or None when the object
    does not have the anchored layout (then canonical keys fall back to the public view)."""
    try:
        cm = tc._count_map
        return (int(tc.total), int(tc._cur_bucket), int(tc._thresh_count),
                {dec(k): (int(v[0]), int(v[1])) for k, v in cm.items()})
    except Exception:
        return None


def public_view(tc, universe, enc=_same):
    out = []
    for k in universe:
        try:
            out.append((k, tc[enc(k)]) if enc(k) in tc else (k, None))
        except Exception as e:
            out.append((k, 'raised ' + type(e).__name__))
    return out


def guarded(fn, limit=None):
    """Value of a reader (iterables materialised, at most `limit`+1 items), or the string 'raised X'."""
    try:
        v = fn()
        if limit is not None:
            v = list(itertools.islice(iter(v), limit + 1))
        return v
    except Exception as e:
        return 'raised ' + type(e).__name__


def limited(raw, limit):
    """What guarded(fn, limit) would have returned for a reader whose unmaterialised result is raw."""
    if isinstance(raw, str):
        return raw
    return guarded(lambda: raw, limit)


def check_most_common(got, n, per, dec=_same):
    """None, or what is wrong with most_common's result (n None = omitted); per is keyed by key names."""
    if not isinstance(got, list):
        return 'raised', got
    want_len = len(per) if n is None else min(n, len(per))
    try:
        pairs = [(dec(k), c) for k, c in got]
    except Exception:
        return 'not-pairs', got
    if len(pairs) != want_len:
        return ('returned-nothing' if not pairs else 'length'), got
    if len({k for k, _ in pairs}) != len(pairs):
        return 'duplicate-key', got
    for k, c in pairs:
        if k not in per or per[k] != c:
            return 'pair-disagrees-with-per-key-count', got
    cs = [c for _, c in pairs]
    if any(a < b for a, b in zip(cs, cs[1:])):
        return 'not-sorted-by-descending-count', got
    rest = [c for k, c in per.items() if k not in {k for k, _ in pairs}]
    if cs and rest and max(rest) > min(cs):
        return 'not-the-top-n', got
    return None


# ----------------------------------------------------------------------------------------------------

class Spec:
    def __init__(self, threshold, mode, nkeys=None, updates=False, depth=None, key_types='str'):
        self.thr_desc = detuple(threshold)           # JSON-able: a float, ('F', p, q) or ('D', text)
        threshold = make_threshold(self.thr_desc)
        self.threshold, self.mode, self.nkeys, self.updates, self.depth = threshold, mode, nkeys, updates, depth
        self.key_types = key_types
        self.wf, self.we = widths(threshold)
        self.w_slack = min(self.wf, self.we)     # the more permissive reading where the two differ
        self.config = {'threshold': self.thr_desc, 'search': mode, 'keys': nkeys,
                       'updates': updates if updates in ('views', 'shapes', 'failing', 'directed') else bool(updates),
                       'max_ops': depth, 'w=floor(1/threshold)': self.wf, 'w(exact rational)': self.we,
                       '2/threshold': float(2 / threshold), 'key_types': key_types}
        if key_types == 'str':
            self.enc = self.dec = _same
        else:
            kind, rot = key_types.split(':')
            assert kind == 'mixed' and mode == 'accuracy' and nkeys <= len(MIXED), (key_types, mode, nkeys)
            objs = [MIXED[(i + int(rot)) % len(MIXED)] for i in range(nkeys)]
            self._enc = {key_name(i): o for i, o in enumerate(objs)}
            self._enc[NEVER] = MIXED_NEVER
            self._dec = {o: name for name, o in self._enc.items()}
            self.enc, self.dec = self._enc.__getitem__, self._decode
            self.config['key_objects'] = {name: repr(o) for name, o in self._enc.items()}

    def _decode(self, obj):
        """Name of a key object the counter handed back (a string that is no name for anything else)."""
        try:
            return self._dec[obj]
        except Exception:
            return 'unknown:%r' % (obj,)

    def names(self, keys):
        """A list the counter returned, element-wise as key names (None when it cannot be walked)."""
        try:
            return [self.dec(k) for k in keys]
        except Exception:
            return None

    def named_pairs(self, pairs):
        try:
            return [(self.dec(k), c) for k, c in pairs]
        except Exception:
            return None

    @classmethod
    def from_config(cls, cfg):
        return cls(cfg['threshold'], cfg['search'], cfg.get('keys'), cfg.get('updates', False), cfg.get('max_ops'),
                   cfg.get('key_types', 'str'))

    def new(self):
        from boltons.cacheutils import ThresholdCounter
        return ThresholdCounter(threshold=self.threshold)

    def initial(self):
        return [()]

    def build_impl(self, hist):
        """Replay a history whose every prefix passed the state oracle on a fresh real object."""
        tc = self.new()
        for op in hist:
            impl_apply(tc, op, self.enc, self.dec)
        return tc

    def build(self, hist):
        """The real object and the true counts after hist, in lockstep (a view operation adds what it was seen to feed)."""
        tc, model = self.new(), Model()
        for op in hist:
            r = impl_apply(tc, op, self.enc, self.dec)
            account(model, op, r, tc)
        return tc, model

    def root_key(self, hist):
        return self.canon(*self.build(hist))

    def case(self, hist, op):
        return {'config': self.config, 'history': [core.jsonable(o) for o in hist] + [core.jsonable(op)]}

    # -- canonical keys ------------------------------------------------------------------------------
    def canon(self, tc, model):
        st = internals(tc, self.dec)
        if st is None:
            view = sorted((c is not None, repr(c), model.true.get(k, 0))
                          for k, c in public_view(tc, model.true, self.enc))
            return 'P|%d|%s' % (model.adds, ';'.join('%d.%s.%d' % r for r in view))
        total, cur, w, cm = st
        if self.mode == 'size':
            slack = sorted(c + e - cur for c, e in cm.values())
            return 'S|%d|%s' % (total % w if w > 0 else total, ','.join(map(str, slack)))
        recs = sorted(self.record(cm, k, n) for k, n in model.true.items())
        extra = sorted(cm[k] for k in cm if k not in model.true)
        return 'A|%d|%d|%s|%s' % (total, cur, ';'.join('%d.%d.%d.%d' % r for r in recs),
                                  ';'.join('%d.%d' % r for r in extra))

    @staticmethod
    def record(cm, k, n):
        v = cm.get(k)
        return (1, v[0], v[1], n) if v is not None else (0, -1, -1, n)

    # -- menus ----------------------------------------------------------------------------------------
    def menu(self, tc, model):
        st = internals(tc, self.dec)
        used = list(model.true)
        m = len(used)
        ops = []
        if self.mode == 'size':
            if st is not None:
                total, cur, w, cm = st
                seen = set()
                for k, (c, e) in cm.items():
                    if c + e - cur not in seen:
                        seen.add(c + e - cur)
                        ops.append(k)
            else:
                ops += [k for k in used if guarded(lambda: self.enc(k) in tc) is True]
            ops.append(key_name(m))
            return ops
        if st is not None:
            cm, seen = st[3], set()
            for k in used:
                r = self.record(cm, k, model.true[k])
                if r not in seen:
                    seen.add(r)
                    ops.append(k)
        else:
            ops += used
        if m < self.nkeys:
            ops.append(key_name(m))
        if self.updates:
            ops += self.update_menu(used, model.adds - sum(model.true.values()))
        return ops

    def update_menu(self, used, rejected_counted=0):
        if self.updates == 'views':                      # the counter's own lazy views as the iterable of keys
            return [('ve',), ('vk',)]
        m = len(used)
        if m == 0:
            x, y = key_name(0), key_name(1)
        else:
            x = used[0]
            y = key_name(m) if m < self.nkeys else used[-1]
        if self.updates == 'failing':                    # sources that fail part-way, next to two that do not
            ops = [('xg', (y, x, y)), ('xg', (x,)), ('xg', ()), ('xr', (x, y)), ('xm', ((x, 2), (y, 1)), 0),
                   ('xm', ((y, 1),), 1), ('xm', (), 2), ('xq', ((y, 1), (x, 2))), ('xn',),
                   ('ul', (y, x, y)), ('md', ((x, 2),))]
            if rejected_counted < MAX_REJECTED_COUNTED:  # (a function of the canonical state: total - sum of true counts)
                ops += [('xa', 0), ('xa', 1 + len(used) % (len(UNHASHABLE) - 1)), ('xu', (y,), (x,), 2)]
            if self.key_types == 'str':
                ops += [('xk', (x,), ((y, 1),)), ('xk', (), ((x, 2),))]
            return ops
        if self.updates == 'shapes':                     # further types of iterable / mapping, empty arguments
            ops = [(kind, (y, x, y)) for kind in ITER_KINDS if kind not in ('uS', 'uF', 'uv')]
            ops += [('uS', (x, y)), ('uF', (y,)), ('uv', (y, x)), ('ul', ()), ('ug', ()), ('md', ()), ('mq', ())]
            for kind in list(MAP_KINDS) + list(DUCK_KINDS) + ['mt']:
                ops += [(kind, ((y, 1), (x, 3))), (kind, ((x, 2),))]
            # a ThresholdCounter that has culled keys (its items() no longer cover its total), and the counter itself
            # (bucket width 2: reports x:2 of 4 additions; bucket width 3: reports x:3, y:1 of 5 additions)
            ops += [('mT', (y, x, x, x), 0.5), ('mT', (y, x, x, x, y), 0.3), ('mS',)]
            if self.key_types == 'str':
                ops += [('mkw', (), ((x, 1), (y, 2))), ('kw', (), ())]
            return ops
        ops = [('ul', (x,)), ('ul', (y, x, y)), ('ut', (x, y)), ('ug', (y, y, x)), ('us', (x, y, x)),
               ('md', ((x, 2),)), ('md', ((y, 1), (x, 3))), ('md', ((x, 0), (y, 2))),
               ('mc', ((x, 2), (y, 1))), ('mp', ((y, 2),)), ('mu', ((x, 1), (y, 2))),
               ('kw', (), ((x, 2),)), ('kw', (x,), ((y, 1), (x, 1))), ('mkw', ((x, 1),), ((y, 2),)),
               ('mkw', ((x, 3), (y, 1)), ((x, 2),))]     # the same key in the mapping and in the keyword counts
        if self.key_types != 'str':                      # str arguments and keyword names need string keys
            ops = [o for o in ops if o[0] not in ('us', 'kw', 'mkw')]
        return ops

    # -- exploration ------------------------------------------------------------------------------------
    def expand(self, hist):
        signal.signal(signal.SIGVTALRM, _on_timer)
        if self.depth is not None and len(hist) >= self.depth:
            return []
        signal.setitimer(signal.ITIMER_VIRTUAL, STEP_CPU_S)
        try:
            tc0, model0 = self.build(hist)
            menu = self.menu(tc0, model0)
        finally:
            signal.setitimer(signal.ITIMER_VIRTUAL, 0)
        return [self.guarded_step(hist, op, model0.copy()) for op in menu]

    def guarded_step(self, hist, op, model):
        """One transition on a freshly replayed object, under the CPU budget -> (op, key or None, label, violations)."""
        signal.setitimer(signal.ITIMER_VIRTUAL, STEP_CPU_S)
        try:
            tc = self.build_impl(hist)
            V, ok, label = self.step(tc, model, op, hist)
            return (op, self.canon(tc, model) if ok else None, label, V)
        except Budget:
            return (op, None, (oplabel(op), 'no result'),
                    [('C20|op:%s|terminates' % opsig(op), self.case(hist, op), 'the operation and the reads return',
                      'no result after %g s of CPU time' % STEP_CPU_S, None, ())])
        finally:
            signal.setitimer(signal.ITIMER_VIRTUAL, 0)

    def step(self, tc, model, op, hist):
        """Apply op to the object and to the true counts; state oracle, then (if sound) the read battery.
        Returns (violations, ok, label)."""
        V = []
        cases = []
        name = opsig(op)

        def bad(kind, what, exp, obs, tags=(), detail=None):
            if not cases:                                # built on the first violation only
                cases.append(self.case(hist, op))
            case = cases[0]
            if kind == 'op':
                sig = 'C20|op:%s|%s' % (name, what)
            elif kind == 'read':
                sig = 'C20|read:%s' % what
            else:
                sig = what
            V.append((sig, case, exp, core.jsonable(obs), detail, tuple(tags)))

        self.look_before(tc)
        r = impl_apply(tc, op, self.enc, self.dec)
        before = model.copy() if failing(op) else None
        off = account(model, op, r, tc)
        label = (oplabel(op), 'ok' if r[0] == 'ok' else r[1])
        if off is not None:
            bad('op', 'total-not-between-additions-before-and-before+offered',
                '%d <= total <= %d' % (model.adds, model.adds + len(off[1])), off[0],
                detail={'the source handed over before failing': off[1], 'the call': label[1]})
            return V, False, label
        if r[0] != 'ok' and before is None:
            bad('op', 'raised', 'returns', r[1])
            return V, False, label
        total = guarded(lambda: tc.total)
        if type(total) is not int or total != model.adds:
            bad('op', 'total', model.adds, total)
            return V, False, label
        slack = model.adds // self.w_slack
        ok = True
        per = {}
        reported = {}
        for k in list(model.true) + [NEVER]:
            t = model.true.get(k, 0)
            present = guarded(lambda: self.enc(k) in tc)
            if present not in (True, False):
                bad('op', 'contains-raised', 'True/False', present)
                return V, False, label
            c = guarded(lambda: tc[self.enc(k)]) if present else 0
            if type(c) is not int:
                bad('op', 'per-key-count-not-an-int', 'an int', c)
                return V, False, label
            reported[k] = c
            if present:
                per[k] = c
            if c > t:
                bad('invariant', 'C20|invariant:over-count', 'reported <= true count %d' % t, c,
                    detail={'key': k, 'last operation': oplabel(op)})
                ok = False
            elif t - c > slack:
                bad('invariant', 'C20|invariant:' + ('under-count>slack' if present else 'frequent-key-absent'),
                    'true count %d - reported <= floor(total/w) = %d' % (t, slack), c if present else 'absent',
                    detail={'key': k, 'last operation': oplabel(op)})
                ok = False
        if not ok:
            if before is not None and other_reading_possible(before, r[2], total, reported, slack):
                del V[:]          # counts that fit another choice of the offered additions than the first ones: no
                #                   verdict, and (ok False) no continuation either
            return V, False, label
        n = guarded(lambda: len(tc))
        if type(n) is int and exceeds_bound(n, self.threshold):
            ref = textbook_size((self.wf, self.we), model.stream)
            tags = (SIZE_TAG,) if (exceeds_bound(ref, self.threshold) and n <= ref) else ()
            bad('invariant', SIZE_SIG, 'len <= 2/threshold = %r' % float(2 / self.threshold), n, tags=tags,
                detail={'threshold': self.thr_desc, 'w': self.wf, 'additions': model.adds,
                        'entries held by textbook Lossy Counting on the same stream': ref})
        self.battery(tc, model, per, slack, bad, second=len(hist) < SECOND_LOOK_OPS)
        return V, True, label

    @staticmethod
    def look_before(tc):
        """The caller reads the derived views *before* the operation under examination, edits the lists it was handed
        (they are its own) and leaves an elements() iterator half-consumed: the reads after the operation are then
        reads of an object that has been read before (history: read, add/update, read)."""
        for name in ('most_common', 'items', 'keys', 'values', 'get_common_count', 'get_uncommon_count'):
            try:
                r = getattr(tc, name)()
                if type(r) is list:
                    scribble(r)
            except Exception:                 # a reader that raises is reported by the reads after the operation
                pass
        try:
            next(tc.elements(), None)
        except Exception:
            pass

    def battery(self, tc, model, per, slack, bad0, second=True):
        adds = model.adds
        found = []
        handed = []

        def bad(*a, **kw):
            found.append(a)
            bad0(*a, **kw)
        n = guarded(lambda: len(tc))
        if n != len(per):
            bad('read', 'len|number-of-present-keys', len(per), n)
        for k in list(model.true) + [NEVER]:
            t = model.true.get(k, 0)
            g = guarded(lambda: tc.get(self.enc(k)))
            if type(g) is not int:
                bad('read', 'get|result', 'an int', g)
            elif g > t:
                bad('read', 'get|over-count', 'reported <= true count %d' % t, g)
            elif t - g > slack:
                bad('read', 'get|under-count>slack', 'true count %d - reported <= %d' % (t, slack), g)
        lim = len(per) + len(model.true) + 2
        want_items = sorted(per.items())
        want_keys, want_values = sorted(per), sorted(per.values())
        raw = guarded(lambda: tc.items())
        handed.append(raw)
        got = limited(raw, lim)
        if not (isinstance(got, list) and _sorted(self.named_pairs(got)) == want_items):
            bad('read', 'items|disagrees-with-per-key-counts', want_items, got)
        raw = guarded(lambda: tc.keys())
        handed.append(raw)
        got = limited(raw, lim)
        if not (isinstance(got, list) and _sorted(self.names(got)) == want_keys):
            bad('read', 'keys|disagrees-with-per-key-counts', want_keys, got)
        raw = guarded(lambda: tc.values())
        handed.append(raw)
        got = limited(raw, lim)
        if not (isinstance(got, list) and _sorted(got) == want_values):
            bad('read', 'values|disagrees-with-per-key-counts', want_values, got)
        got = guarded(lambda: tc.elements(), adds + 1)
        want = sorted(k for k, c in per.items() for _ in range(c))
        if not (isinstance(got, list) and _sorted(self.names(got)) == want):
            bad('read', 'elements|disagrees-with-per-key-counts', want, got)
        raw = guarded(lambda: tc.most_common())
        handed.append(raw)
        got = limited(raw, lim)
        bad_mc = check_most_common(got, None, per, self.dec)
        if bad_mc:
            bad('read', 'most_common()|' + bad_mc[0], 'all %d pairs, descending count' % len(per), bad_mc[1])
        L = len(per)
        for nn in sorted({0, 1, 2, L - 1, L, L + 1, 99}):
            if nn < 0:
                continue
            raw = guarded(lambda: tc.most_common(nn))
            handed.append(raw)
            got = limited(raw, lim)
            bad_mc = check_most_common(got, nn, per, self.dec)
            if bad_mc:
                bad('read', 'most_common(%s)|%s' % ('n<len' if nn < L else 'n>=len', bad_mc[0]),
                    'top %d pairs of %r, descending count' % (nn, want_items), bad_mc[1])
        cc, uc = guarded(lambda: tc.get_common_count()), guarded(lambda: tc.get_uncommon_count())
        if type(cc) is not int or type(uc) is not int or cc + uc != adds:
            bad('read', 'get_common_count+get_uncommon_count|!=total', adds, [cc, uc])
        elif cc != sum(per.values()):
            bad('read', 'get_common_count|!=sum-of-tracked-counts', sum(per.values()), cc)
        if second and not found:
            self.second_look(tc, per, handed, (want_items, want_keys, want_values), lim, bad)

    def second_look(self, tc, per, handed, wants, lim, bad):
        """The caller edits the lists the readers handed out (its own objects) and reads again, no addition in
        between: per-key counts unchanged, derived views still agree with them.  Only after a clean first look."""
        seen = set()
        for lst in handed:
            if type(lst) is list and id(lst) not in seen:
                seen.add(id(lst))
                scribble(lst)
        what = 'second-read-after-caller-edited-earlier-results'
        now = {}
        for k in per:
            now[k] = guarded(lambda: tc[self.enc(k)])
        n = guarded(lambda: len(tc))
        if now != per or n != len(per):
            bad('read', 'per-key-counts|' + what, sorted(per.items()), [n, sorted(now.items())])
            return
        want_items, want_keys, want_values = wants
        got = guarded(lambda: tc.items(), lim)
        if not (isinstance(got, list) and _sorted(self.named_pairs(got)) == want_items):
            bad('read', 'items|' + what, want_items, got)
        got = guarded(lambda: tc.keys(), lim)
        if not (isinstance(got, list) and _sorted(self.names(got)) == want_keys):
            bad('read', 'keys|' + what, want_keys, got)
        got = guarded(lambda: tc.values(), lim)
        if not (isinstance(got, list) and _sorted(got) == want_values):
            bad('read', 'values|' + what, want_values, got)
        L = len(per)
        for nn in (None, L + 1) + ((L - 1,) if L > 1 else ()):
            got = guarded((lambda: tc.most_common()) if nn is None else (lambda: tc.most_common(nn)), lim)
            bad_mc = check_most_common(got, nn, per, self.dec)
            if bad_mc:
                bad('read', 'most_common(%s)|%s' % ('' if nn is None else 'n<len' if nn < L else 'n>=len', what),
                    'as at the first read: %s' % ('all pairs' if nn is None else 'top %d pairs' % nn)
                    + ' of %r, descending count' % (want_items,), [bad_mc[0], bad_mc[1]])


def _sorted(x):
    try:
        return sorted(x)
    except Exception:
        return None


def scribble(lst):
    """What a caller may do to a list it was handed: reorder it and add a row of its own."""
    lst.reverse()
    lst.append(SCRIBBLE)


# ----------------------------------------------------------------------------------------------------

class Tap:
    """What histories.explore needs of a context; also keeps the shortest size-bound witness of one search."""

    def __init__(self, ctx):
        self.ctx, self.rng = ctx, ctx.rng
        self.size_occ = 0
        self.witness = None

    def violation(self, sig, case, expected=None, observed=None, detail=None, tags=()):
        if sig == SIZE_SIG:
            self.size_occ += 1
            h = case['history']
            if self.witness is None or (len(h), repr(h)) < (len(self.witness[0]), repr(self.witness[0])):
                self.witness = (h, observed, list(tags))
        self.ctx.violation(sig, case, expected, observed, detail, tags)


def configs(tier):
    """(threshold, search, keys, update menu? (True: the list in update_menu, 'views': update(own lazy view)), max ops
    [, key types])."""
    A, B = 'accuracy', 'size'
    third, sixth, seventh = 1 / 3, 1 / 6, 1 / 7
    if tier == 'quick':
        return [
            (0.7, A, 3, False, 6), (0.7, A, 3, True, 4),
            (0.5, A, 5, False, 12), (0.34, A, 4, False, 10), (0.5, A, 3, True, 6),
            (0.3, A, 4, False, 18), (third, A, 5, False, 12), (0.3, A, 3, True, 6),
            (0.25, A, 4, False, 16), (0.25, A, 3, False, 24), (0.21, A, 5, False, 12), (0.25, A, 3, True, 7),
            (0.19, A, 3, False, 30), (0.19, A, 4, False, 18), (0.17, A, 5, False, 15), (0.19, A, 3, True, 7),
            (0.1, A, 4, False, 8), (0.001, A, 4, True, 4),
            (0.34, A, 4, False, 8, 'mixed:0'), (0.25, A, 5, False, 9, 'mixed:3'), (0.25, A, 3, True, 5, 'mixed:6'),
            (0.5, A, 3, 'views', 9), (0.3, A, 4, 'views', 8), (0.25, A, 3, 'views', 9), (0.19, A, 4, 'views', 8),
            (0.1, A, 5, 'views', 8), (0.25, A, 4, 'views', 7, 'mixed:6'),
            (0.5, A, 3, 'shapes', 5), (0.3, A, 3, 'shapes', 4), (0.25, A, 3, 'shapes', 5),
            (0.25, A, 3, 'shapes', 4, 'mixed:1'),
            (0.5, A, 3, 'failing', 6), (0.3, A, 3, 'failing', 5), (0.25, A, 3, 'failing', 6),
            (0.001, A, 3, 'failing', 4), (0.34, A, 3, 'failing', 5, 'mixed:4'),
            # thresholds given as exact rationals (Fraction, Decimal): numbers in (0, 1) like any other
            (('F', 1, 3), A, 3, True, 4), (('D', '0.5'), A, 3, 'failing', 4), (('F', 2, 9), A, 4, False, 10),
            (('D', '0.3'), A, 3, 'shapes', 3),
            (0.5, B, None, False, 32), (third, B, None, False, 30), (0.25, B, None, False, 30),
            (0.19, B, None, False, 30), (sixth, B, None, False, 36),
        ]
    return [
        (0.7, A, 3, False, 8), (0.99, A, 3, True, 5),
        (0.5, A, 5, False, 16), (0.34, A, 5, False, 12), (0.4, A, 5, False, 12), (0.5, A, 3, True, 7),
        (0.3, A, 5, False, 18), (third, A, 4, False, 20), (0.26, A, 3, True, 7),
        (0.25, A, 4, False, 22), (0.25, A, 3, False, 28), (0.21, A, 5, False, 18), (0.25, A, 3, True, 8),
        (0.19, A, 3, False, 32), (0.19, A, 4, False, 22), (0.17, A, 5, False, 19), (0.2, A, 4, False, 20),
        (0.19, A, 3, True, 8),
        (0.1, A, 4, False, 12), (0.1, A, 3, True, 5), (0.001, A, 4, False, 9), (0.001, A, 3, True, 4),
        (0.34, A, 5, False, 10, 'mixed:0'), (0.25, A, 5, False, 12, 'mixed:3'), (0.19, A, 6, False, 10, 'mixed:5'),
        (0.25, A, 3, True, 6, 'mixed:6'), (0.5, A, 3, True, 5, 'mixed:8'),
        (0.5, A, 3, 'views', 11), (0.34, A, 4, 'views', 10), (0.3, A, 4, 'views', 10), (0.25, A, 3, 'views', 11),
        (0.25, A, 4, 'views', 10), (0.19, A, 4, 'views', 10), (0.1, A, 5, 'views', 10), (0.001, A, 4, 'views', 9),
        (0.25, A, 4, 'views', 8, 'mixed:6'),
        (0.5, A, 3, 'shapes', 6), (0.3, A, 3, 'shapes', 5), (0.25, A, 3, 'shapes', 6), (0.19, A, 3, 'shapes', 5),
        (0.001, A, 3, 'shapes', 3), (0.25, A, 3, 'shapes', 5, 'mixed:1'), (0.34, A, 4, 'shapes', 4, 'mixed:7'),
        (0.5, A, 3, 'failing', 7), (0.3, A, 3, 'failing', 6), (0.25, A, 3, 'failing', 7), (0.19, A, 3, 'failing', 6),
        (0.001, A, 3, 'failing', 5), (0.34, A, 3, 'failing', 6, 'mixed:4'), (0.25, A, 4, 'failing', 5, 'mixed:9'),
        (('F', 1, 3), A, 3, True, 5), (('D', '0.5'), A, 3, 'failing', 5), (('F', 2, 9), A, 4, False, 14),
        (('D', '0.3'), A, 3, 'shapes', 4), (('F', 1, 5), B, None, False, 30),
        (0.5, B, None, False, 40), (0.34, B, None, False, 40), (third, B, None, False, 40), (0.3, B, None, False, 40),
        (0.25, B, None, False, 40), (0.21, B, None, False, 40), (0.19, B, None, False, 40), (0.17, B, None, False, 36),
        (sixth, B, None, False, 38), (0.15, B, None, False, 36), (seventh, B, None, False, 42),
        (0.125, B, None, False, 44),
    ]


# ----------------------------------------------------------------------------------------------------
# directed histories (complete lists, no search): bulk update() calls with many distinct keys, and thresholds with
# wide buckets given as float / Fraction / Decimal

def fresh(n, tag='n'):
    return tuple('%s%d' % (tag, i) for i in range(n))


def bulk_ops(keys, x):
    """update() calls handing over the distinct keys `keys` (each once): sources that fail after the last of them,
    and two that do not fail."""
    pairs = tuple((k, 1) for k in keys)
    return [('xg', keys), ('xr', keys), ('xu', keys, (x,), 0), ('xm', pairs, 0), ('xq', pairs),
            ('xk', keys, ((x, 1),)), ('ul', keys), ('md', pairs), ('ug', keys),
            ('xm', tuple((k, 2) for k in keys), 1), ('mq', tuple((k, 2) for k in keys))]


def bulk_histories(tier):
    """(threshold, history, index of the first operation to examine): a short prefix, one bulk update() with D
    distinct new keys (D around the multiples of the bucket width and beyond 2/threshold), then ordinary adds."""
    out = []
    quick = tier == 'quick'
    small = (0.5, 1 / 3, 0.25, 0.19) if quick else (0.5, 0.34, 1 / 3, 0.3, 0.25, 0.19, 1 / 6, 0.125)
    wide = (0.1, 0.03) if quick else (0.1, 0.03, 0.01, ('F', 1, 64))
    for thr in small + wide:
        t = make_threshold(thr)
        w = min(widths(t))
        over = int(2 / t) + 1                            # more keys than the bound admits
        ds = sorted({w - 1, w, w + 1, 2 * w - 1, 2 * w, 2 * w + 1, over, over + 1, 3 * w + 2, 4 * w + 3}
                    if thr in small else {w + 1, over, over + w + 1})
        prefixes = [(), ('a',), ('a',) * (w - 1) + ('b',)] if thr in small else [('a', 'a', 'b')]
        tail = ('a', 'z', 'a')
        for pre in prefixes:
            for d in ds:
                if d < 1:
                    continue
                for op in bulk_ops(fresh(d), 'a'):
                    out.append((thr, pre + (op,) + tail, len(pre)))
    return out


def wide_thresholds(tier):
    """Thresholds 1/n (and 2/(2n+1): reciprocal n + 1/2) as float, Fraction and - where 1/n is a finite decimal -
    Decimal, n over a dense range and around powers of 2, 3, 5, 10."""
    top, cap = (300, 20000) if tier == 'quick' else (1200, 300000)
    ns = set(range(2, top + 1))
    for b in (2, 3, 5, 10):
        p = b
        while p <= cap:
            ns.update(x for x in (p - 1, p, p + 1) if x >= 2)
            p *= b
    out = []
    for n in sorted(ns):
        out.append(('F', 1, n))
        out.append(1.0 / n)
        m = n
        for q in (2, 5):
            while m % q == 0:
                m //= q
        if m == 1:
            out.append(('D', str(decimal.Decimal(1) / decimal.Decimal(n))))
        if n <= 64:
            out.append(('F', 2, 2 * n + 1))
    return out


def wide_histories(tier):
    """(threshold, history, 0): one rare key, then a hot key through two bucket boundaries, examined at the totals
    1, w-1, w, w+1, 2w-2, 2w-1, 2w, 2w+1 (the additions in between are made by one update(): list, dict, generator, keyword count in turn)."""
    out = []
    for thr in wide_thresholds(tier):
        for w in sorted(set(widths(make_threshold(thr)))):
            if w < 2:
                continue
            hist, total = [], 0

            def upto(target, key='b'):
                nonlocal total
                if target - 1 > total:
                    n, form = target - 1 - total, (len(out) + len(hist)) % 4
                    hist.append([('ul', (key,) * n), ('md', ((key, n),)), ('ug', (key,) * n),
                                 ('kw', (), ((key, n),))][form])
                    total = target - 1
                if target > total:
                    hist.append(key)
                    total = target
            upto(1, 'a')
            upto(w - 1)
            upto(w)
            upto(w + 1, 'a')
            upto(2 * w - 2)
            upto(2 * w - 1)
            upto(2 * w)
            upto(2 * w + 1, 'c')
            out.append((thr, tuple(hist), 0))
    return out


def run_directed(items):
    """Each history on the real object, the operations from the given index on examined like a transition of the
    searches -> (violations, transitions, {label: n})."""
    V, trans, labels = [], 0, collections.Counter()
    signal.signal(signal.SIGVTALRM, _on_timer)
    for thr, hist, start in items:
        spec = Spec(thr, 'accuracy', None, 'directed', len(hist))
        for i in range(start, len(hist)):
            pre, op = tuple(hist[:i]), hist[i]
            signal.setitimer(signal.ITIMER_VIRTUAL, 2 * STEP_CPU_S)
            try:
                tc, model = spec.build(pre)
                vs, ok, label = spec.step(tc, model, op, pre)
            except Budget:
                vs, ok, label = [('C20|op:%s|terminates' % opsig(op), spec.case(pre, op), 'the operation and the reads '
                                  'return', 'no result after %g s of CPU time' % (2 * STEP_CPU_S), None, ())], False, \
                    (oplabel(op), 'no result')
            finally:
                signal.setitimer(signal.ITIMER_VIRTUAL, 0)
            trans += 1
            labels[label] += 1
            V.extend(vs)
            if not ok:
                break
    return V, trans, labels


def directed(ctx):
    rows = []
    for family, items in (('bulk-update-with-many-distinct-keys', bulk_histories(ctx.tier)),
                          ('wide-buckets-float/Fraction/Decimal-thresholds', wide_histories(ctx.tier))):
        chunks = [items[i::32] for i in range(32) if items[i::32]]
        trans, labels = 0, collections.Counter()
        for V, t, lab in core.pmap(run_directed, chunks):
            trans += t
            labels.update(lab)
            for v in V:
                ctx.violation(*v)
        rows.append({'family': family, 'histories': len(items), 'transitions_examined': trans,
                     'thresholds': len({repr(i[0]) for i in items}),
                     'op_results': {'%s -> %s' % k: n for k, n in sorted(labels.items())},
                     'sample': core.jsonable(items[len(items) // 2][:2])})
        ctx.note('directed %s: %d histories, %d transitions examined' % (family, len(items), trans))
    return rows


def run(ctx):
    parts = []
    size_rows = []
    for thr, mode, nkeys, upd, depth, *rest in configs(ctx.tier):
        spec = Spec(thr, mode, nkeys, upd, depth, *rest)
        tap = Tap(ctx)
        res = histories.explore(spec, tap, max_depth=depth, chunk=48)
        parts.append((spec.config, res))
        ctx.note('threshold=%s w=%d search=%s keys=%s%s updates=%s: states=%d transitions=%d ops<=%d%s%s'
                 % ('%.4g' % thr if isinstance(thr, float) else repr(spec.threshold), spec.wf, mode, nkeys, '' if spec.key_types == 'str' else ' (%s)' % spec.key_types, upd,
                    res.states, res.transitions, res.depth,
                    ' CAPPED: ' + res.capped if res.capped and not res.capped.startswith('depth') else '',
                    ' size>2/threshold on %d transitions, shortest stream %d' % (tap.size_occ, len(tap.witness[0]))
                    if tap.witness else ''))
        if mode == 'size':
            row = {'threshold': thr, 'w': spec.wf, '2/threshold': float(2 / make_threshold(thr)), 'max_additions': depth,
                   'abstract_states': res.states, 'transitions_exceeding_bound': tap.size_occ}
            if tap.witness:
                row.update({'shortest_violating_stream': ''.join(tap.witness[0]) if all(
                    isinstance(o, str) and len(o) == 1 for o in tap.witness[0]) else tap.witness[0],
                    'tracked_keys': tap.witness[1], 'tags': tap.witness[2]})
            size_rows.append(row)
    cov = histories.merge_coverage(ctx, parts, rule=(
        'BFS over add/update histories on the real ThresholdCounter, one search per listed configuration, each complete '
        'up to its max_ops.  accuracy: <= keys interchangeable keys (restricted growth; one representative per '
        'identical record), state = total, bucket, sorted (tracked, count, entry, true count) records; updates=True adds '
        'the update() argument shapes of update_menu, updates=views adds update(self.elements()) / '
        'update(self.iterkeys()) (additions = the keys the view is seen to yield), updates=shapes adds further '
        'iterable / mapping / duck-typed mapping / ThresholdCounter / empty arguments, updates=failing adds update() '
        'calls whose source fails after handing over some keys / counts (additions = the first total - before of '
        'them); key_types mixed:<r> uses keys of '
        'mutually unorderable types.  Every transition is: caller reads the views and edits the returned lists, the '
        'operation, state oracle, reads; for histories of <= %d operations a second round of reads after the caller '
        'edited the lists returned by the first.  size: unlimited ' % SECOND_LOOK_OPS +
        'fresh keys, state = (total mod w, multiset of count + entry - bucket) read off the real object.'))
    cov['exhaustive'] = all(r.capped is None or r.capped.startswith('depth') for _, r in parts)
    cov['size_bound_searches'] = size_rows
    rows = directed(ctx)
    cov['directed_histories'] = rows
    n = sum(r['transitions_examined'] for r in rows)
    cov['transitions'] += n
    cov['traces_validated_against_impl'] += n
    ctx.assumptions += [
        'keys are 1-character strings or (key_types mixed:<r>) the objects %r rotated by r - pairwise unequal, '
        'well-behaved __eq__/__hash__, not orderable against each other; the class may look at keys only through '
        'hashing/equality, so key names and dict order do not influence counts (symmetry reduction)' % (MIXED,),
        'update(self.elements()) / update(self.iterkeys()): the counter\'s own lazy view is an iterable of keys like any '
        'other; the additions are the keys the view is seen to yield while update() consumes it (nothing is demanded '
        'about *which* keys a view yields while the counter changes), and like for every other iterable the call must '
        'return and total / per-key bounds must hold for the keys fed',
        'floor(1/threshold): where float and exact-rational evaluation differ (0.2, 0.1, 0.001) the smaller width, i.e. '
        'the larger slack, is allowed; a size is a violation only if it exceeds 2/threshold under both evaluations',
        'a threshold is a number in (0, 1): floats, and the exact rationals fractions.Fraction / decimal.Decimal (accepted '
        'by the constructor; floor(1/threshold) is evaluated exactly for them); other numeric types are not passed',
        'directed histories (coverage: directed_histories) are complete lists, not searches: bulk update() calls with D '
        'distinct new keys (failing and non-failing sources) judged right after the call and after three further adds; '
        'thresholds 1/n, 2/(2n+1) with wide buckets judged around the first two bucket boundaries',
        'update(mapping) / keyword counts stand for count additions of each key (order immaterial to the oracle); keyword '
        'counts are passed next to an iterable or mapping argument; update(**counts) alone and update(None) are not '
        'explored (the statement does not fix them)',
        'a mapping of key to count is any object implementing the methods of collections.abc.Mapping (Python glossary: '
        '"mapping"), whether or not it inherits from / is registered with the ABC; objects offering only part of the '
        'protocol (keys() and __getitem__ but no items(), or items() alone) are not passed.  A ThresholdCounter (by its '
        'own documentation a "dict-like Mapping from keys to counts"; it has keys/items/values/get/__getitem__/__len__/'
        '__contains__ but no __iter__) is passed as the mapping in update(ThresholdCounter), reported under its own '
        'op shape',
        'update() with a source that fails part-way (updates=failing): the additions made by the call are the first '
        'total - additions_before of the unit additions the source handed over before failing (any number from none - '
        'all-or-nothing - to all of them is accepted, whether or not the exception propagates); all demands of the '
        'statement then hold for that stream and every later operation.  An over-/under-count is reported only if no '
        'choice of that many handed-over unit additions explains the reported counts',
        'an unhashable object (list, dict, tuple holding a list, set, bytearray) cannot be a key; add(<unhashable>) and '
        'update([key, <unhashable>, key]) are calls of the stream all the same (updates=failing).  Whether the call '
        'raises is not judged and the rejected object has no true count; the statement does not say whether the '
        'rejected call is an "addition": total may or may not count it (either reading accepted, the object\'s total '
        'decides, the slack floor(total/w) follows it) - all demands then hold for the hashable keys of the stream '
        'after that call and after every later one.  Unhashable objects are offered while total - sum of true counts '
        '(the rejected objects total has counted) < %d' % MAX_REJECTED_COUNTED,
        'update(ThresholdCounter): the source is another counter that is exact (threshold 0.001), another counter '
        'that has already culled part of its own stream (bucket width 2 or 3), or the '
        'counter itself; the additions are the (key, count) pairs the source\'s items() reports just before the call '
        '- what a source has culled is no count of the mapping passed',
        'lists returned by items/keys/values/most_common and containers passed to update() belong to the caller: editing '
        'them afterwards is no operation on the counter, the statement\'s demands on later reads are unchanged',
        'most_common(0) is the top 0 pairs: an empty list',
        'get_common_count() is additionally compared with the sum of the tracked per-key counts (its documented meaning)',
        'the textbook Lossy Counting model only scopes the size finding (tag %s): the tag is set when the published '
        'algorithm itself holds > 2/threshold entries on the same stream and the object holds no more than it' % SIZE_TAG]


def replay(ctx, data):
    case = data['case']
    spec = Spec.from_config(case['config'])
    hist = [detuple(op) for op in case['history']]
    msgs = []
    signal.signal(signal.SIGVTALRM, _on_timer)
    for i in range(len(hist)):
        pre = tuple(hist[:i])
        signal.setitimer(signal.ITIMER_VIRTUAL, 10 * STEP_CPU_S)
        try:
            tc, model = spec.build(pre)
            V, ok, label = spec.step(tc, model, hist[i], pre)
        except Budget:
            msgs.append('step %d %r: C20|op:%s|terminates' % (i, hist[i], opsig(hist[i])))
            break
        finally:
            signal.setitimer(signal.ITIMER_VIRTUAL, 0)
        for v in V:
            msgs.append('step %d %r: %s%s expected=%r observed=%r'
                        % (i, hist[i], v[0], (' [%s]' % ','.join(v[5])) if v[5] else '', v[2], v[3]))
        if not ok:
            break
    return msgs

"""C17 - OneToOne / ManyToMany stay mutual inverses; FrozenDict immutable and content-hashed.

Engine E1 (mc.histories): breadth-first search to a fixpoint over every history of the op menu on the real
dictutils.OneToOne and dictutils.ManyToMany objects, keys and values both from {0, 1, 2} (a value can equal a key),
every operation applicable to the forward object AND to its .inv, compared step by step with a reference model
(OneToOne: dict in which assigning an existing value evicts its previous key; ManyToMany: set of pairs).
Operands come in two identities: the very objects already stored (small ints are shared by the interpreter) and
*equal but distinct* objects ('xeq' ops: 1.0 for 1 in the searches; new equal tuples in the operand-identity matrix) -
"arbitrary hashable keys and values" are compared by ==, never by identity or type.
New instances are built from the object of every state (forward side or .inv) by copy(), OneToOne(x), OneToOne.unique(x),
each also together with keyword pairs; update() takes keyword pairs next to a dict, pairs, an iterator or a OneToOne.
Every transition of a core menu (all simple writers / removers, one argument of each bulk shape) is executed a second
time on an object that was *looked at* - every public read on both sides after each step of the history - before the
operation: reads between mutations must not matter (memoised lookups ...).  What only fails there is reported under
`<signature>|only-when-the-object-was-read-before`.
Engine E2 (mc.inputs): exhaustive FrozenDict matrix (every content over <= 3 keys x value alphabet, every insertion
order, every mutator / derivation).

Oracles are kept apart as DESIGN 2.1 demands: the *state oracle* (result of the operation, mirror invariant,
contents vs model, independence of instances) stops the expansion of a diverged state; *read oracles* do not.
"""
import itertools
import os
import signal

from mc import core, histories, inputs

PROPERTY = 'C17'
LEVEL = 'model_checking'

DOM = (0, 1, 2)
PAIRS = tuple((k, v) for k in DOM for v in DOM)
OP_BUDGET = 30          # seconds of *CPU time* of the worker for expanding ONE state (normally < 0.5 s): hang guard only
                        # (CPU time, not wall clock: the verdict must not depend on how loaded the machine is)


class Hang(BaseException):
    pass


class Budget:
    """Hang guard: ITIMER_VIRTUAL (user CPU time of this process) raising Hang - a BaseException, so `except
    Exception` in the code under test cannot swallow it.  Only installed in a main thread (pool workers are).
    The code under test never blocks (pure dict/set manipulation), so a hang is a busy loop and burns CPU."""

    def __init__(self, secs):
        self.secs = secs
        self.old = None

    def _fire(self, *a):
        raise Hang()

    def __enter__(self):
        try:
            self.old = signal.signal(signal.SIGVTALRM, self._fire)
            signal.setitimer(signal.ITIMER_VIRTUAL, self.secs)
        except ValueError:          # not the main thread
            self.old = None
        return self

    def __exit__(self, *a):
        if self.old is not None:
            signal.setitimer(signal.ITIMER_VIRTUAL, 0)
            signal.signal(signal.SIGVTALRM, self.old)
        return False


def hang_seen(spec):
    """Workers are forked per BFS level, so they see the violations the parent merged at earlier levels: once an
    operation failed to return, the search is cut short (the run fails anyway) instead of paying the budget per state."""
    ctx = getattr(spec, 'ctx', None)
    return ctx is not None and any(k.endswith('|terminates') for k in ctx.viol)


def tup(x):
    """JSON round trip: lists back to tuples (recursively)."""
    if isinstance(x, list):
        return tuple(tup(i) for i in x)
    return x


def transpose(d):
    return {v: k for k, v in d.items()}


def rkey(x):
    return repr(x)


# ======================================================================================================
# OneToOne
# ======================================================================================================

def oto_assign(D, k, v):
    """Reference semantics of an assignment on a one-to-one mapping: the value's previous key is evicted."""
    for k2 in [k2 for k2, v2 in D.items() if v2 == v and k2 != k]:
        del D[k2]
    D[k] = v


def oto_seq(D, pairs):
    D = dict(D)
    for k, v in pairs:
        oto_assign(D, k, v)
    return D


OTO_UPDATE_SHAPES = {
    'update_dict': 'update(dict)', 'update_pairs': 'update(pairs)', 'update_iter': 'update(iterator)',
    'update_gen': 'update(generator)', 'update_dictkw': 'update(dict,kwargs)', 'update_oto': 'update(OneToOne)',
    'update_inv': 'update(self.inv)', 'update_self': 'update(self)',
    'update_otokw': 'update(OneToOne,kwargs)', 'update_pairskw': 'update(pairs,kwargs)',
    'update_iterkw': 'update(iterator,kwargs)',
    'ior_dict': 'ior(dict)', 'ior_pairs': 'ior(pairs)', 'ior_iter': 'ior(iterator)', 'ior_oto': 'ior(OneToOne)',
}
OTO_SIMPLE = {'set': 'setitem', 'del': 'delitem', 'pop': 'pop', 'popd': 'pop(default)', 'popitem': 'popitem',
              'setdefault': 'setdefault', 'setdefaultd': 'setdefault(default)', 'clear': 'clear',
              'copy': 'copy', 'ctor_oto': 'ctor(OneToOne)', 'uctor_oto': 'unique(OneToOne)',
              'ctor_otokw': 'ctor(OneToOne,kwargs)', 'uctor_otokw': 'unique(OneToOne,kwargs)'}
OTO_CTOR = {'dict': 'ctor(dict)', 'pairs': 'ctor(pairs)', 'iter': 'ctor(iterator)', 'dictkw': 'ctor(dict,kwargs)',
            'udict': 'unique(dict)', 'upairs': 'unique(pairs)', 'pairskw': 'ctor(pairs,kwargs)',
            'iterkw': 'ctor(iterator,kwargs)', 'kw': 'ctor(kwargs)', 'udictkw': 'unique(dict,kwargs)',
            'uiter': 'unique(iterator)', 'ukw': 'unique(kwargs)'}
OTO_UNIQUE_CTORS = ('udict', 'upairs', 'udictkw', 'uiter', 'ukw')
# ops that build a NEW instance from the object of the current state (its forward side or its .inv), optionally
# together with keyword pairs: x.copy(), OneToOne(x), OneToOne(x, **kw), OneToOne.unique(x), OneToOne.unique(x, **kw)
OTO_DERIVE = ('copy', 'ctor_oto', 'uctor_oto', 'ctor_otokw', 'uctor_otokw')
OTO_FROM_OTO = ('update_oto', 'ior_oto', 'update_otokw')
# keyword pairs: the states run over every relation on DOM x DOM, so one value is "new to the source" in some states
# and "already held by it" in others
OTO_KWS = ((('a', 1),), (('a', 0), ('b', 0)), (('a', 1), ('b', 2)))


def oto_derive(cls, x, op):
    """The new instance of an OTO_DERIVE op, built from x."""
    n = op[1]
    if n == 'copy':
        return x.copy()
    kw = dict(op[2]) if len(op) > 2 else {}
    if n in ('ctor_oto', 'ctor_otokw'):
        return cls(x, **kw)
    return cls.unique(x, **kw)


def oto_update_from(cls, x, op, other):
    """An OTO_FROM_OTO op applied to x with the OneToOne `other` as the argument.  Returns the result."""
    n = op[1]
    if n == 'update_oto':
        return x.update(other)
    if n == 'update_otokw':
        return x.update(other, **dict(op[3]))
    y = x
    y |= other
    return None if y is x else '<|= rebound the name to another object>'


def dup_values(pairs):
    final = dict(pairs)
    try:
        return len(set(final.values())) != len(final)
    except TypeError:
        return False


def oto_observe(o):
    """Every public read of both sides, results dropped: an application looks at a mapping between its mutations.
    The reads must not matter for what later operations do (e.g. through memoised lookups)."""
    for x in (o, getattr(o, 'inv', None)):
        if x is None:
            continue
        try:
            len(x); list(x); list(x.items()); list(x.keys()); list(x.values()); repr(x); x == dict(x); x.inv.inv
            for k in DOM:
                k in x; x.get(k); x.get(k, 'D')
        except Hang:
            raise
        except Exception:
            pass
        for k in DOM:
            try:
                x[k]
            except Hang:
                raise
            except Exception:
                pass


def eqv(i):
    """An operand equal to the int i (same hash) that is never the same object - and of another type.  float(i)
    builds a new object on every call, so two such operands are also distinct from each other."""
    return float(i)


XEQ_MODES = {'k': 'key', 'v': 'value', 'kv': 'key+value'}
XEQ_PAIRLISTS = ('update_pairs', 'update_iter', 'update_gen', 'ior_pairs', 'ior_iter', 'update_dict', 'ior_dict')


def oto_concrete(op, alt=eqv, same=lambda i: i):
    """('f', 'xeq', mode, name, *args) -> (side, name, *args) in which the keys (mode has 'k') and/or the values
    ('v') are replaced by equal-but-distinct objects.  Other ops are returned as they are.  ('xeq' sorts after
    every other op name: the representative history of a state - the smallest by repr - never contains one, so the
    objects stored in the explored states stay the shared small ints.)"""
    if op[1] != 'xeq':
        return op
    s, mode, n, a = op[0], op[2], op[3], op[4:]
    K = alt if 'k' in mode else same
    V = alt if 'v' in mode else same
    if n in ('set', 'setdefaultd'):
        return (s, n, K(a[0]), V(a[1]))
    if n in ('del', 'pop', 'setdefault'):
        return (s, n, K(a[0]))
    if n == 'popd':
        return (s, n, K(a[0]), a[1])
    if n in XEQ_PAIRLISTS:
        return (s, n, tuple((K(k), V(v)) for k, v in a[0]))
    raise AssertionError(op)


def oto_opname(op):
    n = op[1]
    if n == 'xeq':
        return '%s[equal-not-identical:%s]' % (oto_opname((op[0],) + tuple(op[3:])), XEQ_MODES[op[2]])
    if n in OTO_SIMPLE:
        return 'OneToOne.' + OTO_SIMPLE[n]
    if n in OTO_UPDATE_SHAPES:
        return 'OneToOne.' + OTO_UPDATE_SHAPES[n]
    if n == 'ctor':
        return 'OneToOne.' + OTO_CTOR[op[2]]
    raise AssertionError(op)


def oto_apply(cls, x, op):
    """Apply a non-constructing op to the real object x (the forward object or its .inv).
    Returns (('ok', value) | ('exc', class name), argument-unchanged flag)."""
    n = op[1]
    arg_ok = True
    try:
        if n == 'set':
            x[op[2]] = op[3]; r = None
        elif n == 'del':
            del x[op[2]]; r = None
        elif n == 'pop':
            r = x.pop(op[2])
        elif n == 'popd':
            r = x.pop(op[2], op[3])
        elif n == 'popitem':
            r = x.popitem()
        elif n == 'setdefault':
            r = x.setdefault(op[2])
        elif n == 'setdefaultd':
            r = x.setdefault(op[2], op[3])
        elif n == 'clear':
            r = x.clear()
        elif n in ('update_dict', 'ior_dict'):
            a = dict(op[2]); a0 = list(a.items())
            if n == 'update_dict':
                r = x.update(a)
            else:
                y = x; y |= a
                r = None if y is x else '<|= rebound the name to another object>'
            arg_ok = list(a.items()) == a0
        elif n in ('update_pairs', 'ior_pairs'):
            a = [tuple(p) for p in op[2]]; a0 = list(a)
            if n == 'update_pairs':
                r = x.update(a)
            else:
                y = x; y |= a
                r = None if y is x else '<|= rebound the name to another object>'
            arg_ok = a == a0
        elif n == 'update_iter':
            r = x.update(iter([tuple(p) for p in op[2]]))
        elif n == 'ior_iter':
            y = x; y |= iter([tuple(p) for p in op[2]])
            r = None if y is x else '<|= rebound the name to another object>'
        elif n == 'update_gen':
            r = x.update(tuple(p) for p in op[2])
        elif n == 'update_dictkw':
            r = x.update(dict(op[2]), **dict(op[3]))
        elif n == 'update_pairskw':
            a = [tuple(p) for p in op[2]]; a0 = list(a)
            r = x.update(a, **dict(op[3]))
            arg_ok = a == a0
        elif n == 'update_iterkw':
            r = x.update(iter([tuple(p) for p in op[2]]), **dict(op[3]))
        elif n == 'update_self':
            r = x.update(x)
        elif n == 'update_inv':
            r = x.update(x.inv)
        else:
            raise AssertionError(op)
    except Hang:
        raise
    except Exception as e:
        return ('exc', type(e).__name__), arg_ok
    return ('ok', r), arg_ok


def oto_model(D, op, r_i):
    """Reference result + successor for a non-constructing op on the target view D (dict).  Returns
    (list of acceptable results, list of acceptable successor dicts)."""
    n = op[1]
    D = dict(D)
    if n == 'set':
        oto_assign(D, op[2], op[3]); return [('ok', None)], [D]
    if n == 'del':
        if op[2] not in D:
            return [('exc', 'KeyError')], [D]
        del D[op[2]]; return [('ok', None)], [D]
    if n in ('pop', 'popd'):
        if op[2] not in D:
            return [('exc', 'KeyError') if n == 'pop' else ('ok', op[3])], [D]
        v = D.pop(op[2]); return [('ok', v)], [D]
    if n == 'popitem':
        if not D:
            return [('exc', 'KeyError')], [D]
        # dict semantics leave the victim open: any present item is acceptable
        res, succ = [], []
        for k, v in D.items():
            if r_i == ('ok', (k, v)):
                D2 = dict(D); del D2[k]
                return [r_i], [D2]
        return [('ok', '<some present (key, value)>')], [D]
    if n in ('setdefault', 'setdefaultd'):
        d = None if n == 'setdefault' else op[3]
        if op[2] not in D:
            oto_assign(D, op[2], d)
        return [('ok', D[op[2]])], [D]
    if n == 'clear':
        return [('ok', None)], [{}]
    if n in ('update_dict', 'ior_dict', 'update_pairs', 'ior_pairs', 'update_iter', 'ior_iter', 'update_gen'):
        pairs = [tuple(p) for p in op[2]]
        succ = [oto_seq(D, pairs)]
        alt = oto_seq(D, list(dict(pairs).items()))     # argument de-duplicated by key first: also acceptable
        if alt != succ[0]:
            succ.append(alt)
        return [('ok', None)], succ
    if n in ('update_dictkw', 'update_pairskw', 'update_iterkw'):    # positional pairs have distinct keys in the menu
        return [('ok', None)], [oto_seq(D, [tuple(p) for p in op[2]] + [tuple(p) for p in op[3]])]
    if n == 'update_self':
        return [('ok', None)], [D]
    if n == 'update_inv':
        # x.update(x.inv): the pairs of the inverse, assigned one by one in the inverse's order; the order is not
        # fixed by the statement, so every order's outcome is acceptable
        inv = list(transpose(D).items())
        succ = []
        for perm in itertools.permutations(inv):
            s = oto_seq(D, perm)
            if s not in succ:
                succ.append(s)
        return [('ok', None)], succ
    raise AssertionError(op)


def oto_canon(o):
    inv = getattr(o, 'inv', None)
    return ('OneToOne', tuple(dict.items(o)), tuple(dict.items(inv)) if isinstance(inv, dict) else repr(inv),
            getattr(inv, 'inv', None) is o)


def in_domain(items, dom):
    return all(k in dom and v in dom for k, v in items)


class OtoSpec:
    kind = 'oto'

    def __init__(self, expand_none=False, rich=True):
        self.expand_none = expand_none
        self.rich = rich
        self.dom = DOM + ((None,) if expand_none else ())
        self.config = {'kind': 'oto', 'class': 'OneToOne', 'keys': list(DOM), 'values': list(DOM),
                       'expanded_domain': [repr(x) for x in self.dom], 'rich_menu': rich}
        self.menu, self.root_menu = self._menu()

    def cls(self):
        c = getattr(self, '_cls', None)
        if c is None:
            from boltons import dictutils
            c = self._cls = dictutils.OneToOne
        return c

    def _menu(self):
        one = [(p,) for p in PAIRS]
        two = [(p, q) for p in PAIRS for q in PAIRS]
        three = [((0, 1), (1, 2), (2, 0)), ((0, 0), (1, 1), (2, 2)), ((2, 1), (1, 0), (0, 2))]
        if self.rich:
            lists = [()] + one + two + three
        else:
            lists = [()] + one + [((0, 1), (1, 1)), ((0, 1), (0, 2)), ((0, 1), (1, 0)), ((1, 2), (2, 1)),
                                  ((2, 2), (0, 0)), ((0, 2), (2, 1))] + three[:1]
        dicts = []
        for l in lists:
            d = tuple(dict(l).items())
            if len(d) == len(l) and d not in dicts:
                dicts.append(d)
        m = []
        for s in ('f', 'i'):
            for k in DOM:
                for v in DOM:
                    m.append((s, 'set', k, v))
            for k in DOM:
                m += [(s, 'del', k), (s, 'pop', k), (s, 'popd', k, 'D'), (s, 'setdefault', k)]
                for v in DOM:
                    m.append((s, 'setdefaultd', k, v))
                    m.append((s, 'popd', k, v))      # a default that may be the very object stored under k
            m += [(s, 'popitem'), (s, 'clear'), (s, 'copy'), (s, 'ctor_oto'), (s, 'update_self'), (s, 'update_inv')]
            for l in lists:
                m.append((s, 'update_pairs', l))
                m.append((s, 'update_iter', l))
            for l in lists[:1] + one + three:
                m.append((s, 'update_gen', l))
                m.append((s, 'ior_pairs', l))
                m.append((s, 'ior_iter', l))
            for d in dicts:
                m.append((s, 'update_dict', d))
                m.append((s, 'ior_dict', d))
            for l in [((0, 1),), ((1, 1), (2, 0)), ((2, 2), (0, 1))]:
                m.append((s, 'update_oto', l))
                m.append((s, 'ior_oto', l))
            m.append((s, 'update_dictkw', ((0, 1),), (('a', 2),)))
            m.append((s, 'update_dictkw', (), (('a', 1), ('b', 1))))
            # keyword pairs next to every kind of positional argument
            for l, kw in [(((0, 1),), (('a', 2),)), (((1, 1), (2, 0)), (('a', 1), ('b', 1)))]:
                m += [(s, 'update_otokw', l, kw), (s, 'update_pairskw', l, kw), (s, 'update_iterkw', l, kw)]
            # a new instance built from this one (or from its .inv) through the alternate constructor and/or
            # together with keyword pairs whose values are new to the source or already held by it
            m.append((s, 'uctor_oto'))
            for kw in OTO_KWS:
                m += [(s, 'ctor_otokw', kw), (s, 'uctor_otokw', kw)]
            # the same writers / removers with operands that are equal to, but not the same objects as, stored ones
            for k, v in PAIRS:
                for mode in ('k', 'v', 'kv'):
                    m.append((s, 'xeq', mode, 'set', k, v))
                m.append((s, 'xeq', 'kv', 'setdefaultd', k, v))
                m.append((s, 'xeq', 'kv', 'update_pairs', ((k, v),)))
            for k in DOM:
                m += [(s, 'xeq', 'k', 'del', k), (s, 'xeq', 'k', 'pop', k)]
            for l in three:
                m.append((s, 'xeq', 'kv', 'ior_dict', l))
        root = []
        for l in [()] + one + two + three:
            root.append(('f', 'ctor', 'pairs', l))
            root.append(('f', 'ctor', 'iter', l))
            root.append(('f', 'ctor', 'upairs', l))
            d = tuple(dict(l).items())
            if len(d) == len(l):
                root.append(('f', 'ctor', 'dict', d))
                root.append(('f', 'ctor', 'udict', d))
        root.append(('f', 'ctor', 'dictkw', ((0, 1),), (('a', 1),)))
        root.append(('f', 'ctor', 'dictkw', (), (('a', 0), ('b', 2))))
        for kw in [(('a', 1),), (('a', 0), ('b', 0)), (('a', 2), ('b', 1))]:
            root += [('f', 'ctor', 'kw', (), kw), ('f', 'ctor', 'ukw', (), kw)]
            for l in [(), ((0, 1),), ((0, 1), (1, 1)), ((0, 1), (1, 2))]:
                root += [('f', 'ctor', 'pairskw', l, kw), ('f', 'ctor', 'iterkw', l, kw)]
                if len(dict(l)) == len(l):
                    root += [('f', 'ctor', 'dictkw', l, kw), ('f', 'ctor', 'udictkw', l, kw)]
        for l in [()] + one + [((0, 1), (1, 1)), ((0, 1), (1, 2)), ((0, 1), (0, 2))] + three:
            root.append(('f', 'ctor', 'uiter', l))
        # the second variant of a transition: the object was LOOKED AT (every public read, both sides) after each
        # step of the history before the operation is applied - see expand()
        self.observed_menu = set(
            op for op in m if (op[1] in OTO_SIMPLE and op[1] not in ('uctor_oto', 'uctor_otokw')
                               and not (op[1] == 'popd' and op[3] != 'D'))
            or op[1] in OTO_FROM_OTO or op[1] in ('update_self', 'update_inv', 'update_dictkw')
            or (op[1] == 'update_pairs' and op[2] in one + three)
            or (op[1] in ('update_dict', 'ior_dict', 'update_iter', 'ior_pairs') and op[2] in three))
        return m, root

    # ---- building by replay --------------------------------------------------------------------------
    def initial(self):
        return [()]

    def build(self, hist, observe=False):
        """Replay hist on a fresh real object and on the model; no checking.  Returns (forward object, model dict).
        observe: every public read is made on the object after each step (results dropped)."""
        cls = self.cls()
        o, D = cls(), {}
        if observe:
            oto_observe(o)
        for op in hist:
            o, D = self.advance(cls, o, D, op)
            if observe:
                oto_observe(o)
        return o, D

    def advance(self, cls, o, D, op):
        op = oto_concrete(op)
        s, n = op[0], op[1]
        x = o if s == 'f' else o.inv
        if n == 'ctor':
            y = self.construct(cls, op)
            return y, dict(dict.items(y))
        if n in OTO_DERIVE:
            y = oto_derive(cls, x, op)
            o2 = y if s == 'f' else y.inv
            return o2, dict(dict.items(o2))
        if n in OTO_FROM_OTO:
            oto_update_from(cls, x, op, cls([tuple(p) for p in op[2]]))
        else:
            oto_apply(cls, x, op)
        return o, dict(dict.items(o))          # after a sound prefix the model equals the contents

    @staticmethod
    def construct(cls, op):
        shape = op[2]
        pairs = [tuple(p) for p in op[3]]
        if shape == 'pairs':
            return cls(pairs)
        if shape == 'iter':
            return cls(iter(pairs))
        if shape == 'dict':
            return cls(dict(pairs))
        if shape == 'dictkw':
            return cls(dict(pairs), **dict(op[4]))
        if shape == 'pairskw':
            return cls(pairs, **dict(op[4]))
        if shape == 'iterkw':
            return cls(iter(pairs), **dict(op[4]))
        if shape == 'kw':
            return cls(**dict(op[4]))
        if shape == 'udictkw':
            return cls.unique(dict(pairs), **dict(op[4]))
        if shape == 'uiter':
            return cls.unique(iter(pairs))
        if shape == 'ukw':
            return cls.unique(**dict(op[4]))
        if shape == 'upairs':
            return cls.unique(pairs)
        if shape == 'udict':
            return cls.unique(dict(pairs))
        raise AssertionError(op)

    def root_key(self, hist):
        return oto_canon(self.build(hist)[0])

    def case(self, hist, op, observed=False):
        c = {'config': self.config, 'history': [list(o) for o in hist] + [list(op)]}
        if observed:
            c['observed'] = OBSERVED_NOTE
        return c

    # ---- exploration -----------------------------------------------------------------------------------
    def expand(self, hist):
        out = []
        if hang_seen(self):
            return out
        menu = self.menu + (self.root_menu if not hist else [])
        cur = [None]
        try:
            with Budget(OP_BUDGET):
                for op in menu:
                    cur[0] = op
                    o, D = self.build(hist)
                    V, ok, label, o2 = self.step(o, D, op, hist)
                    key = None
                    if ok:
                        if in_domain(dict.items(o2), self.dom):
                            key = oto_canon(o2)
                        else:
                            label = (label[0], label[1] + ' (successor outside the expanded domain: checked, not expanded)')
                    out.append((op, key, label, V))
                    if op in self.observed_menu:
                        # the same transition on an object that was looked at after every step so far
                        o, D = self.build(hist, observe=True)
                        V2, ok, label, o2 = self.step(o, D, op, hist, observed=True)
                        out.append((op, None, (label[0] + OBSERVED_TAG, label[1]), only_after_reads(V, V2)))
        except Hang:
            op = cur[0]
            out.append((op, None, (oto_opname(op), 'hang'),
                        [('C17|op:%s|terminates' % oto_opname(op), self.case(hist, op), 'returns',
                          'no return within the %d s CPU budget of the state' % OP_BUDGET, None, ())]))
        return out

    def step(self, o, D, op, hist, observed=False):
        """Apply op to the real object (o = forward object) and to the model D (forward dict).
        Returns (violations, ok, label, successor forward object).  observed: o was built with build(observe=True);
        the oracles that rebuild the state from the history (independence) are left to the plain variant."""
        V = []
        case = self.case(hist, op, observed)
        name = oto_opname(op)
        s, n = op[0], op[1]
        cls = self.cls()

        def bad(what, exp, obs, read=False):
            sig = 'C17|read:OneToOne.%s' % what if read else 'C17|op:%s|%s' % (name, what)
            V.append((sig, case, exp, obs, None, ()))

        if n == 'ctor' or n in OTO_DERIVE:
            return self.step_new(cls, o, D, op, hist, V, bad, name, observed)

        x = o if s == 'f' else o.inv
        Dx = D if s == 'f' else transpose(D)
        other = None
        if n in OTO_FROM_OTO:
            pairs = [tuple(p) for p in op[2]]
            other = cls(pairs)
            other_before = oto_canon(other)
            try:
                r_i = ('ok', oto_update_from(cls, x, op, other))
            except Exception as e:
                r_i = ('exc', type(e).__name__)
            arg_ok = oto_canon(other) == other_before
            kwp = [tuple(p) for p in op[3]] if n == 'update_otokw' else []
            res, succ = [('ok', None)], [oto_seq(Dx, list(oto_seq({}, pairs).items()) + kwp)]   # model of `other`, not the object
        else:
            cop = oto_concrete(op)              # 'xeq' ops: operands materialised as new equal objects right here
            r_i, arg_ok = oto_apply(cls, x, cop)
            res, succ = oto_model(Dx, cop, r_i)
        label = (name + ('@inv' if s == 'i' else ''), r_i[0] if r_i[0] == 'ok' else r_i[1])
        ok = True
        if r_i not in res:
            bad('result', res[0], r_i); ok = False
        ok = self.invariants(o, bad) and ok
        got = dict(dict.items(x))
        if ok and got not in succ:
            bad('contents', succ[0], got); ok = False
        if ok and not arg_ok:
            bad('argument-changed', 'argument left as passed', 'argument mutated'); ok = False
        if ok and other is not None and not observed:
            ok = self.independence(hist, op, bad)
        if ok:
            self.battery(o, dict(dict.items(o)), bad)
        return V, ok, label, o

    def invariants(self, o, bad):
        """The statement's invariant on the real pair of dicts."""
        inv = getattr(o, 'inv', None)
        if not isinstance(inv, dict):
            bad('inv-attribute', 'a mapping', repr(inv)); return False
        ok = True
        if getattr(inv, 'inv', None) is not o:
            bad('inv.inv-is-original', 'o.inv.inv is o', 'another object'); ok = False
        fwd, back = dict(dict.items(o)), dict(dict.items(inv))
        want = {}
        for k, v in fwd.items():
            want.setdefault(v, k)
        if len(want) != len(fwd) or back != want:
            bad('mirror', {'forward': fwd, 'inverse should be': transpose(fwd) if len(want) == len(fwd)
                           else 'one value under two keys'}, {'forward': fwd, 'inverse': back}); ok = False
        return ok

    def independence(self, hist, op, bad):
        """x was updated from another OneToOne: mutating either must not change the other."""
        cls = self.cls()
        s, n = op[0], op[1]
        ok = True
        for direction in ('argument mutated', 'target mutated'):
            o, _ = self.build(hist)
            x = o if s == 'f' else o.inv
            other = cls([tuple(p) for p in op[2]])
            oto_update_from(cls, x, op, other)
            tgt, oth = (other, o) if direction == 'argument mutated' else (o, other)
            before = oto_canon(oth)
            for mut in OTO_MUTS:
                oto_apply(cls, tgt if mut[0] == 'f' else tgt.inv, mut)
                if oto_canon(oth) != before:
                    bad('independence', '%s: the other instance keeps %r' % (direction, before[1:3]),
                        'after %r it holds %r' % (list(mut), oto_canon(oth)[1:3]))
                    ok = False
                    break
        return ok

    def step_new(self, cls, o, D, op, hist, V, bad, name, observed=False):
        """Ops that produce a new instance: root constructors, copy(), OneToOne(x), OneToOne(x, **kw), unique(x ...)."""
        s, n = op[0], op[1]
        x = o if s == 'f' else o.inv
        Dx = D if s == 'f' else transpose(D)
        src_before = oto_canon(o)
        try:
            if n == 'ctor':
                y = self.construct(cls, op)
            else:
                y = oto_derive(cls, x, op)
            r = 'ok'
        except Exception as e:
            y, r = None, type(e).__name__
        label = (name + ('@inv' if s == 'i' else ''), r)
        if n == 'ctor':
            pairs = [tuple(p) for p in op[3]] + ([tuple(p) for p in op[4]] if len(op) > 4 else [])
            want = oto_seq({}, pairs)
            if op[2] in OTO_UNIQUE_CTORS and dup_values(pairs) and r == 'ValueError':
                return V, False, label, o          # documented refusal; nothing was built, nothing to expand
        else:
            kwp = [tuple(p) for p in op[2]] if len(op) > 2 else []
            want = oto_seq(Dx, kwp)
            if n in ('uctor_oto', 'uctor_otokw') and dup_values(list(Dx.items()) + kwp) and r == 'ValueError':
                if oto_canon(o) != src_before:       # refused (documented) - but the source must be left alone
                    bad('source-changed', src_before[1:3], oto_canon(o)[1:3])
                return V, False, label, o
        if y is None:
            bad('result', 'an instance holding %r' % want, 'raised ' + r)
            return V, False, label, o
        ok = True
        if not isinstance(y, cls):
            bad('type', cls.__name__, type(y).__name__); return V, False, label, o
        if n != 'ctor' and (y is x or y is o or y is o.inv):
            bad('new-object', 'a new instance', 'the same object'); ok = False
        ok = self.invariants(y, bad) and ok
        if ok and dict(dict.items(y)) != want:
            bad('contents', want, dict(dict.items(y))); ok = False
        if ok and n != 'ctor':
            if oto_canon(o) != src_before:
                bad('source-changed', src_before[1:3], oto_canon(o)[1:3]); ok = False
            if getattr(y, 'inv', None) is x.inv or getattr(y, 'inv', None) is x:
                bad('independence', 'own inverse object', 'shares the inverse with its source'); ok = False
        if ok and n != 'ctor' and not observed:
            # independence: mutate one of (source, new) step by step, the other must never change
            for direction in ('source mutated', 'copy mutated'):
                o1, _ = self.build(hist)
                x1 = o1 if s == 'f' else o1.inv
                y1 = oto_derive(cls, x1, op)
                tgt, oth = (o1, y1) if direction == 'source mutated' else (y1, o1)
                before = oto_canon(oth)
                for mut in OTO_MUTS:
                    oto_apply(cls, tgt if mut[0] == 'f' else tgt.inv, mut)
                    if oto_canon(oth) != before:
                        bad('independence', '%s: the other instance keeps %r' % (direction, before[1:3]),
                            'after %r it holds %r' % (list(mut), oto_canon(oth)[1:3]))
                        ok = False
                        break
        o2 = y if s == 'f' else y.inv
        if ok:
            self.battery(o2, dict(dict.items(o2)), bad)
        return V, ok, label, (o2 if ok else o)

    def reads_agree(self, x, Dx):
        """Fast path of the read battery: True only when every read of battery() answers as expected.  Anything
        else (a different answer, any exception) -> False, and battery() repeats the reads one by one to name the
        one that disagrees; the verdict is that of the one-by-one pass."""
        try:
            ks = sorted(Dx, key=rkey)
            if not (len(x) == len(Dx) and dict(x) == Dx and sorted(x.items(), key=rkey) == sorted(Dx.items(), key=rkey)
                    and sorted(x.keys(), key=rkey) == ks and sorted(x.values(), key=rkey) == sorted(Dx.values(), key=rkey)
                    and sorted(x, key=rkey) == ks and (x == dict(Dx)) is True
                    and x.inv is x.inv and x.inv.inv is x):
                return False
            for k in self.dom:
                if k in Dx:
                    if not ((k in x) is True and x[k] == Dx[k] and x.get(k, 'D') == Dx[k]):
                        return False
                else:
                    if (k in x) is not False or x.get(k, 'D') != 'D':
                        return False
                    try:
                        x[k]
                        return False
                    except Exception as e:
                        if type(e).__name__ != 'KeyError':
                            return False
            return True
        except Hang:
            raise
        except Exception:
            return False

    def battery(self, o, D, bad):
        """Read oracles on a state that passed the state oracle."""
        k0 = oto_canon(o)
        for side, x, Dx in (('', o, D), ('inv.', o.inv, transpose(D))):
            if self.reads_agree(x, Dx):
                continue

            def read(nm, fn, want):
                try:
                    got = fn()
                except Exception as e:
                    got = 'raised ' + type(e).__name__
                if got != want:
                    bad(nm, want, got, read=True)
            read('len', lambda: len(x), len(Dx))
            read('dict()', lambda: dict(x), Dx)
            read('items', lambda: sorted(x.items(), key=rkey), sorted(Dx.items(), key=rkey))
            read('keys', lambda: sorted(x.keys(), key=rkey), sorted(Dx, key=rkey))
            read('values', lambda: sorted(x.values(), key=rkey), sorted(Dx.values(), key=rkey))
            read('iter', lambda: sorted(x, key=rkey), sorted(Dx, key=rkey))
            for k in self.dom:
                read('in', lambda: k in x, k in Dx)
                read('getitem', lambda: x[k], Dx[k] if k in Dx else 'raised KeyError')
                read('get', lambda: x.get(k, 'D'), Dx.get(k, 'D'))
            read('==dict', lambda: x == dict(Dx), True)
            read('inv-is-stable', lambda: x.inv is x.inv and x.inv.inv is x, True)
        if oto_canon(o) != k0:
            bad('reads-changed-the-state', k0[1:3], oto_canon(o)[1:3], read=True)


OBSERVED_TAG = '[object read before the call]'
OBSERVED_NOTE = ('second variant of the transition: after every step of the history (and on the fresh object) every '
                 'public read was made on both sides, results dropped')



def only_after_reads(plain, observed):
    """Violations of the observed variant of a transition that its plain variant did not raise, under a signature
    of their own: what is wrong without any read keeps its one signature."""
    seen = set(v[0] for v in plain)
    return [(v[0] + '|only-when-the-object-was-read-before',) + tuple(v[1:]) for v in observed if v[0] not in seen]


OTO_MUTS = ([('f', 'set', 2, 2), ('i', 'set', 0, 1), ('f', 'setdefaultd', 1, 0), ('f', 'update_pairs', ((0, 0),)),
             ('i', 'ior_dict', ((2, 1),)), ('f', 'pop', 0), ('i', 'del', 2), ('f', 'set', 1, 1), ('i', 'popitem'),
             ('f', 'set', 0, 2), ('f', 'clear'), ('i', 'set', 1, 0), ('f', 'popitem')])


# ------------------------------------------------------------------------------------------------------
# OneToOne operand-identity matrix (E2): operands of the SAME type that are equal to, but are not, the stored objects
# ------------------------------------------------------------------------------------------------------
# The searches above use small ints, which the interpreter shares: an operand there is either the very object that
# is stored or (xeq ops) an equal object of another type.  Application keys are tuples, long strings, big ints ...
# built at run time: equal to the stored key, the same type, another object.  Every value-state of a OneToOne over
# 3 x 3 objects (34) x every writer / remover on either side x every choice of "the stored object" / "a new equal
# object" per operand, against the same reference model and invariants.

OBJ_SHARED = tuple(tuple(['obj', i]) for i in DOM)      # the one shared object per domain element


def obj_make(i, how):
    """'S': the shared object for i.  'N': a new tuple equal to it, built now - never the same object."""
    return OBJ_SHARED[DOM.index(i)] if how == 'S' else tuple(['obj', i])


def oto_value_states():
    """Every one-to-one relation over DOM x DOM as a pair list, smallest first (1 + 9 + 18 + 6)."""
    out = []
    for n in range(len(DOM) + 1):
        for keys in itertools.combinations(DOM, n):
            for vals in itertools.permutations(DOM, n):
                out.append(tuple(zip(keys, vals)))
    return out


OTO_ID_PAIR_OPS = ('set', 'setdefaultd', 'update_pairs', 'update_iter', 'update_dict', 'ior_dict', 'ior_pairs')
OTO_ID_KEY_OPS = ('del', 'pop', 'popd', 'setdefault')


def oto_identity_cases():
    """(state, stored, op, operand modes) - simplest first."""
    for state in oto_value_states():
        for stored in ('S', 'N'):
            # stored 'N': whatever the operand is, it is not the stored object - one operand mode is enough
            pair_modes = ('SS', 'NS', 'SN', 'NN') if stored == 'S' else ('NN',)
            key_modes = ('S', 'N') if stored == 'S' else ('N',)
            for s in ('f', 'i'):
                for n in OTO_ID_PAIR_OPS:
                    for k, v in PAIRS:
                        for md in pair_modes:
                            yield state, stored, (s, n, k, v), md
                for n in OTO_ID_KEY_OPS:
                    for k in DOM:
                        for md in key_modes:
                            yield state, stored, (s, n, k), md


def oto_identity_check(cls, spec, state, stored, op, modes):
    """One case on the real class.  Returns [(sig, expected, observed)] (empty: fine)."""
    out = []
    s, n = op[0], op[1]
    pairs = [(obj_make(k, stored), obj_make(v, stored)) for k, v in state]
    distinct = ''.join(c for c, md in zip('kv', modes) if stored == 'N' or md == 'N')
    base = oto_opname((s, n))
    name = '%s[equal-not-identical:%s]' % (base, XEQ_MODES[distinct]) if distinct else base

    def bad(what, exp, obs, read=False):
        out.append(('C17|read:OneToOne.%s' % what if read else 'C17|op:%s|%s' % (name, what), exp, obs))

    try:
        o = cls(pairs)
        built = dict(dict.items(o)) == dict(pairs) and dict(dict.items(o.inv)) == transpose(dict(pairs))
    except Exception as e:
        o, built = None, 'raised ' + type(e).__name__
    if built is not True:
        out.append(('C17|op:OneToOne.ctor(pairs)|contents', dict(pairs), repr(o) if o is not None else built))
        return out
    D = dict(pairs)
    K = obj_make(op[2], modes[0])
    if n in OTO_ID_KEY_OPS:
        cop = (s, n, K) + (('D',) if n == 'popd' else ())
    else:
        V = obj_make(op[3], modes[1])
        cop = (s, n, K, V) if n in ('set', 'setdefaultd') else (s, n, ((K, V),))
    x = o if s == 'f' else o.inv
    Dx = D if s == 'f' else transpose(D)
    r_i, arg_ok = oto_apply(cls, x, cop)
    res, succ = oto_model(Dx, cop, r_i)
    ok = True
    if r_i not in res:
        bad('result', res[0], r_i); ok = False
    ok = spec.invariants(o, bad) and ok
    got = dict(dict.items(x))
    if ok and got not in succ:
        bad('contents', succ[0], got); ok = False
    if ok and not arg_ok:
        bad('argument-changed', 'argument left as passed', 'argument mutated'); ok = False
    if ok:
        spec.battery(o, dict(dict.items(o)), bad)
    return out


def oto_identity_spec():
    spec = OtoSpec(expand_none=False, rich=False)
    spec.dom = OBJ_SHARED               # the keys the read battery asks for
    return spec


def oto_identity_case(state, stored, op, modes):
    return {'kind': 'oto-identity', 'objects': 'tuple(["obj", i]) for i in %r' % (DOM,), 'state': [list(p) for p in state],
            'stored': {'S': 'shared objects', 'N': 'new equal objects'}[stored], 'op': list(op),
            'operands': [{'S': 'the shared object', 'N': 'a new equal object'}[c] for c in modes]}


def oto_identity_shard(arg):
    from boltons.dictutils import OneToOne
    idx, nshards = arg
    t = inputs.Tally()
    spec = oto_identity_spec()
    cur = None
    try:
        with Budget(600):
            for i, (state, stored, op, modes) in enumerate(oto_identity_cases()):
                if i % nshards != idx:
                    continue
                cur = (state, stored, op, modes)
                case = oto_identity_case(*cur)
                t.count(nontrivial=bool(state) and (stored == 'N' or 'N' in modes), sample=case)
                for sig, exp, obs in oto_identity_check(OneToOne, spec, state, stored, op, modes):
                    t.bad(sig, case, exp, obs)
    except Hang:
        t.bad('C17|op:%s|terminates' % oto_opname(cur[2][:2]), oto_identity_case(*cur), 'returns',
              'shard exceeded its 600 s CPU budget')
    return t


# ------------------------------------------------------------------------------------------------------
# Keys and values that are not equal to themselves.  "Arbitrary hashable keys and values": float('nan') is hashable,
# and dicts find it by identity (`is` before `==`).  One NaN object next to 0 and 1, every pair list of <= 3 pairs,
# every way of putting the pairs in, one removal afterwards.  The reference works on *codes* ('nan', 0, 1): with a single
# NaN object "same key" (identical or equal) coincides with equality of codes, so the model is the ordinary one.

ODD_NAN = float('nan')
ODD_DOM = ('nan', 0, 1)
ODD_FORMS = ('ctor(pairs)', 'ctor(dict)', 'ctor(iterator)', 'unique(pairs)', 'update(pairs)', 'ior(pairs)', 'setitem-each',
             'ctor(pairs[:1]);update(pairs[1:])', 'copy()', 'ctor(OneToOne)')
ODD_AFTER = (None, 'del', 'pop', 'inv-del', 'inv-pop', 'set-again')


def odd_obj(c):
    return ODD_NAN if c == 'nan' else c


def odd_code(x):
    return 'nan' if x is ODD_NAN else ('nan(another object)' if x != x else x)


def odd_items(d):
    return [(odd_code(k), odd_code(v)) for k, v in dict.items(d)]


def odd_pairlists(maxlen):
    prs = [(k, v) for k in ODD_DOM for v in ODD_DOM]
    for n in range(maxlen + 1):
        for seq in itertools.product(prs, repeat=n):
            yield seq


def odd_check(cls, seq, form, after, target):
    """Returns [(sig, expected, observed)]."""
    out = []
    pairs = [(odd_obj(k), odd_obj(v)) for k, v in seq]
    name = 'OneToOne.%s[NaN operands]' % form

    def bad(what, exp, obs, nm=name):
        out.append(('C17|op:%s|%s' % (nm, what), exp, obs))

    plain = dict(seq)
    want_exc = form == 'unique(pairs)' and len(set(plain.values())) < len(plain)
    model = oto_seq({}, seq)
    # a pair list that repeats a key: bulk forms may assign pair by pair or collapse the argument into a dict first
    # (same latitude as in the searches above); item assignment is sequential by construction
    models = [model] if form == 'setitem-each' else [model, oto_seq({}, list(plain.items()))]
    if form == 'ctor(pairs[:1]);update(pairs[1:])':
        models = [model, oto_seq(dict(seq[:1]), list(dict(seq[1:]).items()))]
    try:
        if form == 'ctor(pairs)':
            o = cls(pairs)
        elif form == 'ctor(dict)':
            o = cls(dict(pairs))
        elif form == 'ctor(iterator)':
            o = cls(iter(pairs))
        elif form == 'unique(pairs)':
            o = cls.unique(pairs)
        elif form == 'update(pairs)':
            o = cls(); o.update(pairs)
        elif form == 'ior(pairs)':
            o = cls(); o |= pairs
        elif form == 'setitem-each':
            o = cls()
            for k, v in pairs:
                o[k] = v
        elif form == 'ctor(pairs[:1]);update(pairs[1:])':
            o = cls(pairs[:1]); o.update(pairs[1:])
        elif form == 'copy()':
            o = cls(pairs).copy()
        else:
            o = cls(cls(pairs))
    except Hang:
        raise
    except Exception as e:
        if not (want_exc and isinstance(e, ValueError)):
            bad('result', 'ValueError' if want_exc else 'an instance', 'raised ' + type(e).__name__)
        return out
    if want_exc:
        bad('result', 'ValueError (two keys carry one value)', 'returned ' + repr(o))
        return out

    def state_ok(o, model, nm):
        fwd, inv = odd_items(o), odd_items(o.inv)
        ok = True
        if sorted(map(repr, fwd)) != sorted(map(repr, model.items())):
            bad('contents', sorted(map(repr, model.items())), sorted(map(repr, fwd)), nm); ok = False
        if sorted(map(repr, inv)) != sorted(repr((v, k)) for k, v in fwd):
            bad('mirror', sorted(repr((v, k)) for k, v in fwd), sorted(map(repr, inv)), nm); ok = False
        if o.inv.inv is not o:
            bad('mirror', 'o.inv.inv is o', 'another object', nm); ok = False
        if ok:
            for k, v in dict.items(o):
                try:
                    r1, r2 = o[k], o.inv[v]
                except Exception as e:
                    bad('lookup', 'o[k] is v and o.inv[v] is k', 'raised ' + type(e).__name__, nm); ok = False
                    break
                if r1 is not v or r2 is not k:
                    bad('lookup', 'o[k] is v and o.inv[v] is k', [odd_code(r1), odd_code(r2)], nm); ok = False
                    break
        return ok

    got = sorted(map(repr, odd_items(o)))
    for m in models[1:]:
        if got == sorted(map(repr, m.items())):
            model = m
    if not state_ok(o, model, name) or after is None:
        return out
    # one more operation on the object so built
    t_obj = odd_obj(target)
    nm2 = '%s;%s' % (name, after)
    m2 = dict(model)
    inv_model = transpose(m2)
    try:
        if after == 'del':
            present = target in m2
            del o[t_obj]
            m2.pop(target)
        elif after == 'pop':
            present = target in m2
            r = o.pop(t_obj)
            if odd_code(r) != m2.pop(target):
                bad('result', model.get(target), odd_code(r), nm2)
        elif after == 'inv-del':
            present = target in inv_model
            del o.inv[t_obj]
            m2.pop(inv_model[target])
        elif after == 'inv-pop':
            present = target in inv_model
            r = o.inv.pop(t_obj)
            if odd_code(r) != inv_model[target]:
                bad('result', inv_model.get(target), odd_code(r), nm2)
            m2.pop(inv_model[target])
        else:
            present = True
            o[t_obj] = t_obj
            oto_assign(m2, target, target)
        if not present:
            bad('result', 'KeyError', 'returned', nm2)
            return out
    except Hang:
        raise
    except KeyError:
        if present:
            bad('result', 'returns', 'raised KeyError', nm2)
            return out
        m2 = dict(model)
    except Exception as e:
        bad('result', 'returns' if present else 'KeyError', 'raised ' + type(e).__name__, nm2)
        return out
    state_ok(o, m2, nm2)
    return out


def odd_cases(maxlen):
    for seq in odd_pairlists(maxlen):
        for form in ODD_FORMS:
            for after in ODD_AFTER:
                for target in (ODD_DOM if after else (None,)):
                    yield seq, form, after, target


def odd_case(seq, form, after, target):
    return {'kind': 'oto-nan', 'pairs': [list(p) for p in seq], 'form': form, 'then': after, 'target': target,
            'objects': "'nan' stands for one float('nan') object"}


def odd_shard(arg):
    from boltons.dictutils import OneToOne
    idx, nshards, maxlen = arg
    t = inputs.Tally()
    cur = None
    try:
        with Budget(600):
            for i, cur in enumerate(odd_cases(maxlen)):
                if i % nshards != idx:
                    continue
                case = odd_case(*cur)
                t.count(nontrivial=any('nan' in p for p in cur[0]), sample=case)
                for sig, exp, obs in odd_check(OneToOne, *cur):
                    t.bad(sig, case, exp, obs)
    except Hang:
        t.bad('C17|op:OneToOne.%s[NaN operands]|terminates' % cur[1], odd_case(*cur), 'returns',
              'shard exceeded its 600 s CPU budget')
    return t


# ======================================================================================================
# ManyToMany
# ======================================================================================================

def tr_pairs(P):
    return frozenset((v, k) for k, v in P)


M2M_SHAPES = {'add': 'add', 'setitem_iter': 'setitem(iterator)', 'setitem_set': 'setitem(set)',
              'setitem_fset': 'setitem(frozenset)', 'setitem_gen': 'setitem(generator)',
              'setitem_lookup': 'setitem(lookup-result)', 'update_pairs': 'update(pairs)',
              'update_iter': 'update(iterator)', 'update_dict': 'update(dict)', 'update_m2m': 'update(ManyToMany)',
              'update_self': 'update(self)', 'update_inv': 'update(self.inv)', 'ctor_m2m': 'ctor(ManyToMany)'}
M2M_CTOR = {'pairs': 'ctor(pairs)', 'iter': 'ctor(iterator)', 'dict': 'ctor(dict)', 'm2m': 'ctor(ManyToMany)',
            'none': 'ctor()'}


def m2m_concrete(op):
    """('f', 'xeq', 'kv', 'add'|'remove', k, v) -> the op with key and value replaced by equal-but-distinct objects
    (see oto_concrete); other ops unchanged."""
    if op[1] != 'xeq':
        return op
    s, mode, n, a = op[0], op[2], op[3], op[4:]
    K = eqv if 'k' in mode else (lambda i: i)
    V = eqv if 'v' in mode else (lambda i: i)
    if n in ('add', 'remove', 'replace'):       # replace: 'k' = the old key, 'v' = the new key
        return (s, n, K(a[0]), V(a[1]))
    if n == 'del':
        return (s, n, K(a[0]))
    if n == 'setitem':
        return (s, n, K(a[0]), tuple(V(v) for v in a[1]))
    if n == 'setitem_lookup':                   # x[k] = x[k2]
        return (s, n, K(a[0]), V(a[1]))
    if n in ('update_pairs', 'update_iter', 'update_dict'):
        return (s, n, tuple((K(k), V(v)) for k, v in a[0]))
    raise AssertionError(op)


def m2m_opname(op, P=None):
    """Operation name with the argument shape; state-dependent shapes need the model pair set P of the target."""
    n = op[1]
    if n == 'xeq':
        return '%s[equal-not-identical:%s]' % (m2m_opname((op[0],) + tuple(op[3:]), P), XEQ_MODES[op[2]])
    if n in M2M_SHAPES:
        return 'ManyToMany.' + M2M_SHAPES[n]
    if n == 'ctor':
        return 'ManyToMany.' + M2M_CTOR[op[2]]
    keys = set(k for k, _ in P) if P is not None else None
    if n == 'remove':
        return 'ManyToMany.remove(%s)' % ('?' if P is None else 'present' if (op[2], op[3]) in P else 'absent')
    if n == 'del':
        return 'ManyToMany.delitem(%s)' % ('?' if P is None else 'present' if op[2] in keys else 'absent')
    if n == 'setitem':
        return 'ManyToMany.setitem(%s)' % ('list' if op[3] else 'empty')
    if n == 'replace':
        if P is None:
            sh = '?'
        elif op[2] not in keys:
            sh = 'absent-key'
        elif op[2] == op[3]:
            sh = 'same-key'
        else:
            sh = 'existing-newkey' if op[3] in keys else 'new-newkey'
        return 'ManyToMany.replace(%s)' % sh
    raise AssertionError(op)


def m2m_apply(cls, x, op):
    n = op[1]
    arg_ok = True
    try:
        if n == 'add':
            r = x.add(op[2], op[3])
        elif n == 'remove':
            r = x.remove(op[2], op[3])
        elif n == 'setitem':
            a = list(op[3]); x[op[2]] = a; r = None
            arg_ok = a == list(op[3])
        elif n == 'setitem_iter':
            x[op[2]] = iter(list(op[3])); r = None
        elif n == 'setitem_gen':
            x[op[2]] = (v for v in op[3]); r = None
        elif n == 'setitem_set':
            a = set(op[3]); x[op[2]] = a; r = None
            arg_ok = a == set(op[3])
        elif n == 'setitem_fset':
            x[op[2]] = frozenset(op[3]); r = None
        elif n == 'setitem_lookup':
            x[op[2]] = x[op[3]]; r = None          # the value set handed out for another (or the same) key
        elif n == 'del':
            del x[op[2]]; r = None
        elif n == 'replace':
            r = x.replace(op[2], op[3])
        elif n == 'update_pairs':
            a = [tuple(p) for p in op[2]]; r = x.update(a)
            arg_ok = a == [tuple(p) for p in op[2]]
        elif n == 'update_iter':
            r = x.update(iter([tuple(p) for p in op[2]]))
        elif n == 'update_dict':
            a = dict(op[2]); r = x.update(a)
            arg_ok = list(a.items()) == [tuple(p) for p in op[2]]
        elif n == 'update_self':
            r = x.update(x)
        elif n == 'update_inv':
            r = x.update(x.inv)
        else:
            raise AssertionError(op)
    except Hang:
        raise
    except Exception as e:
        return ('exc', type(e).__name__), arg_ok
    return ('ok', None), arg_ok          # the statement does not fix what the mutators return: not compared


def m2m_model(P, op):
    """Reference: acceptable results and acceptable successor pair sets of the target view."""
    n = op[1]
    P = frozenset(P)
    OK = [('ok', None)]
    ABSENT = [('exc', 'KeyError'), ('ok', None)]     # the statement does not fix the outcome, only the state
    if n == 'add':
        return OK, [P | {(op[2], op[3])}]
    if n == 'remove':
        if (op[2], op[3]) in P:
            return OK, [P - {(op[2], op[3])}]
        return ABSENT, [P]
    if n in ('setitem', 'setitem_iter', 'setitem_gen', 'setitem_set', 'setitem_fset'):
        return OK, [frozenset(p for p in P if p[0] != op[2]) | frozenset((op[2], v) for v in op[3])]
    if n == 'setitem_lookup':
        vals = [v for k, v in P if k == op[3]]
        if not vals:
            return ABSENT, [P]                       # the lookup of an absent key fails (read oracle 'getitem')
        return OK, [frozenset(p for p in P if p[0] != op[2]) | frozenset((op[2], v) for v in vals)]
    if n == 'del':
        if any(k == op[2] for k, _ in P):
            return OK, [frozenset(p for p in P if p[0] != op[2])]
        return ABSENT, [P]
    if n == 'replace':
        k, k2 = op[2], op[3]
        mine = frozenset(v for kk, v in P if kk == k)
        if not mine or k == k2:
            return OK, [P]
        rest = frozenset(p for p in P if p[0] != k)
        moved = frozenset((k2, v) for v in mine)
        # DESIGN 5.1: onto an existing key either "merge" or "take over" is acceptable
        return OK, [rest | moved, frozenset(p for p in rest if p[0] != k2) | moved]
    if n in ('update_pairs', 'update_iter', 'update_dict', 'update_m2m'):
        return OK, [P | frozenset(tuple(p) for p in op[2])]
    if n == 'update_self':
        return OK, [P]
    if n == 'update_inv':
        return OK, [P | tr_pairs(P)]
    raise AssertionError(op)


def m2m_sets(m):
    """All internal set objects: (side, key, set)."""
    out = []
    for side, x in (('data', m), ('inv.data', m.inv)):
        for k, s in x.data.items():
            out.append((side, k, s))
    return out


def m2m_alias(m):
    """Index pairs (i < j, in order) of the internal value sets that are one and the same object."""
    groups = {}
    i = 0
    for x in (m, m.inv):
        for st in x.data.values():
            groups.setdefault(id(st), []).append(i)
            i += 1
    if len(groups) == i:
        return ()
    return tuple(sorted(p for g in groups.values() if len(g) > 1 for p in itertools.combinations(g, 2)))


def m2m_canon(m, ordered=True):
    inv = getattr(m, 'inv', None)
    try:
        f = [(k, tuple(sorted(vs, key=rkey))) for k, vs in m.data.items()]
        b = [(k, tuple(sorted(vs, key=rkey))) for k, vs in inv.data.items()]
        if not ordered:
            f.sort(key=rkey); b.sort(key=rkey)
        return ('ManyToMany', tuple(f), tuple(b), m2m_alias(m), getattr(inv, 'inv', None) is m)
    except Exception as e:                                # noqa - a broken structure is still a (distinct) state
        return ('ManyToMany', 'unreadable', type(e).__name__)


def m2m_snapshot(m):
    """The internal state for before/after comparisons: keys in dict order with their value sets on both sides,
    which sets are shared objects, inv.inv.  Equal snapshots <=> equal m2m_canon(m); cheaper (no sorting)."""
    try:
        inv = m.inv
        return ([(k, frozenset(vs)) for k, vs in m.data.items()], [(k, frozenset(vs)) for k, vs in inv.data.items()],
                m2m_alias(m), getattr(inv, 'inv', None) is m)
    except Exception as e:                                # noqa - a broken structure is still a (distinct) state
        return ('unreadable', type(e).__name__)


def m2m_show(q):
    if q[0] == 'unreadable':
        return q
    return tuple(tuple((k, tuple(sorted(vs, key=rkey))) for k, vs in side) for side in q[:2])


def m2m_pairs_public(x):
    return frozenset(x.iteritems())


def m2m_observe(m):
    """Every public read of both sides, results dropped (see oto_observe)."""
    for x in (m, getattr(m, 'inv', None)):
        if x is None:
            continue
        try:
            len(x); list(x); list(x.keys()); list(x.iteritems()); repr(x); x == x.inv; x.inv.inv
            for k in DOM:
                k in x; x.get(k); x.get(k, 'D')
        except Hang:
            raise
        except Exception:
            pass
        for k in DOM:
            try:
                x[k]
            except Hang:
                raise
            except Exception:
                pass


class M2mSpec:
    kind = 'm2m'

    def __init__(self, ordered=True):
        self.ordered = ordered
        self.config = {'kind': 'm2m', 'class': 'ManyToMany', 'keys': list(DOM), 'values': list(DOM),
                       'canon': 'dict order of data and inv.data kept' if ordered else
                                'dict order dropped (pair sets are compared unordered; no ManyToMany operation depends on it)'}
        self.menu, self.root_menu = self._menu()

    def cls(self):
        c = getattr(self, '_cls', None)
        if c is None:
            from boltons import dictutils
            c = self._cls = dictutils.ManyToMany
        return c

    def canon(self, m):
        return m2m_canon(m, self.ordered)

    def _menu(self):
        subsets = [tuple(c) for r in range(4) for c in itertools.combinations(DOM, r)]
        lists = [()] + [(p,) for p in PAIRS] + [((0, 1), (0, 2)), ((0, 1), (1, 1)), ((1, 0), (0, 1)), ((2, 2), (2, 2)),
                                                  ((1, 2), (2, 0)), ((0, 0), (1, 1), (2, 2)), ((2, 0), (2, 1), (0, 1))]
        m = []
        for s in ('f', 'i'):
            for k, v in PAIRS:
                m.append((s, 'add', k, v))
            for k, v in PAIRS:
                m.append((s, 'remove', k, v))
            for k, v in PAIRS:              # operands equal to, but not the same objects (nor type) as, the stored ones
                m.append((s, 'xeq', 'kv', 'add', k, v))
                m.append((s, 'xeq', 'kv', 'remove', k, v))
                m.append((s, 'xeq', 'kv', 'replace', k, v))     # replace(1.0, 2.0): equal, never identical operands
            for k in DOM:
                # the new key equals the old one without being the same object (and the three ways to get there)
                m += [(s, 'xeq', 'k', 'replace', k, k), (s, 'xeq', 'v', 'replace', k, k)]
                m += [(s, 'xeq', 'v', 'replace', k, (k + 1) % 3), (s, 'xeq', 'k', 'del', k),
                      (s, 'xeq', 'kv', ('update_pairs', 'update_iter', 'update_dict')[k], ((k, 1), ((k + 1) % 3, k))),
                      (s, 'xeq', 'kv', 'setitem', k, (k, (k + 1) % 3)), (s, 'xeq', 'k', 'setitem', k, ()),
                      (s, 'xeq', 'kv', 'setitem_lookup', k, (k + 2) % 3)]
            for k in DOM:
                for sub in subsets:
                    m.append((s, 'setitem', k, sub))
                m.append((s, 'setitem_iter', k, (2, 0)))
                m.append((s, 'setitem_set', k, (k, 2 - k)))     # a set owned by the caller
                if k == 1:
                    m.append((s, 'setitem_gen', k, (1, 2)))
                    m.append((s, 'setitem_fset', k, (0, 1)))
                for k2 in DOM:
                    m.append((s, 'setitem_lookup', k, k2))      # x[k] = x[k2]
                m.append((s, 'del', k))
            for k, k2 in PAIRS:
                m.append((s, 'replace', k, k2))
            for l in lists:
                m.append((s, 'update_pairs', l))
            for l in [(), ((0, 1),), ((1, 1), (1, 2)), ((2, 0), (0, 2), (2, 0))]:
                m.append((s, 'update_iter', l))
            for l in [(), ((0, 2),), ((1, 1), (2, 1)), ((0, 0), (1, 2), (2, 1))]:
                m.append((s, 'update_dict', l))
            for l in [(), ((0, 1),), ((1, 1), (1, 2), (2, 1)), ((2, 0), (0, 2)), tuple(PAIRS)]:
                m.append((s, 'update_m2m', l))
            m += [(s, 'update_self'), (s, 'update_inv'), (s, 'ctor_m2m')]
        # the second variant of a transition: the object was LOOKED AT (every public read, both sides) after each
        # step of the history before the operation is applied - see expand()
        self.observed_menu = set(
            op for op in m if op[1] in ('add', 'remove', 'del', 'replace', 'update_self', 'update_inv', 'ctor_m2m')
            or (op[1] == 'setitem' and op[3] in ((), (1,), (0, 2), (0, 1, 2)))
            or (op[1] == 'setitem_lookup' and (op[3] - op[2]) % 3 != 2)
            or (op[1] == 'update_pairs' and op[2] in lists[-4:])
            or (op[1] == 'update_m2m' and op[2] in (((1, 1), (1, 2), (2, 1)), ((2, 0), (0, 2)))))
        root = [('f', 'ctor', 'none', ())]
        for l in lists:
            root.append(('f', 'ctor', 'pairs', l))
            root.append(('f', 'ctor', 'iter', l))
            root.append(('f', 'ctor', 'm2m', l))
            if len(dict(l)) == len(l):
                root.append(('f', 'ctor', 'dict', l))
        return m, root

    def initial(self):
        return [()]

    def build(self, hist, observe=False):
        """observe: every public read is made on the object after each step (results dropped)."""
        cls = self.cls()
        m = cls()
        if observe:
            m2m_observe(m)
        for op in hist:
            m = self.advance(cls, m, op)
            if observe:
                m2m_observe(m)
        return m, m2m_pairs_public(m)

    def advance(self, cls, m, op):
        s, n = op[0], op[1]
        x = m if s == 'f' else m.inv
        if n == 'ctor':
            return self.construct(cls, op)[0]
        if n == 'ctor_m2m':
            y = cls(x)
            return y if s == 'f' else y.inv
        if n == 'update_m2m':
            x.update(cls([tuple(p) for p in op[2]]))
        else:
            m2m_apply(cls, x, m2m_concrete(op))
        return m

    @staticmethod
    def construct(cls, op):
        """Returns (new instance, source instance or None)."""
        shape, pairs = op[2], [tuple(p) for p in op[3]]
        if shape == 'none':
            return cls(), None
        if shape == 'pairs':
            return cls(pairs), None
        if shape == 'iter':
            return cls(iter(pairs)), None
        if shape == 'dict':
            return cls(dict(pairs)), None
        if shape == 'm2m':
            src = cls(pairs)
            return cls(src), src
        raise AssertionError(op)

    def root_key(self, hist):
        return self.canon(self.build(hist)[0])

    def case(self, hist, op, observed=False):
        c = {'config': self.config, 'history': [list(o) for o in hist] + [core.jsonable(op)]}
        if observed:
            c['observed'] = OBSERVED_NOTE
        return c

    def expand(self, hist):
        out = []
        if hang_seen(self):
            return out
        menu = self.menu + (self.root_menu if not hist else [])
        cur = [None]
        try:
            with Budget(OP_BUDGET):
                for op in menu:
                    cur[0] = op
                    m, P = self.build(hist)
                    V, ok, label, m2 = self.step(m, P, op, hist)
                    out.append((op, self.canon(m2) if ok else None, label, V))
                    if op in self.observed_menu:
                        # the same transition on an object that was looked at after every step so far
                        m, P = self.build(hist, observe=True)
                        V2, ok, label, m2 = self.step(m, P, op, hist, observed=True)
                        out.append((op, None, (label[0] + OBSERVED_TAG, label[1]), only_after_reads(V, V2)))
        except Hang:
            op = cur[0]
            nm = m2m_opname(op)
            out.append((op, None, (nm, 'hang'),
                        [('C17|op:%s|terminates' % nm, self.case(hist, op), 'returns',
                          'no return within the %d s CPU budget of the state' % OP_BUDGET, None, ())]))
        return out

    # ---- oracles ---------------------------------------------------------------------------------------
    def invariants(self, m, bad):
        """Mirror + no empty entries, through the public API and on the internal dicts."""
        ok = True
        inv = getattr(m, 'inv', None)
        if inv is None or not hasattr(inv, 'iteritems'):
            bad('inv-attribute', 'a ManyToMany', repr(inv)); return False
        try:
            F, B = m2m_pairs_public(m), m2m_pairs_public(inv)
            Fi = frozenset((k, v) for k, vs in m.data.items() for v in vs)
            Bi = frozenset((k, v) for k, vs in inv.data.items() for v in vs)
            BB = m2m_pairs_public(inv.inv)
        except Exception as e:
            bad('mirror', 'readable pair sets', 'raised ' + type(e).__name__); return False
        if tr_pairs(B) != F or tr_pairs(Bi) != Fi:
            bad('mirror', {'forward pairs': sorted(F), 'inverse should hold': sorted(tr_pairs(F))},
                {'forward pairs': sorted(F), 'inverse holds': sorted(B)}); ok = False
        if ok and BB != F:
            bad('inv.inv-holds-the-original-pairs', sorted(F), sorted(BB)); ok = False
        for side, x in (('forward', m), ('inverse', inv)):
            empt = [k for k, vs in x.data.items() if not vs]
            try:
                empt += [k for k in x.keys() if not x[k] and k not in empt]
            except Exception:
                pass
            if empt:
                bad('empty-entry', 'no key with an empty value set', '%s side keeps empty entries for %r' % (side, empt))
                ok = False
        return ok

    def shared_sets_witness(self, hist, op):
        """Some internal value sets are one object.  Behavioural confirmation: find a single add/remove after which
        forward and inverse no longer mirror each other.  Returns a description or None."""
        cls = self.cls()
        for s in ('f', 'i'):
            for n in ('add', 'remove'):
                for k, v in PAIRS:
                    m = self.build(hist + (op,))[0]
                    x = m if s == 'f' else m.inv
                    P = m2m_pairs_public(x)
                    mut = (s, n, k, v)
                    res, succ = m2m_model(P, mut)
                    m2m_apply(cls, x, mut)
                    try:
                        F, B = m2m_pairs_public(m), m2m_pairs_public(m.inv)
                        Px = m2m_pairs_public(x)
                    except Exception as e:
                        return 'then %r raises %s on reading' % (list(mut), type(e).__name__)
                    if tr_pairs(B) != F or Px not in succ:
                        return 'then %r gives forward %r / inverse %r' % (list(mut), sorted(F), sorted(B))
        return None

    def step(self, m, P, op, hist, observed=False):
        """observed: m was built with build(observe=True); the oracles that rebuild the state from the history
        (independence, witness for shared sets) are left to the plain variant."""
        V = []
        case = self.case(hist, op, observed)
        s, n = op[0], op[1]
        cls = self.cls()
        x = m if s == 'f' else m.inv
        Px = P if s == 'f' else tr_pairs(P)
        name = m2m_opname(op, Px)

        def bad(what, exp, obs, read=False):
            sig = 'C17|read:ManyToMany.%s' % what if read else 'C17|op:%s|%s' % (name, what)
            V.append((sig, case, exp, obs, None, ()))

        if n in ('ctor', 'ctor_m2m'):
            return self.step_new(cls, m, P, op, hist, V, bad, name, observed)
        other = None
        if n == 'update_m2m':
            other = cls([tuple(p) for p in op[2]])
            ob = m2m_canon(other)
            try:
                x.update(other)
                r_i = ('ok', None)
            except Exception as e:
                r_i = ('exc', type(e).__name__)
            arg_ok = m2m_canon(other) == ob
        else:
            r_i, arg_ok = m2m_apply(cls, x, m2m_concrete(op))
        res, succ = m2m_model(Px, m2m_concrete(op))
        label = (name + ('@inv' if s == 'i' else ''), r_i[0] if r_i[0] == 'ok' else r_i[1])
        ok = True
        if r_i not in res:
            bad('result', res[0], r_i); ok = False
        ok = self.invariants(m, bad) and ok
        if ok:
            got = m2m_pairs_public(x)
            if got not in succ:
                bad('contents', sorted(succ[0]), sorted(got)); ok = False
        if ok and not arg_ok:
            bad('argument-changed', 'argument left as passed', 'argument mutated'); ok = False
        if ok and other is not None and not observed:
            ok = self.independence(hist, op, bad)
        if ok and not observed and m2m_alias(m):
            w = self.shared_sets_witness(hist, op)
            if w:
                ss = m2m_sets(m)
                bad('shared-value-sets', 'every entry owns its value set',
                    '%s; %s' % (', '.join('%s[%r] is %s[%r]' % (ss[i][0], ss[i][1], ss[j][0], ss[j][1])
                                          for i, j in m2m_alias(m)), w))
                ok = False
        if ok:
            self.battery(m, bad)
        return V, ok, label, m

    def mutate_and_watch(self, cls, tgt, oth, direction, bad):
        """Mutate tgt step by step (every pair added through the forward side, then removed through the inverse
        side, so every value set of tgt is changed in place at least once); oth must never change."""
        before = m2m_canon(oth)
        muts = [('f', 'add', k, v) for k, v in PAIRS] + [('i', 'remove', v, k) for k, v in PAIRS]
        muts += [('f', 'add', 1, 1), ('f', 'replace', 1, 2), ('i', 'setitem', 1, (0, 1)), ('f', 'del', 2)]
        for mut in muts:
            m2m_apply(cls, tgt if mut[0] == 'f' else tgt.inv, mut)
            if m2m_canon(oth) != before:
                bad('independence', '%s: the other instance keeps %r' % (direction, before[1:3]),
                    'after %r it holds %r' % (list(mut), m2m_canon(oth)[1:3]))
                return False
        return True

    def independence(self, hist, op, bad):
        cls = self.cls()
        s = op[0]
        for direction in ('argument mutated', 'target mutated'):
            m = self.build(hist)[0]
            x = m if s == 'f' else m.inv
            other = cls([tuple(p) for p in op[2]])
            x.update(other)
            tgt, oth = (other, m) if direction == 'argument mutated' else (m, other)
            if not self.mutate_and_watch(cls, tgt, oth, direction, bad):
                return False
        return True

    def step_new(self, cls, m, P, op, hist, V, bad, name, observed=False):
        s, n = op[0], op[1]
        x = m if s == 'f' else m.inv
        src_before = m2m_canon(m)
        try:
            if n == 'ctor':
                y, src = self.construct(cls, op)
                want = frozenset(tuple(p) for p in op[3])
                src_before = m2m_canon(src) if src is not None else None
            else:
                y, src = cls(x), m
                want = P if s == 'f' else tr_pairs(P)
            r = 'ok'
        except Exception as e:
            y, r = None, type(e).__name__
        label = (name + ('@inv' if s == 'i' else ''), r)
        if y is None:
            bad('result', 'an instance', 'raised ' + r)
            return V, False, label, m
        ok = self.invariants(y, bad)
        if ok and m2m_pairs_public(y) != want:
            bad('contents', sorted(want), sorted(m2m_pairs_public(y))); ok = False
        if ok and src is not None and m2m_canon(src) != src_before:
            bad('source-changed', src_before[1:3], m2m_canon(src)[1:3]); ok = False
        if ok and src is not None and not observed:
            for direction in ('source mutated', 'new instance mutated'):
                if n == 'ctor':
                    y1, s1 = self.construct(cls, op)
                else:
                    s1 = self.build(hist)[0]
                    y1 = cls(s1 if s == 'f' else s1.inv)
                tgt, oth = (s1, y1) if direction == 'source mutated' else (y1, s1)
                if not self.mutate_and_watch(cls, tgt, oth, direction, bad):
                    ok = False
                    break
        m2 = y if s == 'f' else y.inv
        if ok and not observed and m2m_alias(m2):
            w = self.shared_sets_witness(hist, op)
            if w:
                bad('shared-value-sets', 'every entry owns its value set', w); ok = False
        if ok:
            self.battery(m2, bad)
        return V, ok, label, (m2 if ok else m)

    @staticmethod
    def reads_agree(x, Px):
        """Fast path of the read battery: True only when every read of battery() answers as expected; otherwise
        battery() repeats the reads one by one to name the one that disagrees (its verdict counts)."""
        try:
            by_key = {}
            for kk, v in Px:
                by_key.setdefault(kk, set()).add(v)
            keys = sorted(by_key)
            if not (len(x) == len(keys) and sorted(x.keys()) == keys and sorted(x) == keys):
                return False
            for k in DOM:
                vals = by_key.get(k) or set()
                if vals:
                    if not ((k in x) is True and set(x[k]) == vals and set(x.get(k)) == vals
                            and set(x.get(k, 'D')) == vals):
                        return False
                    r = x[k]
                    if hasattr(r, 'add'):
                        r.add('poke')
                    if frozenset(x.iteritems()) != Px:
                        return False
                else:
                    if (k in x) is not False or set(x.get(k)) != vals or x.get(k, 'D') != 'D':
                        return False
                    try:
                        x[k]
                        return False
                    except Exception as e:
                        if type(e).__name__ != 'KeyError':
                            return False
            return True
        except Hang:
            raise
        except Exception:
            return False

    def battery(self, m, bad):
        q0 = m2m_snapshot(m)
        P = m2m_pairs_public(m)
        for x, Px in ((m, P), (m.inv, tr_pairs(P))):
            if self.reads_agree(x, Px):
                continue

            def read(nm, fn, want):
                try:
                    got = fn()
                except Exception as e:
                    got = 'raised ' + type(e).__name__
                if got != want:
                    bad(nm, want, got, read=True)
            keys = sorted(set(k for k, _ in Px))
            read('len', lambda: len(x), len(keys))
            read('keys', lambda: sorted(x.keys()), keys)
            read('iter', lambda: sorted(x), keys)
            for k in DOM:
                vals = set(v for kk, v in Px if kk == k)
                read('in', lambda: k in x, bool(vals))
                read('getitem', lambda: set(x[k]), vals if vals else 'raised KeyError')
                read('get', lambda: set(x.get(k)), vals)
                read('get(default)', lambda: x.get(k, 'D') if not vals else set(x.get(k, 'D')), vals if vals else 'D')
                if vals:
                    # a returned value set must not be a handle on the internal state
                    def poke():
                        r = x[k]
                        if hasattr(r, 'add'):
                            r.add('poke')
                        return frozenset(x.iteritems()) == Px
                    read('getitem-result-is-detached', poke, True)
        if m2m_snapshot(m) != q0:
            bad('reads-changed-the-state', m2m_show(q0), m2m_show(m2m_snapshot(m)), read=True)


# ------------------------------------------------------------------------------------------------------
# Sources that fail part-way.  update() / item assignment consume an iterable the caller supplies ("one-shot iterators"
# in the quantifier); when it raises after some good rows, the exception reaches the caller and the object must still be
# a many-to-many relation: forward and inverse mirror each other and hold the previous pairs plus a prefix of the good
# rows.  Afterwards every pair can be removed again.  Rows that are no pairs and unhashable members are arguments outside
# the quantifier ("hashable keys and values ... lists of pairs"): on the unchanged tree add(1, []) leaves an empty entry
# for 1 behind - observed, not demanded; those failure kinds are kept for replays but not enumerated.

FAIL_GOOD = ((0, 0), (1, 0), (2, 1), (0, 2))
FAIL_KINDS = ('generator-raises',)
FAIL_KINDS_OUTSIDE = ('row-of-one', 'row-of-three', 'row-None', 'unhashable-value', 'unhashable-key')
FAIL_ENTRIES = ('update', 'inv.update', 'setitem', 'inv.setitem')


class SourceFails(Exception):
    pass


def fail_states():
    for n in range(4):
        for c in itertools.combinations(PAIRS, n):
            yield c


def fail_prefixes():
    for n in range(4):
        for seq in itertools.permutations(FAIL_GOOD, n):
            yield seq


def fail_source(good, kind, values_only):
    """A generator over the good rows that then fails.  values_only: members for item assignment (m[k] = source)."""
    def gen():
        for k, v in good:
            yield v if values_only else (k, v)
        if kind == 'generator-raises':
            raise SourceFails('the source failed')
        if values_only:
            yield []                     # the one kind of bad member an item assignment can meet
            return
        yield {'row-of-one': (1,), 'row-of-three': (1, 2, 0), 'row-None': None, 'unhashable-value': (1, []),
               'unhashable-key': ([], 1)}[kind]
    return gen()


def fail_check(cls, spec, state, good, kind, entry):
    out = []
    name = 'ManyToMany.%s(source failing part-way:%s)' % (entry, kind)

    def bad(what, exp, obs, read=False):
        out.append(('C17|op:%s|%s' % (name, what), exp, obs))

    m = cls(list(state))
    x = m.inv if entry.startswith('inv.') else m
    P = frozenset(state)
    Px = tr_pairs(P) if entry.startswith('inv.') else P
    setitem = entry.endswith('setitem')
    try:
        if setitem:
            x[0] = fail_source([(0, v) for _, v in good], kind, True)
        else:
            x.update(fail_source(good, kind, False))
        raised = None
    except Hang:
        raise
    except BaseException as e:          # noqa
        raised = e
    if raised is None:
        bad('result', 'the failure of the source reaches the caller', 'returned normally')
        return out
    if kind == 'generator-raises' and not isinstance(raised, SourceFails):
        bad('result', 'SourceFails (raised by the source)', type(raised).__name__)
    if not spec.invariants(m, bad):
        return out
    got = m2m_pairs_public(x)
    if setitem:
        rows = [(0, v) for _, v in good]
        base = frozenset(p for p in Px if p[0] != 0)
        allowed = [Px] + [Px | frozenset(rows[:i]) for i in range(len(rows) + 1)] \
            + [base | frozenset(rows[:i]) for i in range(len(rows) + 1)]
    else:
        allowed = [Px | frozenset(good[:i]) for i in range(len(good) + 1)]
    if got not in allowed:
        bad('contents', 'previous pairs plus a prefix of the good rows: %r' % sorted(allowed[-1]), sorted(got))
        return out
    for k, v in sorted(got):
        try:
            x.remove(k, v)
        except Hang:
            raise
        except Exception as e:
            bad('then-remove', 'remove(%r, %r) of a present pair returns' % (k, v), 'raised ' + type(e).__name__)
            return out
    if not spec.invariants(m, bad):
        return out
    if m2m_pairs_public(m):
        bad('then-remove', 'empty after removing every pair', sorted(m2m_pairs_public(m)))
    return out


def fail_cases():
    for state in fail_states():
        for good in fail_prefixes():
            for kind in FAIL_KINDS:
                for entry in FAIL_ENTRIES:
                    if entry.endswith('setitem') and kind not in ('generator-raises', 'unhashable-value'):
                        continue
                    yield state, good, kind, entry


def fail_case(state, good, kind, entry):
    return {'kind': 'm2m-failing-source', 'state': [list(p) for p in state], 'good_rows': [list(p) for p in good],
            'failure': kind, 'entry': entry}


def fail_shard(arg):
    from boltons.dictutils import ManyToMany
    idx, nshards = arg
    t = inputs.Tally()
    spec = M2mSpec(ordered=False)
    cur = None
    try:
        with Budget(600):
            for i, cur in enumerate(fail_cases()):
                if i % nshards != idx:
                    continue
                case = fail_case(*cur)
                t.count(nontrivial=bool(cur[1]), sample=case)
                for sig, exp, obs in fail_check(ManyToMany, spec, *cur):
                    t.bad(sig, case, exp, obs)
    except Hang:
        t.bad('C17|op:ManyToMany.%s(source failing part-way:%s)|terminates' % (cur[3], cur[2]), fail_case(*cur), 'returns',
              'shard exceeded its 600 s CPU budget')
    return t


# ======================================================================================================
# FrozenDict (E2 matrix)
# ======================================================================================================

FD_KEYS = ('a', 'b', 'c')
FD_VALUES_QUICK = ('i0', 'i1', 't0', 'l0')
FD_VALUES_THOROUGH = ('i0', 'i1', 't0', 'l0', 'f1', 'tl', 'n')
UNHASHABLE = ('l0', 'tl')


def fd_value(code):
    """A fresh value object per call."""
    if code == 'l0':
        return [0]
    if code == 'tl':
        return ([0],)
    return {'i0': 0, 'i1': 1, 't0': (0,), 'f1': 1.0, 'n': None}[code]


def fd_items(content):
    return [(k, fd_value(c)) for k, c in content]


def fd_contents(values):
    """Every ordered content: subsets of the keys x value assignment x insertion order, smallest first."""
    for n in range(len(FD_KEYS) + 1):
        for keys in itertools.combinations(FD_KEYS, n):
            for vals in itertools.product(values, repeat=n):
                for perm in itertools.permutations(range(n)):
                    yield tuple((keys[i], vals[i]) for i in perm)


def fd_hash_outcome(fd):
    try:
        return ('ok', hash(fd))
    except Exception as e:
        return ('exc', type(e).__name__)


def fd_snapshot(d):
    """Order, keys and value identity of the stored items."""
    return [(k, id(v), repr(v)) for k, v in dict.items(d)]


def fd_show(snap):
    return [[s[0], s[2]] for s in snap]


def _ior(d, arg):
    d |= arg
    return None


# mutators: (name, needs an existing key?, callable(d, existing_key)); 'z' is never a key, 9 never a value
FD_MUTATORS = [
    ('setitem(new-key)', False, lambda d, e: d.__setitem__('z', 9)),
    ('setitem(existing-key)', True, lambda d, e: d.__setitem__(e, 9)),
    ('setitem(existing-key,same-value)', True, lambda d, e: d.__setitem__(e, dict.__getitem__(d, e))),
    ('delitem(existing)', True, lambda d, e: d.__delitem__(e)),
    ('delitem(missing)', False, lambda d, e: d.__delitem__('z')),
    ('update(dict)', False, lambda d, e: d.update({'z': 9})),
    ('update(dict-overwrite)', True, lambda d, e: d.update({e: 9})),
    ('update(pairs)', False, lambda d, e: d.update([('z', 9)])),
    ('update(iterator)', False, lambda d, e: d.update(iter([('z', 9)]))),
    ('update(kwargs)', False, lambda d, e: d.update(z=9)),
    ('update(empty-dict)', False, lambda d, e: d.update({})),
    ('update()', False, lambda d, e: d.update()),
    ('ior(dict)', False, lambda d, e: _ior(d, {'z': 9})),
    ('ior(dict-overwrite)', True, lambda d, e: _ior(d, {e: 9})),
    ('ior(pairs)', False, lambda d, e: _ior(d, [('z', 9)])),
    ('ior(empty-dict)', False, lambda d, e: _ior(d, {})),
    ('ior(self)', False, lambda d, e: _ior(d, d)),
    ('setdefault(new-key)', False, lambda d, e: d.setdefault('z')),
    ('setdefault(new-key,default)', False, lambda d, e: d.setdefault('z', 9)),
    ('setdefault(existing-key,default)', True, lambda d, e: d.setdefault(e, 9)),
    ('setdefault(existing-key)', True, lambda d, e: d.setdefault(e)),
    ('setdefault(existing-key,stored-value)', True, lambda d, e: d.setdefault(e, dict.__getitem__(d, e))),
    ('update(dict-same-item)', True, lambda d, e: d.update({e: dict.__getitem__(d, e)})),
    ('update(empty-pairs)', False, lambda d, e: d.update([])),
    ('update(self)', False, lambda d, e: d.update(d)),
    ('ior(dict-same-item)', True, lambda d, e: _ior(d, {e: dict.__getitem__(d, e)})),
    ('ior(empty-pairs)', False, lambda d, e: _ior(d, [])),
    ('pop(existing)', True, lambda d, e: d.pop(e)),
    ('pop(existing,default)', True, lambda d, e: d.pop(e, None)),
    ('pop(missing)', False, lambda d, e: d.pop('z')),
    ('pop(missing,default)', False, lambda d, e: d.pop('z', None)),
    ('popitem', False, lambda d, e: d.popitem()),
    ('clear', False, lambda d, e: d.clear()),
]


def fd_outcome(fn, d, e):
    """('ok', repr of result) or ('exc', class name, is it a TypeError?)."""
    try:
        r = fn(d, e)
        return ('ok', repr(r))
    except Hang:
        raise
    except Exception as ex:
        return ('exc', type(ex).__name__, isinstance(ex, TypeError))


def fd_hashable(d):
    try:
        hash(frozenset(d.items()))
        return True
    except TypeError:
        return False


def fd_subclasses(FrozenDict):
    """Application-level record types: a plain and a slotted subclass of the FrozenDict under test.  Their instances
    ARE FrozenDicts and compare equal (dict equality) to a FrozenDict with the same items.  The classes are module
    attributes, so pickle finds them by name."""
    g = globals()
    if g.get('_FD_BASE') is not FrozenDict:
        g['_FD_BASE'] = FrozenDict
        for nm, ns in (('FDRecord', {}), ('FDSlottedRecord', {'__slots__': ()})):
            g[nm] = type(nm, (FrozenDict,), dict(ns, __module__=__name__, __qualname__=nm))
    return g['FDRecord'], g['FDSlottedRecord']


def fd_check_subclasses(FrozenDict, FrozenHashError, content, fd, h0, bad, count):
    """"equal FrozenDicts have equal hashes": also when one of them is an instance of a FrozenDict subclass (the
    statement does not restrict the concrete class; equality is dict equality and ignores it)."""
    import copy
    import pickle
    subs = fd_subclasses(FrozenDict)
    made = []
    for cls in subs:
        count()
        try:
            made.append((cls.__name__, cls(fd_items(content))))
        except Exception as e:
            bad('hash|subclass-instance', 'hash-subclass', 'an instance of %s' % cls.__name__, 'raised ' + type(e).__name__)
    for nm, inst in list(made):
        for via, mk in (('updated()', lambda: inst.updated()), ('copy()', lambda: inst.copy()),
                        ('copy.copy', lambda: copy.copy(inst)), ('pickle', lambda: pickle.loads(pickle.dumps(inst))),
                        ('FrozenDict(instance)', lambda: FrozenDict(inst)), ('subclass(FrozenDict)', lambda: type(inst)(fd))):
            count()
            try:
                made.append(('%s via %s' % (nm, via), mk()))
            except Exception as e:
                bad('hash|subclass-instance', 'hash-subclass', 'a value equal to the original via ' + via,
                    'raised ' + type(e).__name__)
    for nm, other in made:
        try:
            eq = isinstance(other, FrozenDict) and other == fd and fd == other
        except Exception:
            eq = False
        if not eq:
            continue                                    # value equality of derivations is judged in part C
        if h0 is None:
            outs = []
            for _ in range(2):
                try:
                    hash(other); outs.append('returned')
                except FrozenHashError:
                    outs.append('FrozenHashError')
                except Exception as e:
                    outs.append(type(e).__name__)
            if outs != ['FrozenHashError'] * 2:
                bad('hash|unhashable-value-raises-FrozenHashError-every-time', 'hash-subclass', ['FrozenHashError'] * 2,
                    {'object': nm, 'outcomes': outs})
            continue
        ho = fd_hash_outcome(other)
        if ho != h0:
            bad('hash|subclass-instance-equal-to-a-FrozenDict', 'hash-subclass', 'equal objects, equal hashes',
                {'object': nm, 'equal': True, 'hash': 'different' if ho[0] == 'ok' else ho[1]})
            continue
        try:
            found = other in {fd} and fd in {other} and {other: 1}.get(fd) == 1
        except Exception as e:
            found = 'raised ' + type(e).__name__
        if found is not True:
            bad('hash|subclass-instance-usable-as-key', 'hash-subclass', True, {'object': nm, 'found': found})


def fd_check_content(FrozenDict, FrozenHashError, content, t, only=None):
    """All checks for one ordered content.  `only` (a check label) restricts the run for replays."""
    import copy
    import pickle
    items = fd_items(content)
    hashable = not any(c in UNHASHABLE for _, c in content)
    case0 = {'kind': 'frozen', 'content': [list(p) for p in content]}
    nontriv = bool(content)
    ekey = content[0][0] if content else None

    def bad(what, sub, exp, obs):
        t.bad('C17|frozen:%s' % what, dict(case0, check=sub), exp, obs)

    # ---- A. mutators ---------------------------------------------------------------------------------
    for cached in (True, False):
        for name, needs, fn in FD_MUTATORS:
            if needs and ekey is None:
                continue
            sub = 'mutator:%s:%s' % (name, 'hash-cached' if cached else 'hash-not-yet-computed')
            fd = FrozenDict(items)
            ref_hash = fd_hash_outcome(FrozenDict(items))
            if cached:
                fd_hash_outcome(fd)
            snap = fd_snapshot(fd)
            plain = dict(items)
            psnap = fd_snapshot(plain)
            p_out = fd_outcome(fn, plain, ekey)
            mutating = fd_snapshot(plain) != psnap       # independent oracle: what the call does to a builtin dict
            out = fd_outcome(fn, fd, ekey)
            t.count(nontrivial=nontriv, sample=dict(case0, check=sub))
            is_te = out[0] == 'exc' and out[2]
            if mutating:
                if not is_te:
                    bad('%s|raises-TypeError' % name, sub, 'TypeError', list(out[:2]))
            elif not is_te:
                # The call would not change a builtin dict (setdefault/update/|= that add nothing, pop of a missing
                # key ...).  The statement speaks of the *operations* ("every mutating dict operation ... raises
                # TypeError"), not of the calls that happen to change something, and the repository's own test demands
                # TypeError for the effect-free `fd |= fd`: TypeError is demanded here too.  Own signature, so that
                # this reading can be listed separately.
                bad('%s|raises-TypeError(effect-free-call)' % name, sub, 'TypeError', list(out[:2]))
            if fd_snapshot(fd) != snap:
                bad('%s|left-unchanged' % name, sub, fd_show(snap), fd_show(fd_snapshot(fd)))
            elif fd_hash_outcome(fd) != ref_hash:
                bad('%s|hash-unchanged' % name, sub, ref_hash[0], fd_hash_outcome(fd)[0])

    # ---- B. hashing ----------------------------------------------------------------------------------
    fd = FrozenDict(items)
    twin = FrozenDict(sorted(fd_items(content), key=lambda kv: kv[0]))
    t.count(nontrivial=len(content) > 1, sample=dict(case0, check='hash'))
    if hashable:
        h = [fd_hash_outcome(fd) for _ in range(3)]
        if h[0][0] != 'ok' or h[1:] != h[:-1]:
            bad('hash|stable-value', 'hash', 'one integer, three times', [x[1] if x[0] == 'exc' else 'int' for x in h])
        else:
            if not (fd == twin) or fd != twin:
                bad('eq|insertion-order', 'hash', True, False)
            elif fd_hash_outcome(twin) != h[0]:
                bad('hash|insertion-order', 'hash', 'hash equal to that of the same content inserted in sorted key order',
                    'different hashes')
            else:
                try:
                    found = {fd: 1}[twin] == 1 and len({fd, twin}) == 1
                except Exception as e:
                    found = 'raised ' + type(e).__name__
                if found is not True:
                    bad('hash|usable-as-key', 'hash', True, found)
            # equal values of another type (0 == False, 1 == 1.0): equal dicts, hence equal hashes
            alt = FrozenDict([(k, {0: False, 1: 1.0}[v] if type(v) is int else v) for k, v in items])
            if alt == fd and fd_hash_outcome(alt) != h[0]:
                bad('hash|equal-values-of-other-type', 'hash', 'equal hashes', 'different hashes')
            routes = (('kwargs', lambda: FrozenDict(**dict(items))), ('FrozenDict(FrozenDict)', lambda: FrozenDict(fd)),
                      ('FrozenDict().updated(pairs)', lambda: FrozenDict().updated(items)),
                      ('dict-plus-kwargs', lambda: FrozenDict(dict(items[:1]), **dict(items[1:]))))
            for route, mk in routes:
                t.count(nontrivial=nontriv)
                try:
                    o = mk()
                except Exception as e:
                    bad('hash|construction-route', 'hash', 'an equal FrozenDict via ' + route, 'raised ' + type(e).__name__)
                    continue
                if o == fd and fd_hash_outcome(o) != h[0]:
                    bad('hash|construction-route', 'hash', 'equal hashes via ' + route, 'different hashes')
            fd_check_subclasses(FrozenDict, FrozenHashError, content, fd, h[0], bad, lambda: t.count(nontrivial=nontriv))
    else:
        fd_check_subclasses(FrozenDict, FrozenHashError, content, fd, None, bad, lambda: t.count(nontrivial=nontriv))
        outs = []
        for _ in range(3):
            try:
                hash(fd); outs.append('returned')
            except FrozenHashError:
                outs.append('FrozenHashError')
            except Exception as e:
                outs.append(type(e).__name__)
        try:
            {fd: 1}; outs.append('accepted as a dict key')
        except FrozenHashError:
            outs.append('FrozenHashError')
        except Exception as e:
            outs.append(type(e).__name__)
        if outs != ['FrozenHashError'] * 4:
            bad('hash|unhashable-value-raises-FrozenHashError-every-time', 'hash', ['FrozenHashError'] * 4, outs)
        # equality is dict equality, whatever was tried on the operands before: two equal FrozenDicts with an unhashable
        # value, hash() attempted (and refused) on none / one / both of them, and derived copies of a refused one
        for tried in ('neither', 'left', 'right', 'both'):
            a, b = FrozenDict(fd_items(content)), FrozenDict(fd_items(content))
            if tried in ('left', 'both'):
                fd_hash_outcome(a)
            if tried in ('right', 'both'):
                fd_hash_outcome(b)
            t.count(nontrivial=nontriv)
            try:
                res = [a == b, a != b, a == dict(fd_items(content)), dict(fd_items(content)) == a]
            except Exception as e:
                res = 'raised ' + type(e).__name__
            if res != [True, False, True, True]:
                bad('eq|after-refused-hash(%s)' % tried, 'hash', [True, False, True, True], res)
        for route, mk in (('updated()', lambda x: x.updated()), ('copy()', lambda x: x.copy()),
                          ('copy.deepcopy', copy.deepcopy), ('pickle', lambda x: pickle.loads(pickle.dumps(x))),
                          ('FrozenDict(fd)', FrozenDict)):
            a = FrozenDict(fd_items(content))
            fd_hash_outcome(a)
            t.count(nontrivial=nontriv)
            try:
                b = mk(a)
                fd_hash_outcome(b)
                res = [a == b, b == a, a != b]
            except Exception as e:
                res = 'raised ' + type(e).__name__
            if res != [True, True, False]:
                bad('eq|derived-after-refused-hash:%s' % route, 'hash', [True, True, False], res)

    # ---- C. derivations: equal values, original untouched ---------------------------------------------
    def derive(name, fn, want, label=None, value=True):
        for cached in (True, False):
            sub = 'derive:%s:%s' % (label or name, 'hash-cached' if cached else 'hash-not-yet-computed')
            fd = FrozenDict(items)
            ref_hash = fd_hash_outcome(FrozenDict(items))
            if cached:
                fd_hash_outcome(fd)
            snap = fd_snapshot(fd)
            t.count(nontrivial=nontriv, sample=dict(case0, check=sub))
            try:
                res = fn(fd)
            except Hang:
                raise
            except Exception as e:
                bad('%s|returns-equal-value' % name, sub, want, 'raised ' + type(e).__name__)
                continue
            try:
                same = isinstance(res, dict) and res == want and dict(dict.items(res)) == want
            except Exception:
                same = False
            if not value:
                same = isinstance(res, dict)
            elif not same:
                bad('%s|returns-equal-value' % name, sub, want, res if isinstance(res, dict) else repr(res))
            elif isinstance(res, FrozenDict) and fd_hashable(want):
                if fd_hash_outcome(res) != fd_hash_outcome(FrozenDict(sorted(want.items()))):
                    bad('%s|result-hash' % name, sub, 'hash of an equal FrozenDict', fd_hash_outcome(res)[:1])
            if same and res is not fd and not isinstance(res, FrozenDict):
                try:                                 # a mutable result must be detached from the original
                    res['zz'] = 1
                    res.pop('a', None)
                except Exception:
                    pass
            if fd_snapshot(fd) != snap:
                bad('%s|original-unchanged' % name, sub, fd_show(snap), fd_show(fd_snapshot(fd)))
            elif fd_hash_outcome(fd) != ref_hash:
                bad('%s|original-hash-unchanged' % name, sub, ref_hash[0], fd_hash_outcome(fd)[0])

    base = dict(items)
    derive('updated()', lambda fd: fd.updated(), dict(base))
    derive('updated(dict)', lambda fd: fd.updated({'a': 9, 'z': 8}), dict(base, a=9, z=8))
    derive('updated(pairs)', lambda fd: fd.updated([('z', 8), ('b', 7)]), dict(base, z=8, b=7))
    derive('updated(iterator)', lambda fd: fd.updated(iter([('c', 1)])), dict(base, c=1))
    derive('updated(kwargs)', lambda fd: fd.updated(a=[1]), dict(base, a=[1]))
    derive('updated(dict,kwargs)', lambda fd: fd.updated({'z': 1}, b=2), dict(base, z=1, b=2))
    derive('updated(FrozenDict)', lambda fd: fd.updated(FrozenDict(b=5)), dict(base, b=5))
    derive('copy()', lambda fd: fd.copy(), dict(base))
    derive('copy.copy', lambda fd: copy.copy(fd), dict(base))
    derive('copy.deepcopy', lambda fd: copy.deepcopy(fd), dict(base))
    derive('FrozenDict(fd)', lambda fd: FrozenDict(fd), dict(base))
    derive('FrozenDict(fd,kwargs)', lambda fd: FrozenDict(fd, z=3), dict(base, z=3))
    derive('FrozenDict(fd,kwargs-overwrite)', lambda fd: FrozenDict(fd, a=[9]), dict(base, a=[9]))
    derive('FrozenDict(fd.items())', lambda fd: FrozenDict(fd.items()), dict(base))
    derive('dict(fd)', lambda fd: dict(fd), dict(base))
    derive('type(fd)(fd)', lambda fd: type(fd)(fd, **{}), dict(base))
    derive('or', lambda fd: fd | {'z': 9}, dict(base, z=9), value=False)
    derive('ror', lambda fd: {'z': 9, 'a': 5} | fd, dict({'z': 9, 'a': 5}, **base), value=False)
    for proto in range(pickle.HIGHEST_PROTOCOL + 1):
        derive('pickle', lambda fd: pickle.loads(pickle.dumps(fd, proto)), dict(base), label='pickle-protocol-%d' % proto)
    if content:
        ks = [k for k, _ in content]
        v = fd_value(content[0][1])
        derive('fromkeys', lambda fd: type(fd).fromkeys(ks, v), dict.fromkeys(ks, v))


def fd_shard(arg):
    from boltons.dictutils import FrozenDict, FrozenHashError
    values, idx, nshards = arg
    t = inputs.Tally()
    content = ()
    try:
        with Budget(900):
            for i, content in enumerate(fd_contents(values)):
                if i % nshards == idx:
                    fd_check_content(FrozenDict, FrozenHashError, content, t)
    except Hang:
        t.bad('C17|frozen:terminates', {'kind': 'frozen', 'content': [list(p) for p in content], 'check': 'all'},
              'returns', 'shard exceeded its 900 s CPU budget')
    return t


# keys of mixed, mutually non-orderable types (and partially ordered frozensets): "equal FrozenDicts have equal hashes
# regardless of insertion order" must not depend on the keys being sortable
MIXED_KEY_CODES = ('int1', 'none', 'tuple', 'fs1', 'fs2', 'fs12', 'str', 'float')


def mixed_key(code):
    return {'int1': 1, 'none': None, 'tuple': (0,), 'fs1': frozenset({1}), 'fs2': frozenset({2}),
            'fs12': frozenset({1, 2}), 'str': 'a', 'float': 2.5}[code]


def fd_mixed_check(FrozenDict, codes, t):
    """All insertion orders of one key set: equal objects, equal hashes, usable as set members."""
    perms = list(itertools.permutations(codes))
    built = []
    for perm in perms:
        fd = FrozenDict([(mixed_key(c), i) for c, i in zip(perm, [codes.index(c) for c in perm])])
        built.append((perm, fd, fd_hash_outcome(fd)))
    ref_perm, ref, ref_h = built[0]
    for perm, fd, h in built:
        case = {'kind': 'frozen-mixed', 'keys': list(codes), 'order': list(perm), 'reference_order': list(ref_perm)}
        t.count(nontrivial=len(codes) >= 2)
        if fd != ref:
            t.bad('C17|frozen:mixed-keys|insertion-orders-not-equal', case, True, False)
        elif h != ref_h or h[0] != 'ok':
            t.bad('C17|frozen:mixed-keys|equal-FrozenDicts-hash-differently', case, ref_h, h)
        elif ref not in {fd}:
            t.bad('C17|frozen:mixed-keys|set-lookup-misses-an-equal-FrozenDict', case, True, False)
    # derivations keep the hash: updated() with nothing new, and a rebuild from a plain dict
    fd = built[-1][1]
    for name, other in (('updated()', fd.updated()), ('FrozenDict(dict(fd))', FrozenDict(dict(fd)))):
        t.count(nontrivial=True)
        if other != ref or fd_hash_outcome(other) != ref_h:
            t.bad('C17|frozen:mixed-keys|equal-FrozenDicts-hash-differently',
                  {'kind': 'frozen-mixed', 'keys': list(codes), 'order': list(built[-1][0]), 'via': name},
                  ref_h, fd_hash_outcome(other))


def fd_mixed_shard(arg):
    from boltons.dictutils import FrozenDict
    idx, nshards, maxkeys = arg
    t = inputs.Tally()
    i = 0
    for n in range(1, maxkeys + 1):
        for codes in itertools.combinations(MIXED_KEY_CODES, n):
            if i % nshards == idx:
                fd_mixed_check(FrozenDict, codes, t)
            i += 1
    return t


# A FrozenDict pickled by one interpreter and loaded by another (different str hash seed) must hash like an equal
# FrozenDict built locally: "equal FrozenDicts have equal hashes", "pickle returns equal values".
XPROC_WRITER = r'''
import sys, pickle
sys.path.insert(0, sys.argv[1])
from boltons.dictutils import FrozenDict
out = []
for hashed_first in (False, True):
    for proto in range(pickle.HIGHEST_PROTOCOL + 1):
        for items in ([("a", 1)], [("a", "b"), ("c", "d")], [(1, "x"), ("y", 2), (None, (0,))], []):
            fd = FrozenDict(items)
            if hashed_first:
                hash(fd)
            out.append((hashed_first, proto, items, pickle.dumps(fd, proto)))
sys.stdout.buffer.write(pickle.dumps(out))
'''


def fd_cross_process(ctx):
    import pickle
    import subprocess
    import sys
    from boltons.dictutils import FrozenDict
    t = inputs.Tally()
    for seed in ('123', '987'):
        p = subprocess.run([sys.executable, '-c', XPROC_WRITER, core.repo_root()], capture_output=True,
                           env=dict(os.environ, PYTHONHASHSEED=seed), timeout=120)
        if p.returncode != 0:
            raise RuntimeError('cross-process writer failed: %s' % p.stderr.decode()[-300:])
        for hashed_first, proto, items, blob in pickle.loads(p.stdout):
            case = {'kind': 'frozen-xproc', 'items': [list(i) for i in items], 'protocol': proto,
                    'hashed_before_pickling': hashed_first, 'writer_hash_seed': seed}
            t.count(nontrivial=bool(items), sample=case)
            got = pickle.loads(blob)
            local = FrozenDict(items)
            if got != local or dict(got) != dict(items):
                t.bad('C17|frozen:pickle-across-processes|value', case, repr(local), repr(got))
            elif hash(got) != hash(local) or got not in {local}:
                t.bad('C17|frozen:pickle-across-processes|equal-FrozenDicts-hash-differently', case, hash(local), hash(got))
    total = inputs.run_shards(ctx, lambda _a: t, [0], part='frozendict-pickle-across-processes', procs=1, rule=(
        'FrozenDicts pickled (every protocol, hash computed or not before pickling) in interpreters with other hash seeds, '
        'loaded here: equal to and hashing like a locally built one'))
    return total


# ======================================================================================================
# run / replay
# ======================================================================================================

def run(ctx):
    quick = ctx.quick()
    parts = []
    specs = [OtoSpec(expand_none=False, rich=True), M2mSpec(ordered=False)]
    if not quick:
        # larger spaces: None (entering through setdefault(k)) becomes part of the expanded domain (4 x 4, leaner
        # update menu); ManyToMany states keep the dict order of data / inv.data apart
        specs += [OtoSpec(expand_none=True, rich=False), M2mSpec(ordered=True)]
    for spec in specs:
        spec.ctx = ctx
        res = histories.explore(spec, ctx)
        if hang_seen(spec):
            res.fixpoint, res.capped = False, 'search cut short after an operation did not return'
        parts.append((spec.config, res))
        ctx.note('%s (%s): states=%d transitions=%d depth=%d fixpoint=%s'
                 % (spec.config['class'], spec.config.get('canon') or 'expanded domain %s' % spec.config['expanded_domain'],
                    res.states, res.transitions, res.depth, res.fixpoint))
    cov = histories.merge_coverage(ctx, parts, rule=(
        'E1: BFS to fixpoint over all histories of the op menu, keys and values from {0,1,2}, every operation on the '
        'forward object and on .inv; a state is the canonical form of the real pair of dicts (items in dict order on '
        'both sides; ManyToMany: value sets sorted, pattern of shared set objects); writers and removers also with '
        'operands that are equal to but not the same objects as the stored ones (1.0 for 1); transitions labelled '
        '"[object read before the call]" are the second execution of a core-menu operation on an object on which every '
        'public read was made after each step of its history.  E2: a FrozenDict case is '
        'non-trivial when the content is non-empty (hash part: at least two keys, so insertion orders differ)'))
    inputs.run_shards(ctx, oto_identity_shard, [(i, 16) for i in range(16)], part='onetoone-operand-identity', rule=(
        'every one-to-one relation over 3 x 3 tuple objects x every writer / remover on the forward and the inverse side '
        'x per operand "the stored object" or "a new equal object of the same type"; non-trivial: non-empty state and at '
        'least one operand that is not the stored object'))
    inputs.run_shards(ctx, odd_shard, [(i, 16, 3 if quick else 4) for i in range(16)], part='onetoone-nan-operands', rule=(
        'every list of <= %d pairs over {one float("nan") object, 0, 1}^2 x %d ways of putting the pairs into a OneToOne '
        '(constructors, unique, update, |=, item assignment, copies) x nothing / one removal or re-assignment of each '
        'element on either side; contents, mirror and identity of what lookups return; non-trivial: NaN occurs'
        % (3 if quick else 4, len(ODD_FORMS))))
    inputs.run_shards(ctx, fail_shard, [(i, 16) for i in range(16)], part='manytomany-failing-sources', rule=(
        'every relation of <= 3 pairs over {0,1,2}^2 x every sequence of <= 3 good rows out of %r followed by a failure (%s) x '
        'entry point (%s); the exception reaches the caller, mirror and contents (previous pairs plus a prefix of the good '
        'rows) hold, every pair can be removed afterwards; non-trivial: at least one good row before the failure'
        % (list(FAIL_GOOD), ', '.join(FAIL_KINDS), ', '.join(FAIL_ENTRIES))))
    values = FD_VALUES_QUICK if quick else FD_VALUES_THOROUGH
    n = 16
    inputs.run_shards(ctx, fd_shard, [(values, i, n) for i in range(n)], part='frozendict-matrix', rule=(
        'every ordered content over <=3 keys x value alphabet x every mutator (hash cached / not yet computed) x '
        'every derivation (updated, copy, deepcopy, pickle protocols, fromkeys, |)'))
    inputs.run_shards(ctx, fd_mixed_shard, [(i, 8, 3 if quick else 4) for i in range(8)], part='frozendict-mixed-keys',
                      rule='every key set of <= %d keys out of %r in every insertion order: equality and hash'
                           % (3 if quick else 4, MIXED_KEY_CODES))
    fd_cross_process(ctx)
    cov['bounds'] = {'OneToOne/ManyToMany': {'keys': list(DOM), 'values': list(DOM),
                                             'sides': ['forward', 'inv'], 'search': 'fixpoint',
                                             'read_before_the_call_variant': {
                                                 'OneToOne ops': sorted(set(oto_opname(op) for op in specs[0].observed_menu)),
                                                 'ManyToMany ops': sorted(set(M2M_SHAPES.get(op[1], op[1])
                                                                              for op in specs[1].observed_menu)),
                                                 'per state': [len(specs[0].observed_menu), len(specs[1].observed_menu)]},
                                             'keyword_pairs': [list(map(list, kw)) for kw in OTO_KWS],
                                             'operand_identity': ['the stored object (shared small int)',
                                                                  'equal object of another type (float), xeq ops'],
                                             'ManyToMany_xeq_ops': sorted(set(
                                                 '%s:%s' % (op[3], XEQ_MODES[op[2]])
                                                 for op in specs[1].menu if op[1] == 'xeq'))},
                     'OneToOne operand identity': {'objects': 'tuples ("obj", i), i in %r' % (DOM,),
                                                   'states': len(oto_value_states()), 'stored': ['shared', 'new equal'],
                                                   'operands': ['the shared object', 'a new equal object'],
                                                   'ops': list(OTO_ID_PAIR_OPS + OTO_ID_KEY_OPS), 'sides': ['forward', 'inv']},
                     'FrozenDict': {'keys': list(FD_KEYS), 'values': list(values), 'max_items': 3,
                                    'classes': ['FrozenDict', 'plain subclass', 'slotted subclass (hash part)'],
                                    'mutator_calls': [name for name, _, _ in FD_MUTATORS],
                                    'mutator_oracle': 'TypeError for every call of a mutating operation, also when the '
                                                      'same call would leave a builtin dict as it is',
                                    'insertion_orders': 'all', 'ordered_contents': sum(1 for _ in fd_contents(values))}}
    cov['exhaustive'] = all(r.fixpoint for _, r in parts)
    ctx.assumptions += [
        'keys and values are ints 0..2 (OneToOne/ManyToMany) with well-behaved __eq__/__hash__; None and string keys '
        'enter only through setdefault(k) and update(**kwargs) (plus floats 0.0..2.0 and tuples as equal-but-distinct '
        'operands; "inverse" and "same pairs" are judged by ==, as dicts do): such successor states are checked'
        + (' but not expanded' if quick else '; None-states are expanded in the second OneToOne search, kwargs-states are not'),
        'popitem may remove any present item (the reference follows the implementation)',
        'ManyToMany.replace onto an existing key may merge or take over (DESIGN 5.1)',
        'remove/del of an absent ManyToMany pair/key may raise KeyError or do nothing; the state must not change',
        'update(pairs with a repeated key) may assign pair by pair or de-duplicate the argument first',
        'a FrozenDict call that would not change a builtin dict may raise TypeError or answer like the dict',
        'an instance of a FrozenDict subclass is a FrozenDict: when it compares equal to another FrozenDict the hashes must agree',
        'hang guard: %d s of worker CPU time per expanded state (normal cost: well under a second)' % OP_BUDGET]


def replay(ctx, data):
    case = data['case']
    kind = case.get('kind') or case['config']['kind']
    msgs = []
    if kind == 'frozen-xproc':
        import io as _io
        t0 = ctx.viol.copy()
        fd_cross_process(ctx)
        return ['%s expected=%r observed=%r' % (r['sig'], r['expected'], r['observed'])
                for k, r in sorted(ctx.viol.items()) if k not in t0]
    if kind == 'oto-identity':
        from boltons.dictutils import OneToOne
        rev = lambda d, x: [k for k, v in d.items() if v == x][0]        # noqa: E731
        stored = rev({'S': 'shared objects', 'N': 'new equal objects'}, case['stored'])
        modes = ''.join(rev({'S': 'the shared object', 'N': 'a new equal object'}, m) for m in case['operands'])
        try:
            with Budget(OP_BUDGET):
                found = oto_identity_check(OneToOne, oto_identity_spec(), [tuple(p) for p in case['state']], stored,
                                           tup(case['op']), modes)
        except Hang:
            return ['%s: no return within %d s of CPU time' % (data.get('signature'), OP_BUDGET)]
        return ['%s expected=%r observed=%r' % f for f in found]
    if kind == 'm2m-failing-source':
        from boltons.dictutils import ManyToMany
        try:
            with Budget(OP_BUDGET):
                found = fail_check(ManyToMany, M2mSpec(ordered=False), [tuple(p) for p in case['state']],
                                   [tuple(p) for p in case['good_rows']], case['failure'], case['entry'])
        except Hang:
            return ['%s: no return within %d s of CPU time' % (data.get('signature'), OP_BUDGET)]
        return ['%s expected=%r observed=%r' % f for f in found]
    if kind == 'oto-nan':
        from boltons.dictutils import OneToOne
        try:
            with Budget(OP_BUDGET):
                found = odd_check(OneToOne, [tuple(p) for p in case['pairs']], case['form'], case['then'], case['target'])
        except Hang:
            return ['%s: no return within %d s of CPU time' % (data.get('signature'), OP_BUDGET)]
        return ['%s expected=%r observed=%r' % f for f in found]
    if kind == 'frozen-mixed':
        from boltons.dictutils import FrozenDict
        t = inputs.Tally()
        fd_mixed_check(FrozenDict, tuple(case['keys']), t)
        return ['%s expected=%r observed=%r' % (r[6], r[1], r[2]) for _, r in sorted(t.viols.items())]
    if kind == 'frozen':
        from boltons.dictutils import FrozenDict, FrozenHashError
        t = inputs.Tally()
        content = tuple((k, c) for k, c in case['content'])
        fd_check_content(FrozenDict, FrozenHashError, content, t)
        for key, r in sorted(t.viols.items()):
            if r[6] == data.get('signature') or not data.get('signature'):
                msgs.append('%s check=%s expected=%r observed=%r' % (r[6], r[0].get('check'), r[1], r[2]))
        return msgs
    cfg = case['config']
    if kind == 'oto':
        spec = OtoSpec(expand_none=len(cfg['expanded_domain']) > 3, rich=cfg.get('rich_menu', True))
    else:
        spec = M2mSpec(ordered=cfg['canon'].startswith('dict order of'))
    hist = [tup(op) for op in case['history']]
    observed = bool(case.get('observed'))
    try:
        with Budget(OP_BUDGET):
            for i in range(len(hist)):
                pre = tuple(hist[:i])
                st, model = spec.build(pre, observe=observed)
                V, ok, label, _ = spec.step(st, model, hist[i], pre, observed=observed)
                for v in V:
                    msgs.append('step %d %r: %s expected=%r observed=%r' % (i, hist[i], v[0], v[2], v[3]))
                if not ok:
                    break
    except Hang:
        msgs.append('%s: no return within %d s of CPU time' % (data.get('signature'), OP_BUDGET))
    return msgs
